"""C08 - keys and signatures: serialisation is lossless and sign/verify is sound.

Runtime monitoring: the real key classes, auto-detecting parsers, signature providers, the ECDSA
raw<->DER converter and the ``nxpcrypto`` key/signature commands are driven with the committed key
pool plus keys constructed for the edge classes (leading-zero coordinates / scalars / exponents /
primes, leading-zero r, s and RSA signatures, the structured (r, s) byte-length grid).  Oracles:

* exported bytes are decoded by an independent reader (vf.refs.keyder: DER/PEM/PKCS#8 incl. PBES2
  decryption/SPKI/X.509 outer layer) and must contain exactly the key's numbers; every entry point
  that parses them back must return the same numbers;
* every produced signature must verify under the pure-Python verifiers (vf.refs.rsa, vf.refs.ecdsa)
  with the same parameters; SPSDK's verify must accept it and reject a one-bit change of message or
  signature and another key;
* raw<->DER conversion must preserve (r, s) and the curve; a conversion that raises is "refused".
"""
from __future__ import annotations

import hashlib
import math
import os

from vf import core, pki
from vf.refs import ecdsa as recdsa
from vf.refs import keyder
from vf.refs import rsa as rrsa

ID = "C08"
LEVEL = "exploration"
TECHNIQUE = ("runtime monitoring: differential oracle (independent DER/PKCS#8 reader, pure-Python RSA/ECDSA verifiers) "
             "over generated keys, parameter sets, mutations and the structured (r, s) grid")
RULE = (
    "keys: committed pool (rsa2048/3072/4096, p256/p384/p521) + keys built from ctx.rng for the edge classes "
    "(ECC X / Y / d with leading zero bytes, d tiny / n-1-ish; RSA with d or a prime shorter than nominal); "
    "serialisation: {PEM, DER, NXP} x {no, empty, ascii, spaces, unicode, long password} x every entry point "
    "(typed and auto-detecting parse/load, extract_public_key*, Certificate, recreate*, PlainFileSP, CLI); "
    "signatures: {sha1, sha256, sha384, sha512 (+md5, sm3)} x {PKCS#1 v1.5, PSS | raw, DER} x prehashed x message "
    "length classes, leading-zero r / s / RSA signature found by resampling, one-bit mutations, other key; "
    "(r, s) grid: every byte length of r and s from 1 to the coordinate size x top bit set / clear, through "
    "ECDSASignature.parse/export, serialize_signature, SignatureProvider.get_signature and (key recovered from "
    "the chosen (r, s)) PublicKeyEcc.verify_signature.  A case signature is (workload, key class, encoding / "
    "parameter set, entry point, outcome class); non-trivial = the real code was called and its result judged."
)
ASSUMPTIONS = [
    "RSA moduli have exactly the nominal bit length (every generator in scope produces that), so the fixed-width "
    "modulus never has a leading zero byte; the DER INTEGER form (0x00 sign byte) is covered",
    "SM2 and PQC keys are not constructible in this environment (gmssl / spsdk_pqc absent) and are counted as refused",
    "a raw<->DER conversion that raises SPSDKError, and SignatureProvider.get_signature returning the signer's "
    "bytes unchanged after such a refusal, is 'refused', not a violation (DESIGN C08 Soundness)",
    "an exception while verifying a *mutated* input counts as 'does not verify' (the property is about soundness, "
    "not about the error type); non-SPSDK exception types there are reported as observations",
    "giving a password for an unencrypted key (TypeError escapes PrivateKey.parse) is outside the property and "
    "only reported as an observation",
    "md5 / sm3 with RSA are judged by SPSDK self-consistency only (no independent DigestInfo in vf.refs.rsa)",
    "for prehashed ECDSA input longer than the curve order only the leftmost order-length bits are mutated "
    "(the rest is not part of the signed value by FIPS 186-4)",
]
REQUIRED_COUNTERS = [
    "certificate_validations", "priv_roundtrip", "pub_roundtrip", "export_decoded", "sign_verify", "ref_verify", "negatives",
                     "sig_convert", "cli", "leading_zero_keys", "leading_zero_sigs"]
CASE_TIMEOUT_S = 3600  # wall-clock watchdog only (RSA-4096 edge cases need ~10 CPU s; the machine may be shared 40-fold)
WATCHDOG_S = {"quick": 3000, "thorough": 14400}
MAX_JOBS = 16

# mechanism keys -------------------------------------------------------------------------------
KF_DER_LENGTH = "ecdsa-der-length-guess"           # DESIGN section 3: DER blob whose length collides with a raw length
K_DER_CURVE = "ecdsa-der-curve-from-length"        # DER parsed with right (r, s) but the curve of another length window
K_VERIFY_DER_RAWSIZE = "ecc-verify-der-length-equals-raw-size"  # verify_signature reads a DER blob of 2*size bytes as raw
K_CLI_RAW_P521 = "cli-key-convert-raw-p521-width"  # nxpcrypto key convert -e RAW: key_size // 8 = 65 for P-521

K_SP_DROPS_PSS = "sp-config-drops-pss-padding"     # SignatureProvider.create filters pss_padding away for type=file

CURVE_LONG = {"p256": "secp256r1", "p384": "secp384r1", "p521": "secp521r1"}
CURVE_SHORT = {v: k for k, v in CURVE_LONG.items()}
HASHES = ["sha1", "sha256", "sha384", "sha512"]
EXOTIC = ["md5", "sm3"]
RAW_SIZES = {32, 48, 66}
MSG_LENS = [0, 1, 16, 55, 56, 63, 64, 65, 100, 1000, 5000]
PASSWORDS = [("none", None), ("empty", ""), ("ascii", "secret123"), ("spaces", "pass word with  spaces"),
             ("unicode", "pä$$wörd-ключ-鍵"), ("long", None),
             # a password is a password: text that happens to look like an environment reference, a home directory or the
             # name of a file in the working directory is still taken literally by the key classes
             ("envvar", None), ("tilde", "~/key pass"), ("filename", None)]


# ------------------------------------------------------------------------------------------------
class _NS:
    pass


_S = None


def S():
    """Lazy access to the tree under test (never imported at module import: the runner's parent
    process imports this module before the import path is set)."""
    global _S  # pylint: disable=global-statement
    if _S is None:
        ns = _NS()
        from spsdk.crypto import keys, signature_provider
        from spsdk.crypto import utils as cutils
        from spsdk.crypto.certificate import Certificate
        from spsdk.crypto.crypto_types import SPSDKEncoding
        from spsdk.crypto.hash import EnumHashAlgorithm
        from spsdk.exceptions import SPSDKError

        ns.keys, ns.sp, ns.cutils, ns.Certificate = keys, signature_provider, cutils, Certificate
        ns.Enc, ns.Hash, ns.SPSDKError = SPSDKEncoding, EnumHashAlgorithm, SPSDKError
        ns.ENC = {"PEM": SPSDKEncoding.PEM, "DER": SPSDKEncoding.DER, "NXP": SPSDKEncoding.NXP}
        ns.curve = {k: keys.EccCurve(v) for k, v in CURVE_LONG.items()}

        class StubSP(signature_provider.SignatureProvider):
            """A signature provider whose signer returns a prepared blob (models an HSM / plugin signer)."""

            identifier = "vf-c08-stub"

            def __init__(self, blob: bytes, length: int) -> None:
                self.blob, self.length = blob, length

            def sign(self, data: bytes) -> bytes:
                return self.blob

            @property
            def signature_length(self) -> int:
                return self.length

        ns.StubSP = StubSP
        import logging

        logging.getLogger("spsdk.crypto.signature_provider").setLevel(logging.ERROR)
        _S = ns
    return _S


class Agg:
    """Aggregates the outcomes of one case: one ok record per class signature, one violation per mechanism."""

    def __init__(self, ctx):
        self.ctx = ctx
        self.oks: dict = {}
        self.refs: dict = {}
        self.viol: dict = {}

    def ok(self, *sig, sample=None):
        e = self.oks.setdefault(sig, [0, sample])
        e[0] += 1

    def refused(self, sig, why):
        e = self.refs.setdefault(tuple(sig), [0, str(why)[:150]])
        e[0] += 1

    def bad(self, mech, detail):
        e = self.viol.setdefault(mech, [0, detail, set()])
        e[0] += 1
        if isinstance(detail, dict) and "class" in detail:
            e[2].add(str(detail["class"]))

    def flush(self):
        for sig, (n, sample) in self.oks.items():
            self.ctx.ok(list(sig), n=n, sample=sample)
        for sig, (n, why) in self.refs.items():
            self.ctx.refused(list(sig), why, n=n)
        for mech, (n, detail, classes) in self.viol.items():
            d = dict(detail) if isinstance(detail, dict) else {"detail": detail}
            d["occurrences_in_case"] = n
            if classes:
                d["classes"] = sorted(classes)[:20]
            self.ctx.violation(mech, d)


def _flip(data: bytes, bit: int) -> bytes:
    b = bytearray(data)
    b[bit // 8] ^= 1 << (bit % 8)
    return bytes(b)


def _blen(v: int) -> int:
    return max(1, (v.bit_length() + 7) // 8)


def _hash_enum(name):
    return S().Hash.from_label(name)


# ------------------------------------------------------------------------- numbers of objects ---
PUB_FIELDS = {"rsa": ("n", "e"), "ecc": ("curve", "x", "y")}
PRIV_FIELDS = {"rsa": ("n", "e", "d", "pq"), "ecc": ("curve", "x", "y", "d")}


def pub_numbers(obj) -> dict:
    k = S().keys
    if isinstance(obj, k.PublicKeyRsa):
        return {"type": "rsa", "n": obj.n, "e": obj.e}
    if isinstance(obj, k.PublicKeyEcc):
        return {"type": "ecc", "curve": CURVE_SHORT.get(obj.curve.value, obj.curve.value), "x": obj.x, "y": obj.y}
    return {"type": type(obj).__name__}


def priv_numbers(obj) -> dict:
    k = S().keys
    if isinstance(obj, k.PrivateKeyRsa):
        pn = obj.key.private_numbers()
        return {"type": "rsa", "n": pn.public_numbers.n, "e": pn.public_numbers.e, "d": pn.d, "pq": sorted((pn.p, pn.q))}
    if isinstance(obj, k.PrivateKeyEcc):
        pn = obj.key.private_numbers()
        return {"type": "ecc", "curve": CURVE_SHORT.get(obj.curve.value, obj.curve.value), "d": pn.private_value,
                "x": pn.public_numbers.x, "y": pn.public_numbers.y}
    return {"type": type(obj).__name__}


def _same(got: dict, want: dict, fields) -> bool:
    return got.get("type") == want["type"] and all(got.get(f) == want[f] for f in fields[want["type"]])


def _brief(nums: dict) -> dict:
    return {k: (hex(v) if isinstance(v, int) and v > 1 << 32 else v) for k, v in nums.items() if k not in ("pq", "dp", "dq", "qi")}


# ------------------------------------------------------------------------------ key material ---
def want_of_pool(name: str) -> dict:
    """Expected numbers of a pool key: index.json cross-checked with the independent reader of the DER file."""
    v = pki.numbers(name)
    ind = keyder.parse_pkcs8(pki.data(name, "priv", "der"))
    if v["type"] == "rsa":
        if (ind["n"], ind["e"], ind["d"]) != (v["n"], v["e"], v["d"]):
            raise core.Inconclusive(f"pool key {name}: index.json and DER file disagree")
        return {"type": "rsa", "bits": v["bits"], "n": v["n"], "e": v["e"], "d": v["d"], "pq": sorted((ind["p"], ind["q"])),
                "kind": v["kind"], "name": name}
    if (ind["d"], ind.get("x"), ind.get("y")) != (v["d"], v["x"], v["y"]):
        raise core.Inconclusive(f"pool key {name}: index.json and DER file disagree")
    return {"type": "ecc", "curve": v["curve"], "x": v["x"], "y": v["y"], "d": v["d"], "size": v["size"],
            "kind": v["kind"], "name": name}


def _crypto_curve(curve: str):
    from cryptography.hazmat.primitives.asymmetric import ec

    return {"p256": ec.SECP256R1, "p384": ec.SECP384R1, "p521": ec.SECP521R1}[curve]()


# "x-NN": the first byte of X equals NN - the SEC1 point-format markers (02/03/04) and the DER SEQUENCE tag (30) are the
# values a format-guessing parser may mistake for a prefix of the raw X||Y form
ECC_EDGE = ["lz-x", "lz-y", "lz-d", "d-small", "d-max", "x-04", "x-02", "x-03", "x-30"]
RSA_EDGE = ["lz-d", "lz-p"]


def make_ecc_edge(rng, curve: str, cls: str) -> dict:
    """An ECC key of an edge class; d comes from rng, (x, y) from the pure-Python scalar multiplication."""
    from cryptography.hazmat.primitives.asymmetric import ec

    c = recdsa.CURVES[curve]
    tgt = 8 * (c.size - 1) if curve != "p521" else 512
    if cls == "lz-d":
        d = rng.getrandbits(tgt - core.pick(rng, [0, 1, 7, 8, 15, 64])) or 1
    elif cls == "d-small":
        d = rng.randrange(1, 256)
    elif cls == "d-max":
        d = c.n - rng.randrange(1, 256)
    elif cls.startswith("x-"):
        want = int(cls[2:], 16)
        if curve == "p521":  # the top byte of a P-521 coordinate is 00 or 01: use the second byte instead
            shift = 8 * (c.size - 2)
        else:
            shift = 8 * (c.size - 1)
        cobj = _crypto_curve(curve)
        for _ in range(60000):
            d = rng.randrange(1, c.n)
            pn = ec.derive_private_key(d, cobj).public_key().public_numbers()  # fast search; confirmed below
            if (pn.x >> shift) & 0xFF == want and (curve != "p521" or pn.x >> (shift + 8) == 0):
                break
        else:
            raise core.Inconclusive(f"no {cls} key found for {curve}")
    else:
        cobj = _crypto_curve(curve)
        for _ in range(30000):
            d = rng.randrange(1, c.n)
            pn = ec.derive_private_key(d, cobj).public_key().public_numbers()  # fast search; confirmed below
            if (pn.x if cls == "lz-x" else pn.y).bit_length() <= tgt:
                break
        else:
            raise core.Inconclusive(f"no {cls} key found for {curve}")
    x, y = recdsa.pub_from_private(c, d)
    if cls.startswith("x-") and (x >> (8 * (c.size - (2 if curve == "p521" else 1)))) & 0xFF != int(cls[2:], 16):
        raise core.Inconclusive("edge key search and reference multiplication disagree")
    if cls in ("lz-x", "lz-y") and (x if cls == "lz-x" else y).bit_length() > tgt:
        raise core.Inconclusive("edge key search and reference multiplication disagree")
    return {"type": "ecc", "curve": curve, "x": x, "y": y, "d": d, "size": c.size, "kind": curve, "name": f"edge-{curve}-{cls}"}


_SMALL_PRIMES: list = []


def _small_primes():
    if not _SMALL_PRIMES:
        sieve = bytearray([1]) * 4000
        for i in range(2, 4000):
            if sieve[i]:
                _SMALL_PRIMES.append(i)
                for j in range(i * i, 4000, i):
                    sieve[j] = 0
    return _SMALL_PRIMES


def _probable_prime(n: int, rng, rounds: int = 6) -> bool:
    for p in _small_primes():
        if n % p == 0:
            return n == p
    d, s = n - 1, 0
    while d % 2 == 0:
        d //= 2
        s += 1
    for a in [2] + [rng.randrange(3, n - 1) for _ in range(rounds)]:
        x = pow(a, d, n)
        if x in (1, n - 1):
            continue
        for _ in range(s - 1):
            x = x * x % n
            if x == n - 1:
                break
        else:
            return False
    return True


def _gen_prime(rng, bits: int, g: int, e: int) -> int:
    """Prime p = 2*g*a + 1 of exactly `bits` bits with the two top bits set and gcd(p-1, e) = 1."""
    lo = -(-(3 << (bits - 2)) // (2 * g))
    hi = ((1 << bits) - 1) // (2 * g)
    while True:
        a = rng.randrange(lo, hi)
        p = 2 * g * a + 1
        if p.bit_length() == bits and p % e != 1 and _probable_prime(p, rng):
            return p


def make_rsa_edge(rng, bits: int, cls: str) -> dict:
    """An RSA key (e = 65537, modulus of exactly `bits` bits) whose private exponent ('lz-d': p-1 and q-1 share a
    12-bit factor, so d = e^-1 mod lcm is at least one byte shorter than the modulus) or smaller prime ('lz-p':
    12 bits shorter than half the modulus) has leading zero bytes in fixed-width form."""
    e = 65537
    half = bits // 2
    g, pb, qb = 1, half, half
    if cls == "lz-d":
        g = rng.randrange(1 << 11, 1 << 12)
    elif cls == "lz-p":
        pb, qb = half - 12, half + 12
    p = _gen_prime(rng, pb, g, e)
    q = _gen_prime(rng, qb, g, e)
    while q == p:
        q = _gen_prime(rng, qb, g, e)
    n = p * q
    lam = (p - 1) * (q - 1) // math.gcd(p - 1, q - 1)
    d = pow(e, -1, lam)
    if n.bit_length() != bits or (cls == "lz-d" and d.bit_length() > bits - 8):
        raise core.Inconclusive("RSA edge key construction failed")
    return {"type": "rsa", "bits": bits, "n": n, "e": e, "d": d, "pq": sorted((p, q)), "p": p, "q": q, "kind": f"rsa{bits}",
            "name": f"edge-rsa{bits}-{cls}"}


def build_private(want: dict):
    """The SPSDK private key object for expected numbers (pool: loaded from the committed PEM file; edge keys:
    through the number-based constructors)."""
    k = S().keys
    if not want["name"].startswith("edge-"):
        return k.PrivateKey.load(pki.path(want["name"], "priv", "pem"))
    if want["type"] == "ecc":
        return k.PrivateKeyEcc.recreate(want["d"], S().curve[want["curve"]])
    from cryptography.hazmat.primitives.asymmetric import rsa

    p, q, d = want["p"], want["q"], want["d"]
    nums = rsa.RSAPrivateNumbers(p, q, d, d % (p - 1), d % (q - 1), pow(q, -1, p), rsa.RSAPublicNumbers(want["e"], want["n"]))
    return k.PrivateKeyRsa(nums.private_key())


def other_pool_key(want: dict, rng) -> dict:
    names = [n for n in pki.names(want["kind"]) if n != want["name"]]
    return want_of_pool(core.pick(rng, names))


# --------------------------------------------------------------------- independent decoding ---
def indep_private(data: bytes, enc_name: str, pw) -> tuple[dict, bool]:
    """Decode an exported private key without spsdk / cryptography -> (numbers, was it encrypted)."""
    der = data
    label = None
    if enc_name == "PEM":
        label, der = keyder.unarmor(data)
    encrypted = keyder.is_encrypted_pkcs8(der)
    if label is not None and label != ("ENCRYPTED PRIVATE KEY" if encrypted else "PRIVATE KEY"):
        raise ValueError(f"PEM label {label!r} does not match the structure (encrypted={encrypted})")
    if encrypted:
        if not pw:
            raise ValueError("encrypted although no password was requested")
        der = keyder.decrypt_pkcs8(der, pw.encode("utf-8"))
    nums = keyder.parse_pkcs8(der)
    if nums["type"] == "rsa":
        nums["pq"] = sorted((nums["p"], nums["q"]))
        p, q = nums["p"], nums["q"]
        if nums["dp"] != nums["d"] % (p - 1) or nums["dq"] != nums["d"] % (q - 1) or nums["qi"] * q % p != 1:
            raise ValueError("CRT parameters inconsistent")
    elif "x" not in nums:
        nums["x"], nums["y"] = recdsa.pub_from_private(nums["curve"], nums["d"])
    return nums, encrypted


def nxp_public_bytes(want: dict, exp_len: int = 3) -> bytes:
    if want["type"] == "ecc":
        return want["x"].to_bytes(want["size"], "big") + want["y"].to_bytes(want["size"], "big")
    return want["n"].to_bytes(want["bits"] // 8, "big") + want["e"].to_bytes(exp_len, "big")


def indep_public(data: bytes, enc_name: str, want: dict) -> dict:
    if enc_name in ("PEM", "DER"):
        out = keyder.parse_public_any(data)
        if (out["armor"] is not None) != (enc_name == "PEM"):
            raise ValueError("armour does not match the requested encoding")
        return out
    if want["type"] == "ecc":
        size = want["size"]
        if len(data) != 2 * size:
            raise ValueError(f"raw ECC key of {len(data)} bytes, {2 * size} expected")
        return {"type": "ecc", "curve": want["curve"], "x": int.from_bytes(data[:size], "big"), "y": int.from_bytes(data[size:], "big")}
    nb = want["bits"] // 8
    if not nb + 3 <= len(data) <= nb + 4:
        raise ValueError(f"raw RSA key of {len(data)} bytes")
    return {"type": "rsa", "n": int.from_bytes(data[:nb], "big"), "e": int.from_bytes(data[nb:], "big")}


def _password(rng, pc, pw):
    if pc == "envvar":
        name = next((n for n in ("HOME", "PATH", "USER", "PWD") if os.environ.get(n)), None)
        return ("${%s}-x$%s" % (name, name)) if name else "$HOME"
    if pc == "filename":
        here = sorted(f for f in os.listdir(".") if os.path.isfile(f) and f.isascii() and " " not in f)
        return here[0] if here else "no-file-here"
    if pc == "long":
        alphabet = "abcdefghijklmnopqrstuvwxyzABCDEFGHIJKLMNOPQRSTUVWXYZ0123456789!#%&()*+,-.:<>?@[]^_{|}"
        return "".join(rng.choice(alphabet) for _ in range(200))
    return pw


def _write(path: str, data: bytes) -> str:
    with open(path, "wb") as f:
        f.write(data)
    return path


# --------------------------------------------------------------------- serialisation battery ---
def battery_private(ctx, agg, rng, k, want, kcls, budget):
    """export x {PEM, DER} x passwords; independent decode; every private entry point parses it back."""
    s = S()
    K = s.keys
    typed = K.PrivateKeyRsa if want["type"] == "rsa" else K.PrivateKeyEcc
    foreign = K.PrivateKeyEcc if want["type"] == "rsa" else K.PrivateKeyRsa
    os.makedirs(ctx.workdir, exist_ok=True)
    combos = [(e, pc, pw) for e in ("PEM", "DER") for pc, pw in PASSWORDS]
    entries = ["PrivateKey.parse", "typed.parse", "PrivateKey.load", "typed.load", "extract_public_key_from_data",
               "extract_public_key", "extract_public_keys", "PlainFileSP"]
    if budget is not None:  # RSA private parsing costs 50-300 ms (OpenSSL key check): sample
        rng.shuffle(combos)
        made = ("long", "envvar", "filename")  # classes whose text is made at run time
        nopw = next(c for c in combos if not c[2] and c[1] not in made)
        withpw = next(c for c in combos if c[2] or c[1] in made)
        combos = [nopw, withpw] + [c for c in combos if c not in (nopw, withpw)][: max(0, budget - 2)]
    for enc_name, pc, pw in combos:
        pw = _password(rng, pc, pw)
        enc = s.ENC[enc_name]
        cls = [kcls, enc_name, "pw:" + pc]
        data = k.export(password=pw, encoding=enc)
        path = os.path.join(ctx.workdir, f"prv_{ctx.case_index}_{enc_name}_{pc}.key")
        k.save(path, pw, enc)
        with open(path, "rb") as f:
            saved = f.read()
        for what, blob in (("export", data), ("save", saved)):
            ctx.count("export_decoded")
            try:
                ind, encrypted = indep_private(blob, enc_name, pw)
            except ValueError as e:
                agg.bad("privkey-export-undecodable", {"class": cls, "what": what, "key": want["name"], "reason": str(e), "data": blob})
                continue
            if encrypted != bool(pw):
                agg.bad("privkey-export-password-not-applied", {"class": cls, "what": what, "key": want["name"], "encrypted": encrypted})
            elif not _same(ind, want, PRIV_FIELDS):
                agg.bad("privkey-export-wrong-numbers", {"class": cls, "what": what, "key": want["name"], "decoded": _brief(ind), "want": _brief(want)})
            elif want["type"] == "ecc" and ind.get("d_len") != want["size"]:
                agg.bad("privkey-export-scalar-width", {"class": cls, "key": want["name"], "d_len": ind.get("d_len")})
            else:
                agg.ok("private", what + "-decoded", *cls)
        use = entries if want["type"] == "ecc" else rng.sample(entries, 3)
        for entry in use:
            if entry == "PlainFileSP" and pw and (any(ch in pw for ch in "$~") or pc == "filename"):
                continue  # the provider documents its password argument as a secret reference (file, $VARIABLE, ~)
            ctx.count("priv_roundtrip")
            try:
                if entry == "PrivateKey.parse":
                    kind, obj = "priv", K.PrivateKey.parse(data, password=pw)
                elif entry == "typed.parse":
                    kind, obj = "priv", typed.parse(data, password=pw)
                elif entry == "PrivateKey.load":
                    kind, obj = "priv", K.PrivateKey.load(path, password=pw)
                elif entry == "typed.load":
                    kind, obj = "priv", typed.load(path, password=pw)
                elif entry == "extract_public_key_from_data":
                    kind, obj = "pub", s.cutils.extract_public_key_from_data(data, pw)
                elif entry == "extract_public_key":
                    kind, obj = "pub", s.cutils.extract_public_key(path, pw)
                elif entry == "extract_public_keys":
                    kind, obj = "pub", s.cutils.extract_public_keys([path], pw)[0]
                else:
                    kind, obj = "priv", s.sp.PlainFileSP(path, password=pw).private_key
            except s.SPSDKError as e:
                agg.bad("privkey-roundtrip-refused/" + entry, {"class": cls, "key": want["name"], "error": core.exc_brief(e)})
                continue
            got = priv_numbers(obj) if kind == "priv" else pub_numbers(obj)
            if not _same(got, want, PRIV_FIELDS if kind == "priv" else PUB_FIELDS):
                agg.bad("privkey-roundtrip-mismatch/" + entry, {"class": cls, "key": want["name"], "got": _brief(got), "want": _brief(want)})
            else:
                agg.ok("private", entry, *cls, sample={"key": want["name"], "bytes": len(data)})
        # a foreign typed parser must not hand out a key
        try:
            obj = foreign.parse(data, password=pw)
            if not _same(priv_numbers(obj), want, PRIV_FIELDS):
                agg.bad("typed-parse-returns-foreign-key", {"class": cls, "key": want["name"], "got": type(obj).__name__})
        except s.SPSDKError as e:
            agg.refused(["private", "foreign-typed.parse", kcls], e)
        if pw:
            for label, bad_pw in (("missing", None), ("wrong", pw + "x")):
                ctx.count("negatives")
                try:
                    K.PrivateKey.parse(data, password=bad_pw)
                except s.SPSDKError:
                    agg.ok("private", "password-" + label + "-refused", kcls, enc_name)
                except Exception as e:  # pylint: disable=broad-except
                    ctx.note("password-" + label + "-non-spsdk-exception", core.exc_brief(e))
                    agg.ok("private", "password-" + label + "-refused", kcls, enc_name)
                else:
                    agg.bad("encrypted-key-parsed-with-" + label + "-password", {"class": cls, "key": want["name"]})
        os.remove(path)
    # unsupported serialisation of a private key: must be refused, not mangled
    try:
        blob = k.export(encoding=s.Enc.NXP)
        agg.bad("privkey-export-nxp-returns-data", {"key": want["name"], "len": len(blob)})
    except s.SPSDKError as e:
        agg.refused(["private", "export-NXP", kcls], e)


def battery_public(ctx, agg, rng, kp, want, kcls):
    """export x {PEM, DER, NXP}; independent decode; every public entry point parses it back."""
    s = S()
    K = s.keys
    typed = K.PublicKeyRsa if want["type"] == "rsa" else K.PublicKeyEcc
    foreign = K.PublicKeyEcc if want["type"] == "rsa" else K.PublicKeyRsa
    os.makedirs(ctx.workdir, exist_ok=True)
    variants = [("PEM", {}), ("DER", {}), ("NXP", {})]
    if want["type"] == "rsa":
        variants.append(("NXP", {"exp_length": 4}))
    blobs = []
    for enc_name, kw in variants:
        data = kp.export(encoding=s.ENC[enc_name], **kw)
        blobs.append((enc_name + ("+exp4" if kw else ""), enc_name, data, "export"))
        if enc_name == "NXP":
            ctx.count("export_decoded")
            if data != nxp_public_bytes(want, kw.get("exp_length", 3)):
                agg.bad("pubkey-nxp-export-wrong-bytes", {"class": [kcls, enc_name], "key": want["name"], "got": data,
                                                          "want": nxp_public_bytes(want, kw.get("exp_length", 3))})
                blobs.pop()
    if not want["name"].startswith("edge-"):
        blobs.append(("pool-SPKI-PEM", "PEM", pki.data(want["name"], "pub", "pem"), "pool"))
        blobs.append(("pool-SPKI-DER", "DER", pki.data(want["name"], "pub", "der"), "pool"))
    for label, enc_name, data, origin in blobs:
        cls = [kcls, label]
        ctx.count("export_decoded")
        try:
            ind = indep_public(data, enc_name, want)
        except ValueError as e:
            agg.bad("pubkey-export-undecodable", {"class": cls, "key": want["name"], "reason": str(e), "data": data})
            continue
        if not _same(ind, want, PUB_FIELDS):
            agg.bad("pubkey-export-wrong-numbers", {"class": cls, "key": want["name"], "decoded": _brief(ind), "want": _brief(want)})
            continue
        agg.ok("public", "export-decoded", *cls)
        path = os.path.join(ctx.workdir, f"pub_{ctx.case_index}_{label}.key")
        if origin == "export" and "+" not in label:
            kp.save(path, s.ENC[enc_name])
            with open(path, "rb") as f:
                if f.read() != data:
                    agg.bad("pubkey-save-differs-from-export", {"class": cls, "key": want["name"]})
        else:
            _write(path, data)
        entries = ["PublicKey.parse", "typed.parse", "PublicKey.load", "typed.load", "extract_public_key_from_data",
                   "extract_public_key"]
        if enc_name == "NXP":
            entries += ["recreate_from_data"] + (["recreate_from_data+curve"] if want["type"] == "ecc" else [])
        for entry in entries:
            ctx.count("pub_roundtrip")
            try:
                if entry == "PublicKey.parse":
                    obj = K.PublicKey.parse(data)
                elif entry == "typed.parse":
                    obj = typed.parse(data)
                elif entry == "PublicKey.load":
                    obj = K.PublicKey.load(path)
                elif entry == "typed.load":
                    obj = typed.load(path)
                elif entry == "extract_public_key_from_data":
                    obj = s.cutils.extract_public_key_from_data(data)
                elif entry == "extract_public_key":
                    obj = s.cutils.extract_public_key(path)
                elif entry == "recreate_from_data":
                    obj = typed.recreate_from_data(data)
                else:
                    obj = typed.recreate_from_data(data, s.curve[want["curve"]])
            except s.SPSDKError as e:
                agg.bad("pubkey-roundtrip-refused/" + entry, {"class": cls, "key": want["name"], "error": core.exc_brief(e)})
                continue
            got = pub_numbers(obj)
            if not _same(got, want, PUB_FIELDS):
                agg.bad("pubkey-roundtrip-mismatch/" + entry, {"class": cls, "key": want["name"], "got": _brief(got), "want": _brief(want)})
            else:
                agg.ok("public", entry, *cls, sample={"key": want["name"], "bytes": len(data)})
        try:
            obj = foreign.parse(data)
            if not _same(pub_numbers(obj), want, PUB_FIELDS):
                agg.bad("typed-parse-returns-foreign-key", {"class": cls, "key": want["name"], "got": type(obj).__name__})
        except s.SPSDKError as e:
            agg.refused(["public", "foreign-typed.parse", kcls], e)
        os.remove(path)
    # number-based constructors
    ctx.count("pub_roundtrip")
    if want["type"] == "ecc":
        obj = K.PublicKeyEcc.recreate(want["x"], want["y"], s.curve[want["curve"]])
    else:
        obj = K.PublicKeyRsa.recreate(want["e"], want["n"])
    if not _same(pub_numbers(obj), want, PUB_FIELDS) or not obj == kp:
        agg.bad("pubkey-recreate-mismatch", {"key": want["name"], "got": _brief(pub_numbers(obj))})
    else:
        agg.ok("public", "recreate(numbers)", kcls)


def _cert_signature_ok(info: dict, issuer: dict) -> bool:
    """Independent check of a certificate signature (outer layer from keyder) under the issuer's numbers."""
    alg = info["sig_alg"]
    if not isinstance(alg, tuple):
        raise core.Inconclusive(f"certificate signature algorithm {alg} not modelled")
    scheme, hname = alg
    if scheme == "rsa-v15":
        return rrsa.verify_pkcs1v15(issuer["n"], issuer["e"], info["tbs"], info["signature"], hname)
    if scheme == "rsa-pss":
        return rrsa.verify_pss(issuer["n"], issuer["e"], info["tbs"], info["signature"], "sha256", 32)
    r, sv = recdsa.der_decode_sig(info["signature"])
    return recdsa.verify_message(issuer["curve"], (issuer["x"], issuer["y"]), info["tbs"], r, sv, hname)


def battery_certificate(ctx, agg, rng, k, kp, want, kcls):
    """Key extraction from certificates: pool certificates (self-signed CA / non-CA, chain leaves) and a
    certificate generated by SPSDK for this very key (its signature is judged by the reference verifier)."""
    s = S()
    os.makedirs(ctx.workdir, exist_ok=True)
    certs = []  # (label, data, issuer numbers or None)
    if not want["name"].startswith("edge-"):
        for what in ("cert", "nonca"):
            for fmt in ("pem", "der"):
                certs.append((f"pool-{what}-{fmt}", pki.data(want["name"], what, fmt), want if fmt == "der" else None))
        for ch in pki.index()["chains"].values():
            if ch["keys"][-1] == want["name"] and len(ch["keys"]) > 1:
                with open(os.path.join(pki.DIR, ch["certs"][-1]), "rb") as f:
                    certs.append((f"pool-chain{len(ch['keys'])}-leaf", f.read(), want_of_pool(ch["keys"][-2])))
                break
    from cryptography import x509
    from cryptography.x509.oid import NameOID

    name = x509.Name([x509.NameAttribute(NameOID.COMMON_NAME, "vf-c08 " + want["name"])])
    pss = rng.random() < 0.5 if want["type"] == "rsa" else None
    gen = s.Certificate.generate_certificate(name, name, kp, k, serial_number=rng.getrandbits(63) | 1, pss_padding=pss)
    certs.append(("generated-selfsigned" + ("-pss" if pss else ""), gen.export(s.Enc.DER), want))
    # a certificate from another tool: self-signed with a hash drawn independently of the key size (the hash a certificate
    # is signed with is named IN the certificate; it need not be the one SPSDK would choose for that key)
    import datetime

    from cryptography.hazmat.primitives import hashes as chashes
    from cryptography.hazmat.primitives import serialization as cser

    fh = core.pick(rng, ["sha256", "sha384", "sha512"])
    foreign = (x509.CertificateBuilder().subject_name(name).issuer_name(name).public_key(k.key.public_key())
               .serial_number(rng.getrandbits(63) | 1).not_valid_before(datetime.datetime(2024, 1, 1))
               .not_valid_after(datetime.datetime(2044, 1, 1)).sign(k.key, getattr(chashes, fh.upper())()))
    certs.append((f"foreign-selfsigned-{fh}", foreign.public_bytes(cser.Encoding.DER), want))
    for label, data, issuer in certs:
        cls = [kcls, label]
        if issuer is not None:
            info = keyder.parse_certificate(data)
            ctx.count("export_decoded")
            if not _same(info["key"], want, PUB_FIELDS):
                agg.bad("certificate-carries-wrong-key", {"class": cls, "key": want["name"], "decoded": _brief(info["key"])})
                continue
            ctx.count("ref_verify")
            if not _cert_signature_ok(info, issuer):
                agg.bad("certificate-signature-rejected-by-reference", {"class": cls, "key": want["name"], "alg": info["sig_alg"]})
            elif label.startswith("generated"):
                ctx.count("sign_verify")
                agg.ok("sign", "certificate", kcls, str(info["sig_alg"]))
        path = _write(os.path.join(ctx.workdir, f"crt_{ctx.case_index}_{label}.crt"), data)
        cert = s.Certificate.parse(data)
        # the certificate's signature through SPSDK's own validation: valid under its issuer (with the hash the certificate
        # names), not under another key.  PSS certificates are left out (verify_signature is called without the padding).
        if issuer is not None and "pss" not in label:
            not_other = {want["name"]}
            if "chain" in label:
                root = next(ch for ch in pki.index()["chains"].values() if ch["keys"][-1] == want["name"] and len(ch["keys"]) > 1)
                not_other.add(root["keys"][-2])
                with open(os.path.join(pki.DIR, root["certs"][-2]), "rb") as f:
                    issuer_cert = s.Certificate.parse(f.read())
                verdicts = {"validate(issuer)": cert.validate(issuer_cert), "issuer.validate_subject": issuer_cert.validate_subject(cert),
                            "not self_signed": not cert.self_signed}
            else:
                verdicts = {"validate(self)": cert.validate(cert), "validate_subject(self)": cert.validate_subject(cert),
                            "self_signed": cert.self_signed}
            # (a pool key that is neither the subject nor the issuer of THIS certificate)
            other_cert = s.Certificate.parse(pki.data(core.pick(rng, [n for n in pki.names(want["kind"]) if n not in not_other]), "cert", "der"))
            verdicts["not validate(other)"] = not cert.validate(other_cert)
            verdicts["not other.validate_subject"] = not other_cert.validate_subject(cert)
            ctx.count("certificate_validations", len(verdicts))
            wrong = sorted(kx for kx, v in verdicts.items() if v is not True)
            if wrong:
                agg.bad("certificate-validation-wrong-verdict", {"class": cls, "key": want["name"], "wrong": wrong,
                                                                 "signature_hash": str(keyder.parse_certificate(data)["sig_alg"])})
            else:
                agg.ok("certificate", "validate", kcls, label.split("-")[0] + "-" + label.split("-")[-1])
        blobs = [("as-is", data)]
        if label.endswith("der") or label.startswith("generated"):
            blobs += [("re-export-" + e, cert.export(s.ENC[e])) for e in ("PEM", "DER", "NXP")]
        for how, blob in blobs:
            for entry in ("Certificate.parse", "extract_public_key_from_data") + (("Certificate.load", "extract_public_key") if how == "as-is" else ()):
                ctx.count("pub_roundtrip")
                try:
                    if entry == "Certificate.parse":
                        obj = s.Certificate.parse(blob).get_public_key()
                    elif entry == "Certificate.load":
                        obj = s.Certificate.load(path).get_public_key()
                    elif entry == "extract_public_key_from_data":
                        obj = s.cutils.extract_public_key_from_data(blob)
                    else:
                        obj = s.cutils.extract_public_key(path)
                except s.SPSDKError as e:
                    agg.bad("certificate-key-extraction-refused/" + entry, {"class": cls + [how], "key": want["name"], "error": core.exc_brief(e)})
                    continue
                if not _same(pub_numbers(obj), want, PUB_FIELDS):
                    agg.bad("certificate-key-extraction-mismatch/" + entry, {"class": cls + [how], "key": want["name"], "got": _brief(pub_numbers(obj))})
                else:
                    agg.ok("certificate", entry, kcls, label, how)
        os.remove(path)


def battery_pairing(ctx, agg, rng, k, kp, want, kcls):
    """verify_public_key: own public key accepted, another key of the same kind refused."""
    other = other_pool_key(want, rng)
    okp = build_private(other).get_public_key()
    ctx.count("negatives")
    if k.verify_public_key(kp) is not True:
        agg.bad("verify_public_key-rejects-own-key", {"key": want["name"]})
    elif k.verify_public_key(okp) is not False:
        agg.bad("verify_public_key-accepts-other-key", {"key": want["name"], "other": other["name"]})
    else:
        agg.ok("pairing", "verify_public_key", kcls)


# ------------------------------------------------------------------------ signature battery ---
def _digest(hname: str, data: bytes) -> bytes:
    return hashlib.new(hname, data).digest()


def _order_bytes(want: dict) -> int:
    return (recdsa.CURVES[want["curve"]].n.bit_length() + 7) // 8


def _neg_accepts(ctx, pub, sig, data, kw) -> bool:
    """True when SPSDK *accepts* (sig, data); refusals and exceptions count as 'does not verify'."""
    try:
        return bool(pub.verify_signature(sig, data, **kw))
    except S().SPSDKError:
        return False
    except Exception as e:  # pylint: disable=broad-except
        ctx.note("verify-raised-non-spsdk-exception-on-mutated-input", core.exc_brief(e))
        return False


def _ecc_decode(agg, want, sig, fmt, cls):
    """(r, s) of a signature SPSDK produced in the requested format, or None after reporting."""
    size = want["size"]
    if fmt == "raw":
        if len(sig) != 2 * size:
            agg.bad("ecc-sign-raw-wrong-length", {"class": cls, "key": want["name"], "len": len(sig), "want": 2 * size, "sig": sig})
            return None
        return recdsa.raw_decode_sig(sig, size)
    try:
        return recdsa.der_decode_sig(sig)
    except ValueError as e:
        agg.bad("ecc-sign-der-malformed", {"class": cls, "key": want["name"], "sig": sig, "reason": str(e)})
        return None


def _ref_verify(want, scheme, hname, data_in, prehashed, sig, rs):
    """Independent verification; None when the parameter set has no independent model (md5 / sm3 with RSA)."""
    if want["type"] == "rsa":
        if hname not in HASHES:
            return None
        if scheme == "pss":
            return rrsa.verify_pss(want["n"], want["e"], data_in, sig, hname, None, prehashed)
        return rrsa.verify_pkcs1v15(want["n"], want["e"], data_in, sig, hname, prehashed)
    digest = data_in if prehashed else _digest(hname, data_in)
    return recdsa.verify_digest(want["curve"], (want["x"], want["y"]), digest, rs[0], rs[1])


def judge_signature(ctx, agg, rng, kp, want, kcls, other_pub, sig, data_in, hname, scheme, prehashed, origin, extra_cls=()):
    """All oracle clauses for one produced signature.  Returns True when every clause held."""
    s = S()
    cls = [kcls, hname, scheme, "prehashed" if prehashed else "message", *extra_cls]
    kw = {"algorithm": _hash_enum(hname), "prehashed": prehashed}
    rs = None
    good = True
    if want["type"] == "rsa":
        kw["pss_padding"] = scheme == "pss"
        if len(sig) != want["bits"] // 8:
            agg.bad("rsa-signature-wrong-length", {"class": cls, "key": want["name"], "len": len(sig), "sig": sig})
            return False
    else:
        rs = _ecc_decode(agg, want, sig, scheme, cls)
        if rs is None:
            return False
    ctx.count("sign_verify")
    ref = _ref_verify(want, scheme, hname, data_in, prehashed, sig, rs)
    if ref is not None:
        ctx.count("ref_verify")
        if not ref:
            agg.bad(f"signature-rejected-by-reference/{want['type']}-{scheme}",
                    {"class": cls, "origin": origin, "key": _brief(want), "data": data_in, "sig": sig})
            good = False
    # SPSDK accepts its own signature (same parameters)
    if not kp.verify_signature(sig, data_in, **kw):
        mech = K_VERIFY_DER_RAWSIZE if (want["type"] == "ecc" and scheme == "der" and len(sig) == 2 * want["size"]) \
            else f"verify-rejects-own-signature/{want['type']}-{scheme}"
        agg.bad(mech, {"class": cls, "origin": origin, "key": _brief(want), "data": data_in, "sig": sig})
        good = False
    # the other ECDSA encoding of the same (r, s)
    if want["type"] == "ecc":
        size = want["size"]
        raw, der = recdsa.raw_encode_sig(rs[0], rs[1], size), recdsa.der_encode_sig(rs[0], rs[1])
        alt = der if scheme == "raw" else raw
        if not kp.verify_signature(alt, data_in, **kw):
            mech = K_VERIFY_DER_RAWSIZE if (scheme == "raw" and len(alt) == 2 * size) else "verify-rejects-reencoded-signature"
            agg.bad(mech, {"class": cls, "origin": origin, "key": _brief(want), "data": data_in, "sig": alt})
            good = False
        ctx.count("sig_convert")
        judge_conversion(agg, want["curve"], rs[0], rs[1], "signature:" + origin, via=("ECDSASignature", "serialize_signature"))
    # negatives
    nbits = len(data_in) * 8
    if want["type"] == "ecc" and prehashed:
        nbits = min(nbits, 8 * _order_bytes(want) if want["curve"] != "p521" else nbits)
    other_msg = _flip(data_in, rng.randrange(nbits)) if nbits else data_in + b"\x00"
    bad_sig = _flip(sig, rng.randrange(len(sig) * 8))
    for label, pub, sg, dt in (("mutated-message", kp, sig, other_msg), ("mutated-signature", kp, bad_sig, data_in),
                               ("other-key", other_pub, sig, data_in)):
        if prehashed and len(dt) != len(data_in):
            continue
        ctx.count("negatives")
        if _neg_accepts(ctx, pub, sg, dt, kw):
            agg.bad("verify-accepts-" + label, {"class": cls, "origin": origin, "key": _brief(want), "data": dt, "sig": sg})
            good = False
    if good:
        agg.ok("sign", origin, *cls, sample={"key": want["name"], "msg_len": len(data_in), "sig_len": len(sig)})
    return good


def battery_sign(ctx, agg, rng, k, kp, want, kcls, other_pub, param_sets):
    s = S()
    for hname, scheme, prehashed in param_sets:
        msg = core.rand_bytes(rng, core.pick(rng, MSG_LENS))
        data_in = _digest(hname, msg) if prehashed else msg
        kw = {"algorithm": _hash_enum(hname), "prehashed": prehashed}
        if want["type"] == "rsa":
            kw["pss_padding"] = scheme == "pss"
        else:
            kw["der_format"] = scheme == "der"
        try:
            sig = k.sign(data_in, **kw)
        except s.SPSDKError as e:
            agg.refused(["sign", kcls, hname, scheme], e)
            continue
        judge_signature(ctx, agg, rng, kp, want, kcls, other_pub, sig, data_in, hname, scheme, prehashed, "key.sign")
    # an unsupported digest must be refused
    try:
        k.sign(b"x", algorithm=s.Hash.NONE)
        agg.bad("sign-accepts-hash-none", {"key": want["name"]})
    except s.SPSDKError as e:
        agg.refused(["sign", kcls, "none"], e)


def all_param_sets(typ: str, exotic: bool):
    schemes = ("v15", "pss") if typ == "rsa" else ("raw", "der")
    return [(h, sc, pre) for h in HASHES + (EXOTIC if exotic else []) for sc in schemes for pre in (False, True)]


def default_hash(want: dict) -> str:
    return "sha256" if want["type"] == "rsa" else {"p256": "sha256", "p384": "sha384", "p521": "sha512"}[want["curve"]]


def battery_leading_zero_sigs(ctx, agg, rng, k, kp, want, kcls, other_pub, tries, per_class):
    """Signatures whose r / s (ECC) or whose integer (RSA) has a leading zero byte, found by re-signing."""
    hname = default_hash(want)
    if want["type"] == "ecc":
        size = want["size"]
        tgt = size - 1 if want["curve"] != "p521" else 64
        for scheme in ("raw", "der"):
            found = {"r": 0, "s": 0}
            for _ in range(tries):
                msg = core.rand_bytes(rng, 24)
                sig = k.sign(msg, der_format=scheme == "der")
                rs = _ecc_decode(agg, want, sig, scheme, [kcls, "leading-zero-search"])
                if rs is None:
                    break
                hits = [w for w, v in (("r", rs[0]), ("s", rs[1])) if _blen(v) <= tgt and found[w] < per_class]
                if not hits:
                    continue
                for w in hits:
                    found[w] += 1
                ctx.count("leading_zero_sigs")
                judge_signature(ctx, agg, rng, kp, want, kcls, other_pub, sig, msg, hname, scheme, False, "key.sign",
                                extra_cls=("leading-zero-" + "+".join(hits),))
                if all(v >= per_class for v in found.values()):
                    break
            if not all(found.values()):
                ctx.note("leading-zero-signature-not-found", [want["name"], scheme, found])
        return
    for scheme in ("v15", "pss"):
        for _ in range(tries):
            msg = core.rand_bytes(rng, 24)
            sig = k.sign(msg, pss_padding=scheme == "pss")
            if sig[:1] != b"\x00" and len(sig) == want["bits"] // 8:
                continue
            ctx.count("leading_zero_sigs")
            judge_signature(ctx, agg, rng, kp, want, kcls, other_pub, sig, msg, hname, scheme, False, "key.sign",
                            extra_cls=("leading-zero-signature",))
            break
        else:
            ctx.note("leading-zero-signature-not-found", [want["name"], scheme])


def _pss_dropped(want, data, sig, hname) -> bool:
    """The signature is a valid PKCS#1 v1.5 signature and not a PSS one (by the reference verifiers)."""
    return (len(sig) == want["bits"] // 8 and not rrsa.verify_pss(want["n"], want["e"], data, sig, hname)
            and rrsa.verify_pkcs1v15(want["n"], want["e"], data, sig, hname))


def battery_provider(ctx, agg, rng, k, kp, want, kcls, other_pub):
    """PlainFileSP / get_signature_provider: key loading (+password), get_signature in every encoding, key pairing."""
    s = S()
    os.makedirs(ctx.workdir, exist_ok=True)
    exp_len = want["bits"] // 8 if want["type"] == "rsa" else 2 * want["size"]
    enc_name = core.pick(rng, ["PEM", "DER"])
    pw = core.pick(rng, [None, "secret123", "pass word with  spaces"])
    # half of the cases (re)write ONE key file name: the key in a file may change between two providers of one process
    # (key rotation, a sweep over one temporary name); a provider must sign with what the file holds when it is created
    path = os.path.join(ctx.workdir, "sp_rotated.key" if rng.random() < 0.5 else f"sp_{ctx.case_index}.key")
    k.save(path, pw, s.ENC[enc_name])
    hname = core.pick(rng, [None] + HASHES)
    pss = want["type"] == "rsa" and rng.random() < 0.5
    der_kw = want["type"] == "ecc" and rng.random() < 0.4
    extra = {"hash_alg": _hash_enum(hname)} if hname else {}
    if want["type"] == "rsa":
        extra["pss_padding"] = pss
    if der_kw:
        extra["der_format"] = True
    makers = [("PlainFileSP", lambda: s.sp.PlainFileSP(path, password=pw, **extra)),
              ("local_file_key", lambda: s.sp.get_signature_provider(local_file_key=path, password=pw, **extra))]
    cfg = f"type=file;file_path={path}" + (f";password={pw}" if pw else "")
    makers.append(("sp_cfg", lambda: s.sp.get_signature_provider(sp_cfg=cfg, **extra)))
    if pw:
        # the password typed at the prompt instead of being passed (the standard library's getpass answers for the user)
        def prompted():
            import getpass

            real = getpass.getpass
            getpass.getpass = lambda *a, **k: pw
            try:
                return s.sp.get_signature_provider(local_file_key=path, **extra)
            finally:
                getpass.getpass = real
        makers.append(("prompt", prompted))
    eff_hash = hname or default_hash(want)
    for how, make in makers:
        cls = [kcls, how, enc_name, "pw" if pw else "nopw", "pss" if pss else ("der-signer" if der_kw else "plain")]
        prov = make()
        ctx.count("priv_roundtrip")
        if not _same(priv_numbers(prov.private_key), want, PRIV_FIELDS):
            agg.bad("provider-loaded-wrong-key", {"class": cls, "key": want["name"]})
            continue
        if prov.signature_length != exp_len:
            agg.bad("provider-signature-length", {"class": cls, "got": prov.signature_length, "want": exp_len})
        ctx.count("negatives")
        if prov.verify_public_key(kp) is not True or prov.verify_public_key(other_pub) is not False:
            agg.bad("provider-verify_public_key-wrong", {"class": cls, "key": want["name"]})
        for e in ("PEM", "DER", "NXP"):
            try:
                prov.try_to_verify_public_key(kp.export(s.ENC[e]))
            except s.SPSDKError as ex:
                agg.bad("provider-rejects-own-public-key-bytes", {"class": cls, "encoding": e, "error": core.exc_brief(ex)})
            try:
                prov.try_to_verify_public_key(other_pub.export(s.ENC[e]))
                agg.bad("provider-accepts-other-public-key-bytes", {"class": cls, "encoding": e})
            except s.SPSDKError:
                pass
        for out_enc in (None, "NXP", "DER"):
            data = core.rand_bytes(rng, core.pick(rng, MSG_LENS))
            sig = prov.get_signature(data, s.ENC[out_enc] if out_enc else None)
            scheme = ("pss" if pss else "v15") if want["type"] == "rsa" else ("der" if out_enc == "DER" else "raw")
            if pss and how == "sp_cfg" and _pss_dropped(want, data, sig, eff_hash):
                agg.bad(K_SP_DROPS_PSS, {"class": cls, "key": want["name"], "call": "get_signature_provider(sp_cfg='type=file;...', pss_padding=True)",
                                         "observed": "PKCS#1 v1.5 signature although pss_padding=True was passed"})
                continue
            judge_signature(ctx, agg, rng, kp, want, kcls, other_pub, sig, data, eff_hash, scheme, False,
                            "get_signature/" + how, extra_cls=(str(out_enc), "der-signer" if der_kw else ""))
        # the same provider object set to another hash algorithm: the next signature is made with THAT algorithm
        if hasattr(type(prov), "hash_alg") and not (pss and how == "sp_cfg"):
            h2 = core.pick(rng, [h for h in ("sha256", "sha384", "sha512") if h != eff_hash])
            prov.hash_alg = _hash_enum(h2)
            data = core.rand_bytes(rng, core.pick(rng, MSG_LENS))
            sig = prov.get_signature(data)
            ctx.count("provider_hash_reassigned")
            judge_signature(ctx, agg, rng, kp, want, kcls, other_pub, sig, data, h2,
                            ("pss" if pss else "v15") if want["type"] == "rsa" else "raw", False,
                            "get_signature-after-hash_alg-reassigned/" + how, extra_cls=("None", "der-signer" if der_kw else ""))
    os.remove(path)


# ------------------------------------------------------------------- raw <-> DER conversion ---
def judge_conversion(agg, curve: str, r: int, sv: int, origin: str, via=("ECDSASignature", "serialize_signature", "get_signature")):
    """(r, s) of `curve` through the converters.  Oracle: reference encodings; refusal (SPSDKError) is tolerated."""
    s = S()
    size = recdsa.CURVES[curve].size
    raw, der = recdsa.raw_encode_sig(r, sv, size), recdsa.der_encode_sig(r, sv)
    E, cv = s.keys.ECDSASignature, s.curve[curve]
    NXP, DER = s.Enc.NXP, s.Enc.DER
    wit = {"class": [origin, curve, f"der_len={len(der)}"], "curve": curve, "r": hex(r), "s": hex(sv), "der": der}
    if "ECDSASignature" in via:
        obj = E(r, sv, cv)
        if obj.export(NXP) != raw:
            agg.bad("ecdsa-export-nxp-wrong", dict(wit, got=obj.export(NXP)))
        elif obj.export(DER) != der:
            agg.bad("ecdsa-export-der-wrong", dict(wit, got=obj.export(DER)))
        else:
            agg.ok("convert", "numbers->raw,DER", curve, origin)
        try:
            p = E.parse(raw)
        except s.SPSDKError as e:
            agg.refused(["convert", "raw-parse", curve, origin], e)
        else:
            if (p.r, p.s) != (r, sv):
                agg.bad("ecdsa-raw-parse-wrong-rs", dict(wit, got=[hex(p.r), hex(p.s)]))
            elif p.ecc_curve != cv:
                agg.bad("ecdsa-raw-parse-wrong-curve", dict(wit, got=p.ecc_curve.value))
            elif p.export(DER) != der or p.export(NXP) != raw:
                agg.bad("ecdsa-raw-reexport-wrong", wit)
            else:
                agg.ok("convert", "raw->DER", curve, origin, sample={"r_len": _blen(r), "s_len": _blen(sv), "der_len": len(der)})
        # DER signatures in which r and s together lose up to five leading bytes (total length 2*size+3 .. 2*size+8)
        # are what signing really produces; they are inside the length window the converter supports and MUST convert.
        # Shorter encodings are refused by the length heuristic (counted, part of the recorded DER findings).
        in_window = 2 * size + 3 <= len(der) <= 2 * size + 8 and len(der) // 2 not in RAW_SIZES
        try:
            p = E.parse(der)
        except s.SPSDKError as e:
            if in_window:
                agg.bad("ecdsa-der-refused-inside-the-supported-length-window", dict(wit, where="ECDSASignature.parse", refusal=str(e)[:160]))
            else:
                agg.refused(["convert", "DER-parse", curve, origin], e)
        else:
            if (p.r, p.s) != (r, sv):
                # the only modelled mechanism: the blob's length equals a raw signature length, so it is split in halves
                mech = KF_DER_LENGTH if len(der) // 2 in RAW_SIZES else "ecdsa-der-parse-wrong-rs"
                agg.bad(mech, dict(wit, where="ECDSASignature.parse", got=[hex(p.r), hex(p.s)], got_curve=p.ecc_curve.value))
            elif p.ecc_curve != cv:
                agg.bad(K_DER_CURVE, dict(wit, where="ECDSASignature.parse", got_curve=p.ecc_curve.value))
            elif p.export(NXP) != raw or p.export(DER) != der:
                agg.bad("ecdsa-der-reexport-wrong", wit)
            else:
                agg.ok("convert", "DER->raw", curve, origin, sample={"r_len": _blen(r), "s_len": _blen(sv), "der_len": len(der)})
    if "serialize_signature" in via:
        out = s.keys.KeyEccCommon.serialize_signature(der, size)
        if out != raw:
            agg.bad("serialize_signature-wrong", dict(wit, got=out))
        else:
            agg.ok("convert", "serialize_signature", curve, origin)
    if "get_signature" in via:
        for blob_name, blob in (("raw", raw), ("DER", der)):
            for out_enc in (None, "NXP", "DER"):
                expected = der if out_enc == "DER" else raw
                prov = s.StubSP(blob, 2 * size)
                try:
                    out = prov.get_signature(b"", s.ENC[out_enc] if out_enc else None)
                except OverflowError:
                    if blob_name != "DER":
                        raise
                    # parse guessed a smaller curve from the DER length, export at that width overflows
                    agg.bad(K_DER_CURVE, dict(wit, where="SignatureProvider.get_signature", outcome="OverflowError"))
                    continue
                if out == expected:
                    agg.ok("convert", f"get_signature {blob_name}->{out_enc}", curve, origin)
                elif out == blob:
                    if blob_name == "DER" and 2 * size + 3 <= len(der) <= 2 * size + 8 and len(der) // 2 not in RAW_SIZES:
                        agg.bad("get_signature-der-inside-the-supported-window-passed-through-unconverted",
                                dict(wit, where="SignatureProvider.get_signature", out_enc=str(out_enc), got_len=len(out)))
                    else:
                        agg.refused(["convert", f"get_signature {blob_name}->{out_enc} passed through unconverted", curve, origin], "")
                elif blob_name == "DER" and len(der) // 2 in RAW_SIZES:
                    agg.bad(KF_DER_LENGTH, dict(wit, where="SignatureProvider.get_signature", out_enc=str(out_enc), got=out))
                elif blob_name == "DER" and out_enc != "DER" and len(out) // 2 in RAW_SIZES and len(out) != 2 * size \
                        and recdsa.raw_decode_sig(out, len(out) // 2) == (r, sv):
                    agg.bad(K_DER_CURVE, dict(wit, where="SignatureProvider.get_signature", out_enc=str(out_enc), got_len=len(out)))
                else:
                    agg.bad("get_signature-wrong-output", dict(wit, blob=blob_name, out_enc=str(out_enc), got=out))


def value_of_length(rng, n: int, nbytes: int, top: bool) -> int:
    """A value in [1, n-1] whose big-endian form has exactly nbytes bytes, top bit of the top byte set / clear."""
    lo, hi = 1 << (8 * (nbytes - 1)), min(1 << (8 * nbytes), n)
    if nbytes == 1:
        lo = 1
    top_bit = 1 << (8 * nbytes - 1)
    if top and top_bit < hi:
        lo = max(lo, top_bit)
    elif not top:
        hi = min(hi, top_bit)
    if lo >= hi:  # the class does not exist for this order (P-521: 66 bytes means top byte 0x01)
        lo, hi = 1 << (8 * (nbytes - 1)), min(1 << (8 * nbytes), n)
    return rng.randrange(lo, hi)


def battery_grid(ctx, agg, rng, curve: str, lr_lo: int, lr_hi: int, variants: int):
    c = recdsa.CURVES[curve]
    for lr in range(lr_lo, lr_hi):
        for ls in range(1, c.size + 1):
            for v in range(variants):
                r = value_of_length(rng, c.n, lr, bool(v & 1))
                sv = value_of_length(rng, c.n, ls, bool(v & 2))
                ctx.count("sig_convert")
                judge_conversion(agg, curve, r, sv, "grid")
    for r, sv in ((1, 1), (c.n - 1, c.n - 1), (1, c.n - 1), (c.n - 1, 1)):
        ctx.count("sig_convert")
        judge_conversion(agg, curve, r, sv, "grid-extremes")


def recover_public(curve: str, r: int, sv: int, digest: bytes):
    """The public key under which (r, s) is a valid signature of `digest` (None when r is not an x coordinate)."""
    c = recdsa.CURVES[curve]
    p = c.p
    rhs = (r * r * r + c.a * r + c.b) % p
    y = pow(rhs, (p + 1) // 4, p)  # p = 3 (mod 4) for the three NIST primes
    if y * y % p != rhs:
        return None
    z = int.from_bytes(digest, "big")
    excess = 8 * len(digest) - c.n.bit_length()
    if excess > 0:
        z >>= excess
    rinv = pow(r, -1, c.n)
    return recdsa.point_add(c, recdsa.point_mul(c, sv * rinv % c.n, (r, y)), recdsa.point_mul(c, (-z * rinv) % c.n, c.g))


def battery_recovered(ctx, agg, rng, curve: str, lr: int, ls: int, other_pub, pick_value=None, origin="recovered-key"):
    """verify_signature on a *valid* signature with chosen byte lengths of r and s."""
    s = S()
    c = recdsa.CURVES[curve]
    hname = {"p256": "sha256", "p384": "sha384", "p521": "sha512"}[curve]
    msg = b"vf c08 witness message" if pick_value else core.rand_bytes(rng, 40)
    digest = _digest(hname, msg)
    for attempt in range(200):
        r = pick_value("r", lr, attempt) if pick_value else value_of_length(rng, c.n, lr, bool(rng.getrandbits(1)))
        sv = pick_value("s", ls, attempt) if pick_value else value_of_length(rng, c.n, ls, bool(rng.getrandbits(1)))
        q = recover_public(curve, r, sv, digest)
        if q is not None:
            break
    else:
        raise core.Inconclusive("no recoverable key")
    if not recdsa.verify_digest(c, q, digest, r, sv):
        raise core.Inconclusive("key recovery construction is wrong")
    want = {"type": "ecc", "curve": curve, "x": q[0], "y": q[1], "size": c.size, "kind": curve, "name": f"recovered-{curve}-{lr}-{ls}"}
    pub = s.keys.PublicKeyEcc.recreate(q[0], q[1], s.curve[curve])
    for scheme, sig in (("raw", recdsa.raw_encode_sig(r, sv, c.size)), ("der", recdsa.der_encode_sig(r, sv))):
        judge_signature(ctx, agg, rng, pub, want, "recovered-" + curve, other_pub, sig, msg, hname, scheme, False, origin,
                        extra_cls=(f"r{lr}", f"s{ls}"))


def battery_raw_that_is_der(ctx, agg, rng, curve: str, other_pub):
    """A VALID raw r||s signature whose bytes happen to be a well-formed DER signature as well (the mirror image of
    the DER-of-raw-length case): it must verify.  r||s := DER(r', s') with a DER length of exactly 2 x coordinate size."""
    s = S()
    c = recdsa.CURVES[curve]
    if curve not in ("p256", "p384"):
        return  # on P-521 the first raw byte would have to be 0x30 > 0x01: r would exceed the group order
    lr, ls = WITNESS_DER_LEN[curve]
    hname = {"p256": "sha256", "p384": "sha384"}[curve]
    msg = b"vf c08 witness message (raw that is DER)"
    digest = _digest(hname, msg)
    for attempt in range(400):
        raw = recdsa.der_encode_sig(_det_value(curve + "rd-r", lr, attempt), _det_value(curve + "rd-s", ls, attempt))
        if len(raw) != 2 * c.size:
            continue
        r, sv = int.from_bytes(raw[: c.size], "big"), int.from_bytes(raw[c.size:], "big")
        if not (0 < r < c.n and 0 < sv < c.n):
            continue
        q = recover_public(curve, r, sv, digest)
        if q is not None:
            break
    else:
        raise core.Inconclusive("no recoverable key for the raw-that-is-DER witness")
    if not recdsa.verify_digest(c, q, digest, r, sv):
        raise core.Inconclusive("key recovery construction is wrong")
    want = {"type": "ecc", "curve": curve, "x": q[0], "y": q[1], "size": c.size, "kind": curve, "name": f"recovered-{curve}-raw-is-der"}
    pub = s.keys.PublicKeyEcc.recreate(q[0], q[1], s.curve[curve])
    judge_signature(ctx, agg, rng, pub, want, "recovered-" + curve, other_pub, raw, msg, hname, "raw", False,
                    "witness-valid-raw-signature-that-is-also-well-formed-der", extra_cls=("raw-is-der",))


def _det_value(tag: str, nbytes: int, attempt: int = 0) -> int:
    """Deterministic value of exactly nbytes bytes with the top bit clear (no rng: the witness never moves)."""
    v = int.from_bytes(hashlib.shake_256(f"c08 witness {tag} {attempt}".encode()).digest(nbytes), "big")
    v &= (1 << (8 * nbytes - 1)) - 1
    return v | (1 << (8 * nbytes - 2))


# DER length == raw length: 2+2+29+2+29 = 64, 2+2+45+2+45 = 96, 3+2+63+2+62 = 132
WITNESS_DER_LEN = {"p256": (29, 29), "p384": (45, 45), "p521": (63, 62)}
# DER length inside the window of a smaller curve: P-384 (31, 33) -> 70 bytes (P-256 window 67..72);
# P-521 (47, 47) -> 100 bytes (P-384 window 99..104)
WITNESS_DER_CURVE = {"p384": (31, 33), "p521": (47, 47)}


def battery_witness(ctx, agg, rng):
    for curve, (lr, ls) in WITNESS_DER_LEN.items():
        ctx.count("sig_convert")
        judge_conversion(agg, curve, _det_value(curve + "r", lr), _det_value(curve + "s", ls), "witness-der-length-equals-raw-length")
    for curve, (lr, ls) in WITNESS_DER_CURVE.items():
        ctx.count("sig_convert")
        judge_conversion(agg, curve, _det_value(curve + "r", lr), _det_value(curve + "s", ls), "witness-der-length-in-other-curve-window")
    # one byte longer than a raw signature: read as raw, then refused by the curve lookup (observation: must not be wrong)
    for curve, (lr, ls) in (("p256", (29, 30)), ("p384", (45, 46)), ("p521", (63, 63))):
        ctx.count("sig_convert")
        judge_conversion(agg, curve, _det_value(curve + "r", lr), _det_value(curve + "s", ls), "witness-der-length-raw-plus-one")
    # a configuration-string file provider asked for RSA-PSS (what AHAB signing and `nxpcrypto signature create -sp ... -pp` do)
    want = want_of_pool("rsa2048_0")
    prov = S().sp.get_signature_provider(sp_cfg="type=file;file_path=" + pki.path("rsa2048_0", "priv", "pem"), pss_padding=True)
    data = b"vf c08 witness message"
    sig = prov.get_signature(data)
    if _pss_dropped(want, data, sig, "sha256"):
        agg.bad(K_SP_DROPS_PSS, {"class": ["witness", "sp_cfg", "pss"], "key": "rsa2048_0",
                                 "call": "get_signature_provider(sp_cfg='type=file;file_path=<rsa2048_0.pem>', pss_padding=True).get_signature(data)",
                                 "observed": "valid PKCS#1 v1.5 signature, not PSS", "data": data, "sig": sig})
    else:
        judge_signature(ctx, agg, rng, build_private(want).get_public_key(), want, "pool-rsa2048", build_private(want_of_pool("rsa2048_1")).get_public_key(),
                        sig, data, "sha256", "pss", False, "witness get_signature/sp_cfg")
    other = build_private(want_of_pool("p256_0")).get_public_key()
    lr, ls = WITNESS_DER_LEN["p256"]
    battery_recovered(ctx, agg, rng, "p256", lr, ls, other, pick_value=lambda w, n, a: _det_value("p256v" + w, n, a),
                      origin="witness-valid-signature-der-length-equals-raw-length")
    battery_raw_that_is_der(ctx, agg, rng, "p256", other)
    battery_raw_that_is_der(ctx, agg, rng, "p384", build_private(want_of_pool("p384_0")).get_public_key())


# --------------------------------------------------------------------------------------- CLI ---
_CLI = {}


def cli(args):
    """Run `nxpcrypto <args>` in process; -> ('ok' | 'refused' | 'crash', result)."""
    if not _CLI:
        from click.testing import CliRunner

        import spsdk.apps.nxpcrypto as nx

        _CLI["runner"], _CLI["main"] = CliRunner(), nx.main
    res = _CLI["runner"].invoke(_CLI["main"], [str(a) for a in args], catch_exceptions=True)
    exc = res.exception
    if res.exit_code == 0 and exc is None:
        return "ok", res
    if exc is None or isinstance(exc, (S().SPSDKError, SystemExit)):
        return "refused", res
    return "crash", res


def _read(path):
    with open(path, "rb") as f:
        return f.read()


def battery_cli_convert(ctx, agg, rng, k, kp, want, kcls):
    s = S()
    wd = os.path.join(ctx.workdir, f"cli{ctx.case_index}")
    os.makedirs(wd, exist_ok=True)
    cnt = [0]

    def out_path(tag):
        cnt[0] += 1
        return os.path.join(wd, f"{cnt[0]}_{tag}")

    def brief(res):
        return {"exit": res.exit_code, "exception": core.exc_brief(res.exception) if res.exception else None, "output": res.output[-200:]}

    src_enc = core.pick(rng, ["PEM", "DER"])
    src = out_path("src.key")
    k.save(src, None, s.ENC[src_enc])
    pub_src = out_path("src.pub")
    kp.save(pub_src, s.ENC[core.pick(rng, ["PEM", "DER", "NXP"])])

    def judge_file(path, enc_name, private, cls):
        ctx.count("export_decoded")
        try:
            ind = indep_private(_read(path), enc_name, None)[0] if private else indep_public(_read(path), enc_name, want)
        except ValueError as e:
            agg.bad("cli-key-convert-output-undecodable", {"class": cls, "key": want["name"], "reason": str(e)})
            return False
        if not _same(ind, want, PRIV_FIELDS if private else PUB_FIELDS):
            agg.bad("cli-key-convert-wrong-numbers", {"class": cls, "key": want["name"], "decoded": _brief(ind)})
            return False
        return True

    for private, source in ((True, src), (False, src), (False, pub_src)):
        for enc_name in ("PEM", "DER"):
            cls = [kcls, "private" if private else ("public-from-private" if source == src else "public"), enc_name]
            ctx.count("cli")
            out = out_path(f"{enc_name}.out")
            st, res = cli(["key", "convert", "-e", enc_name, "-i", source, "-o", out] + (["-p"] if not private and source == src else []))
            if st != "ok":
                if st == "crash":
                    agg.bad("cli-key-convert-crash", {"class": cls, "key": want["name"], **brief(res)})
                else:
                    agg.bad("cli-key-convert-refused", {"class": cls, "key": want["name"], **brief(res)})
                continue
            if not judge_file(out, enc_name, private, cls):
                continue
            # and back through the other encoding
            back_enc = "DER" if enc_name == "PEM" else "PEM"
            out2 = out_path(f"{back_enc}.back")
            ctx.count("cli")
            st, res = cli(["key", "convert", "-e", back_enc, "-i", out, "-o", out2])
            if st != "ok":
                agg.bad("cli-key-convert-own-output-" + st, {"class": cls, "key": want["name"], **brief(res)})
            elif judge_file(out2, back_enc, private, cls + ["->" + back_enc]):
                ctx.count("priv_roundtrip" if private else "pub_roundtrip")
                agg.ok("cli", "key convert", *cls, "->" + back_enc)
    # RAW
    for private in (True, False):
        cls = [kcls, "private" if private else "public", "RAW"]
        ctx.count("cli")
        out = out_path("raw.out")
        st, res = cli(["key", "convert", "-e", "RAW", "-i", src, "-o", out] + ([] if private else ["-p"]))
        if want["type"] == "rsa":
            if st == "refused":
                agg.refused(["cli", "key convert RAW", kcls], "RSA")
            else:
                agg.bad("cli-key-convert-raw-rsa-" + st, {"class": cls, **brief(res)})
            continue
        size = want["size"]
        expected = want["d"].to_bytes(size, "big") if private else nxp_public_bytes(want)
        p521 = want["curve"] == "p521"
        if st == "crash":
            mech = K_CLI_RAW_P521 if p521 and isinstance(res.exception, OverflowError) else "cli-key-convert-crash"
            agg.bad(mech, {"class": cls, "key": want["name"], "outcome": "OverflowError", **brief(res)})
            continue
        if st == "refused":
            agg.bad("cli-key-convert-refused", {"class": cls, "key": want["name"], **brief(res)})
            continue
        got = _read(out)
        if got != expected:
            floor_width = (65 if private else 130)
            mech = K_CLI_RAW_P521 if p521 and len(got) == floor_width and int.from_bytes(got[:65], "big") == (want["d"] if private else want["x"]) \
                else "cli-key-convert-raw-wrong-bytes"
            agg.bad(mech, {"class": cls, "key": want["name"], "outcome": "wrong width", "got_len": len(got), "want_len": len(expected)})
            continue
        agg.ok("cli", "key convert", *cls)
        back = out_path("raw.back.pem")
        ctx.count("cli")
        st, res = cli(["key", "convert", "-e", "PEM", "-i", out, "-o", back])
        if st == "ok":
            if judge_file(back, "PEM", private, cls + ["->PEM"]):
                ctx.count("priv_roundtrip" if private else "pub_roundtrip")
                agg.ok("cli", "key convert", *cls, "->PEM")
        elif st == "refused" and p521 and private:
            agg.bad("cli-key-convert-raw-p521-private-not-readable", {"class": cls, "key": want["name"], **brief(res)})
        else:
            agg.bad("cli-key-convert-own-output-" + st, {"class": cls, "key": want["name"], **brief(res)})
    # key verify
    other = other_pool_key(want, rng)
    other_pub = out_path("other.pub")
    build_private(other).get_public_key().save(other_pub, s.Enc.PEM)
    pairs = [(src, pub_src, True), (pub_src, src, True), (src, other_pub, False), (pub_src, other_pub, False)]
    if not want["name"].startswith("edge-"):
        pairs.append((src, pki.path(want["name"], "cert", core.pick(rng, ["pem", "der"])), True))
        pairs.append((pki.path(other["name"], "cert", "der"), pub_src, False))
    for a, b, match in pairs:
        ctx.count("cli")
        ctx.count("negatives")
        st, res = cli(["key", "verify", "-k1", a, "-k2", b])
        said = st == "ok" and "Keys match" in res.output
        if st == "crash":
            agg.bad("cli-key-verify-crash", {"key": want["name"], **brief(res)})
        elif said != match:
            agg.bad("cli-key-verify-wrong-answer", {"key": want["name"], "expected_match": match, **brief(res)})
        else:
            agg.ok("cli", "key verify", kcls, "match" if match else "mismatch")


def _regions_cut(data: bytes, regions) -> bytes:
    out = b""
    for a, b in regions:
        out += data[slice(a, b)]
    return out if regions else data


def battery_cli_signature(ctx, agg, rng, k, kp, want, kcls, other_pub):
    s = S()
    wd = os.path.join(ctx.workdir, f"clis{ctx.case_index}")
    os.makedirs(wd, exist_ok=True)
    pw = core.pick(rng, [None, "secret123"])
    keyfile = os.path.join(wd, "key")
    k.save(keyfile, pw, s.ENC[core.pick(rng, ["PEM", "DER"])])
    pubfile = os.path.join(wd, "pub")
    kp.save(pubfile, s.ENC[core.pick(rng, ["PEM", "DER", "NXP"])])
    otherfile = os.path.join(wd, "other")
    other_pub.save(otherfile, s.Enc.PEM)
    n = 0
    for signer in ("-k", "-sp"):
        for out_enc in (None, "DER", "NXP"):
            n += 1
            alg = core.pick(rng, [None] + HASHES)
            pss = want["type"] == "rsa" and rng.random() < 0.5
            msg = core.rand_bytes(rng, core.pick(rng, [0, 1, 40, 64, 1000]))
            regions = [(None, 16), (-8, None)] if len(msg) >= 40 and rng.random() < 0.4 else []
            msgfile = _write(os.path.join(wd, f"msg{n}"), msg)
            sigfile = os.path.join(wd, f"sig{n}")
            args = ["signature", "create", "-i", msgfile, "-o", sigfile]
            if signer == "-k":
                args += ["-k", keyfile] + (["-p", pw] if pw else [])
            else:
                args += ["-sp", f"type=file;file_path={keyfile}" + (f";password={pw}" if pw else "")]
            args += (["-a", alg] if alg else []) + (["-e", out_enc] if out_enc else []) + (["-pp"] if pss else [])
            rargs = []
            for a, b in regions:
                rargs += ["-r", f"[{'' if a is None else a}:{'' if b is None else b}]"]
            cls = [kcls, signer, str(out_enc), "pss" if pss else "", "regions" if regions else ""]
            ctx.count("cli")
            st, res = cli(args + rargs)
            if st != "ok":
                agg.bad("cli-signature-create-" + st, {"class": cls, "key": want["name"], "exception": core.exc_brief(res.exception) if res.exception else None,
                                                       "output": res.output[-200:]})
                continue
            sig = _read(sigfile)
            data = _regions_cut(msg, regions)
            hname = alg or default_hash(want)
            scheme = ("pss" if pss else "v15") if want["type"] == "rsa" else ("raw" if out_enc == "NXP" else "der")
            if pss and signer == "-sp" and _pss_dropped(want, data, sig, hname):
                agg.bad(K_SP_DROPS_PSS, {"class": cls, "key": want["name"], "args": args[:2] + ["..."] + args[-3:],
                                                         "observed": "PKCS#1 v1.5 signature although -pp was given"})
                continue
            if not judge_signature(ctx, agg, rng, kp, want, kcls, other_pub, sig, data, hname, scheme, False, "cli signature create", extra_cls=tuple(cls[1:])):
                continue
            vargs = (["-a", alg] if alg else []) + (["-pp"] if pss else []) + rargs
            badmsg = _write(os.path.join(wd, f"badmsg{n}"), _flip(msg, rng.randrange(8 * min(len(msg), 16))) if msg else b"\x00")
            badsig = _write(os.path.join(wd, f"badsig{n}"), _flip(sig, rng.randrange(8 * len(sig))))
            for label, pub_f, msg_f, sig_f, expect in (("own", pubfile, msgfile, sigfile, True), ("mutated-message", pubfile, badmsg, sigfile, False),
                                                       ("mutated-signature", pubfile, msgfile, badsig, False), ("other-key", otherfile, msgfile, sigfile, False)):
                ctx.count("cli")
                ctx.count("negatives")
                st, res = cli(["signature", "verify", "-k", pub_f, "-i", msg_f, "-s", sig_f] + vargs)
                if st == "crash":
                    if expect:
                        agg.bad("cli-signature-verify-crash", {"class": cls, "exception": core.exc_brief(res.exception)})
                    else:
                        ctx.note("cli-signature-verify-non-spsdk-exception-on-mutated-input", core.exc_brief(res.exception))
                    continue
                said = st == "ok" and "IS matching" in res.output and "IS NOT" not in res.output
                if said != expect:
                    agg.bad("cli-signature-verify-" + ("rejects-own-signature" if expect else "accepts-" + label),
                            {"class": cls, "key": want["name"], "output": res.output[-200:]})
                else:
                    agg.ok("cli", "signature verify", kcls, label)


# ------------------------------------------------------------------------------------- cases ---
def selftest(ctx):
    return {"ecdsa": recdsa.selftest(), "rsa": rrsa.selftest(), "keyder": keyder.selftest(pki.DIR)}


def cases(tier, seed):
    th = tier == "thorough"
    out = []
    pool = [n for kind in pki.KINDS for n in pki.names(kind)]
    for rep in range(12 if th else 1):
        for n in pool:
            out.append({"kind": "ser", "key": n, "rep": rep})
    for rnd in range(80 if th else 4):
        for n in pool:
            out.append({"kind": "sig", "key": n, "round": rnd})
    for rep in range(10 if th else 1):
        for curve in ("p256", "p384", "p521"):
            for cls in ECC_EDGE:
                out.append({"kind": "edge", "kty": curve, "cls": cls, "rep": rep})
    rsa_edge = [(b, c) for b in (2048, 3072, 4096) for c in RSA_EDGE]
    for rep in range(3 if th else 1):
        for bits, cls in (rsa_edge if th else [(2048, "lz-d"), (2048, "lz-p"), (3072, "lz-d"), (4096, "lz-p")]):
            out.append({"kind": "edge", "kty": f"rsa{bits}", "cls": cls, "rep": rep})
    for rep in range(3 if th else 1):
        for n in (pool if th else [pki.names(kind)[i] for kind in pki.KINDS for i in (0, 1)]):
            out.append({"kind": "lzsig", "key": n, "rep": rep})
    for rep in range(4 if th else 1):
        for n in (pool if th else [pki.names(kind)[i] for kind in pki.KINDS for i in (0, 2)]):
            out.append({"kind": "sp", "key": n, "rep": rep})
    for curve, size in (("p256", 32), ("p384", 48), ("p521", 66)):
        step = 2 if th else 4
        for lo in range(1, size + 1, step):
            out.append({"kind": "grid", "curve": curve, "lr": [lo, min(lo + step, size + 1)], "variants": 16 if th else 4})
        for i in range(24 if th else 4):
            out.append({"kind": "recov", "curve": curve, "k": i, "n": 12})
    out.append({"kind": "witness"})
    for rep in range(3 if th else 1):
        for n in (pool if th else pki.names("p521") + [pki.names(kind)[0] for kind in pki.KINDS if kind != "p521"]):
            out.append({"kind": "cli_convert", "key": n, "rep": rep})
        for n in (pool if th else [pki.names(kind)[1] for kind in pki.KINDS]):
            out.append({"kind": "cli_sig", "key": n, "rep": rep})
    for curve in ("p256", "p384", "p521"):
        out.append({"kind": "cli_convert_edge", "kty": curve, "cls": "lz-x"})
        out.append({"kind": "cli_convert_edge", "kty": curve, "cls": "lz-d"})
    out.append({"kind": "unsupported"})
    # interleave so that the slow RSA-4096 cases do not pile up on one shard
    order = sorted(range(len(out)), key=lambda i: core.stable_hash(seed, i, out[i].get("kind")))
    return [out[i] for i in order]


def _edge_want(case, rng):
    if case["kty"].startswith("rsa"):
        return make_rsa_edge(rng, int(case["kty"][3:]), case["cls"])
    return make_ecc_edge(rng, case["kty"], case["cls"])


def run_case(case, ctx):  # noqa: C901
    s = S()
    rng = ctx.rng
    kind = case["kind"]
    agg = Agg(ctx)
    try:
        _run(case, ctx, s, rng, kind, agg)
    finally:
        agg.flush()


def _run(case, ctx, s, rng, kind, agg):  # noqa: C901
    if kind in ("ser", "sig", "lzsig", "sp", "cli_convert", "cli_sig"):
        want = want_of_pool(case["key"])
        kcls = "pool-" + want["kind"]
    elif kind in ("edge", "cli_convert_edge"):
        want = _edge_want(case, rng)
        kcls = f"edge-{case['kty']}-{case['cls']}"
        ctx.count("leading_zero_keys")
    else:
        want = None
    if want is not None:
        k = build_private(want)
        kp = k.get_public_key()
        if not _same(priv_numbers(k), want, PRIV_FIELDS):
            agg.bad("key-construction-wrong-numbers", {"key": want["name"], "got": _brief(priv_numbers(k)), "want": _brief(want)})
            return
        other_pub = build_private(other_pool_key(want, rng)).get_public_key()

    if kind == "ser":
        battery_private(ctx, agg, rng, k, want, kcls, budget=3 if want["type"] == "rsa" else None)
        battery_public(ctx, agg, rng, kp, want, kcls)
        battery_certificate(ctx, agg, rng, k, kp, want, kcls)
        battery_pairing(ctx, agg, rng, k, kp, want, kcls)
    elif kind == "sig":
        battery_sign(ctx, agg, rng, k, kp, want, kcls, other_pub, all_param_sets(want["type"], exotic=case["round"] % 4 == 3))
    elif kind == "edge":
        battery_private(ctx, agg, rng, k, want, kcls, budget=3 if want["type"] == "rsa" else 6)
        battery_public(ctx, agg, rng, kp, want, kcls)
        battery_certificate(ctx, agg, rng, k, kp, want, kcls)
        battery_pairing(ctx, agg, rng, k, kp, want, kcls)
        battery_sign(ctx, agg, rng, k, kp, want, kcls, other_pub, all_param_sets(want["type"], exotic=False))
        if want["type"] == "ecc" or want["bits"] == 2048:
            battery_leading_zero_sigs(ctx, agg, rng, k, kp, want, kcls, other_pub, tries=3000, per_class=1)
        battery_provider(ctx, agg, rng, k, kp, want, kcls, other_pub)
    elif kind == "lzsig":
        battery_leading_zero_sigs(ctx, agg, rng, k, kp, want, kcls, other_pub, tries=4000, per_class=2)
    elif kind == "sp":
        battery_provider(ctx, agg, rng, k, kp, want, kcls, other_pub)
    elif kind == "grid":
        battery_grid(ctx, agg, rng, case["curve"], case["lr"][0], case["lr"][1], case["variants"])
    elif kind == "recov":
        c = recdsa.CURVES[case["curve"]]
        other = build_private(want_of_pool(pki.names(case["curve"])[0])).get_public_key()
        for _ in range(case["n"]):
            lr, ls = rng.randrange(1, c.size + 1), rng.randrange(1, c.size + 1)
            if rng.random() < 0.3:  # lean towards the interesting total lengths
                lr = c.size - rng.randrange(0, 6)
                ls = c.size - rng.randrange(0, 6)
            battery_recovered(ctx, agg, rng, case["curve"], lr, ls, other)
    elif kind == "witness":
        battery_witness(ctx, agg, rng)
    elif kind in ("cli_convert", "cli_convert_edge"):
        battery_cli_convert(ctx, agg, rng, k, kp, want, kcls)
    elif kind == "cli_sig":
        battery_cli_signature(ctx, agg, rng, k, kp, want, kcls, other_pub)
    elif kind == "unsupported":
        gens = s.keys.get_supported_keys_generators()
        for name in ("sm2", "dil2", "mldsa44"):
            if name in gens:
                ctx.note("unexpectedly-constructible", name)
            else:
                agg.refused(["unsupported-key-type", name], "not offered by get_supported_keys_generators (backend not installed)")
        try:
            s.keys.PrivateKey.parse(pki.data("p256_0", "priv", "pem"), password="abc")
        except s.SPSDKError:
            pass
        except TypeError as e:
            ctx.note("password-given-for-unencrypted-key (not judged)", core.exc_brief(e))
    else:
        raise core.Inconclusive(f"unknown case kind {kind}")
