"""C11 - registers and bit-fields behave as independent bit-vectors.

Runtime monitoring: random operation sequences are applied to the *real* ``Registers`` /
``FuseRegisters`` objects (synthetic layouts loaded through the real ``_load_from_spec`` and every
distinct register specification of the device database) and, step by step, to the bit-vector
reference model ``vf.refs.bitvec``.  After EVERY operation all registers, sub-registers and
bit-fields are read back through the public API and compared with the model (neighbour
disturbance), the structure digest must be unchanged, the M-REG wrappers installed on the real
classes check ``0 <= value < 2**width`` and "read-only queries change nothing", and every call
into the tree runs under a deterministic step budget (``sys.monitoring`` JUMP events).
"""
from __future__ import annotations

import json
import os
import sys
import traceback

from vf import core
from vf.refs import bitvec

ID = "C11"
LEVEL = "exploration"
TECHNIQUE = "runtime monitoring: step-wise differential oracle (bit-vector model) + invariant hooks on the real classes + deterministic step budget"
RULE = (
    "sequences of 1..40 operations {bit-field set by int/dec/hex/bin string, enum name, RAW:, whole-register set (raw / logical), "
    "reset, parse, export, parse(export) and config round trips into a fresh object, get_config(diff), load_yml_config, "
    "find/get/names/list queries with every flag combination, get_validation_schema, str/repr} with values "
    "0, 1, 2^w-1, 2^w, 2^w+1, -1, 2^600, random, on (a) synthetic layouts loaded through the real _load_from_spec "
    "(widths 8..512, bit-fields partitioning the register at random offsets/widths, enums, SHIFT_RIGHT processors, groups with "
    "normal/reversed sub-register order, reversed registers, alternative widths, both byte orders, Registers and FuseRegisters) and "
    "(b) every distinct (register-spec file, group list) of the database under test. A signature is "
    "(layout class or spec file, feature set, byte order, register class); non-trivial = at least one operation was executed "
    "and every value of the file was read back and compared."
)
ASSUMPTIONS = [
    "SHIFT_RIGHT config processors drop the low COUNT bits of a written value by their own documented definition (not counted as truncation)",
    "reserved (hidden) registers are exported but deliberately not loaded by parse() and not touched by reset_values(); the model follows the documented 'hidden from standard searches'",
    "alternative widths together with reversed sub-register order has no defined meaning and is not generated",
    "layouts of the database that are ill-formed as data (overlapping registers, groups not covered by their sub-registers, duplicate names, "
    "bit-fields not covering the register) are driven, but only the clauses that stay meaningful are judged: no byte comparison of export for overlapping "
    "registers, no whole-register writes to incomplete groups; the model applies the same first-match / dict rules to duplicate names",
    "a string that is not a number may be refused with any exception type; only 'refused and nothing changed' is judged",
    "register access rights (RO/WO) are descriptive only and not judged",
    "Register.__eq__ is not part of the property",
    "values are ints and strings of the core number grammar (decimal, 0x, 0b, underscores, padding); other types are out of scope",
]
REQUIRED_COUNTERS = [
    "ops_judged", "values_compared", "m_reg_invariant", "m_reg_digest", "step_budget_armed", "parse_export_roundtrips",
    "config_roundtrips", "rejections_agreed", "real_layouts", "fuse_layouts", "queries_judged",
]
CASE_TIMEOUT_S = 900
WATCHDOG_S = {"quick": 1800, "thorough": 10800}
MAX_JOBS = 16

KNOWN_ALTWIDTH = "reversed-altwidth-length-class"
STEP_LIMIT = 2_000_000  # JUMP events per call into the tree; the largest legitimate call observed needs < 100 000 (evidence: max_steps_in_one_call)

_MON: dict = {"ctx": None, "tripped": None, "depth": 0, "installed": False, "op": None}


# ==================================================================================================
# deterministic step budget
# ==================================================================================================
class _Budget:
    tool = 3
    armed = False
    n = 0
    limit = STEP_LIMIT
    what = ""
    max_seen = 0
    installed = False


def _on_jump(code, _src, _dst):
    b = _Budget
    if not b.armed:
        if not code.co_filename.startswith(_REPO_PREFIX):
            return sys.monitoring.DISABLE
        return None
    if not code.co_filename.startswith(_REPO_PREFIX):
        return sys.monitoring.DISABLE
    b.n += 1
    if b.n > b.limit:
        raise core.StepBudgetExceeded(f"{b.what}: more than {b.limit} loop iterations in {os.path.basename(code.co_filename)}:{code.co_name}")
    return None


_REPO_PREFIX = core.repo_root() + os.sep


def install_step_budget() -> None:
    if _Budget.installed:
        return
    mon = sys.monitoring
    if mon.get_tool(_Budget.tool) is not None:
        raise core.Inconclusive("sys.monitoring tool id already in use")
    mon.use_tool_id(_Budget.tool, "vf-step-budget")
    mon.register_callback(_Budget.tool, mon.events.JUMP, _on_jump)
    mon.set_events(_Budget.tool, mon.events.JUMP)
    _Budget.installed = True


class budget:
    """``with budget("export"):`` - every backward jump executed by repository code is counted."""

    def __init__(self, what: str, limit: int = STEP_LIMIT):
        self.what, self.limit = what, limit

    def __enter__(self):
        b = _Budget
        self.prev = (b.armed, b.n, b.limit, b.what)
        b.armed, b.n, b.limit, b.what = True, 0, self.limit, self.what
        ctx = _MON["ctx"]
        if ctx is not None:
            ctx.count("step_budget_armed")
        return self

    def __exit__(self, et, ev, tb):
        b = _Budget
        if b.n > b.max_seen:
            b.max_seen = b.n
        b.armed, b.n, b.limit, b.what = self.prev
        return False


def budget_site(exc: BaseException) -> str:
    """Innermost repository function on the traceback of a StepBudgetExceeded."""
    name = "?"
    for fr in traceback.extract_tb(exc.__traceback__):
        if os.path.abspath(fr.filename).startswith(_REPO_PREFIX):
            name = fr.name
    return name


# ==================================================================================================
# M-REG: wrappers on the real classes
# ==================================================================================================
def file_digest(regs) -> tuple:
    """Structure + stored values of a register file, read without calling any method of the tree."""
    out = [len(regs._registers)]
    for r in regs._registers:
        out.append((id(r), r.name, r.offset, r.width, r._value, len(r._bitfields), len(r._alias_names),
                    tuple((id(s), s._value, len(s._bitfields)) for s in r.sub_regs)))
    return tuple(out)


def structure_digest(regs) -> tuple:
    out = [len(regs._registers)]
    for r in regs._registers:
        out.append((id(r), r.name, r.uid, r.offset, r.width, r.hidden, r.reverse, r.reverse_subregs_order,
                    tuple(sorted(r.alt_widths or ())), len(r._alias_names),  # get_alt_width() sorts the list in place (harmless)
                    tuple((id(b), b.name, b.offset, b.width, len(b._enums)) for b in r._bitfields),
                    tuple((id(s), s.name, s.offset, s.width, tuple((id(b), b.name, b.offset, b.width, len(b._enums)) for b in s._bitfields))
                          for s in r.sub_regs)))
    return tuple(out)


def _trip(key: str, detail: dict) -> None:
    ctx = _MON["ctx"]
    if ctx is None:
        return
    if _MON["tripped"] is None:
        _MON["tripped"] = key
    if _MON.get("op"):
        detail = dict(detail, op=_MON["op"][0], where=_MON["op"][1].where())
    ctx.violation(key, detail)


def _check_value_invariant(reg, via: str) -> None:
    ctx = _MON["ctx"]
    if ctx is not None:
        ctx.count("m_reg_invariant")
    for r in (reg.sub_regs or [reg]):
        v = r._value
        if not isinstance(v, int) or v < 0 or v >> r.width:
            if isinstance(v, int) and v < 0:
                key = "register-accepts-negative-value"
            else:
                key = "register-stores-value-wider-than-width"
            _trip(key, {"hook": via, "register": r.name, "width": r.width, "stored": v})


def install_monitors(ctx, harness: bool = True) -> None:
    """M-REG wrappers on the real classes (+ step budget and silenced logging when driven by the harness)."""
    if harness:
        import logging

        logging.disable(logging.CRITICAL)  # the empty-file constructor logs an error per object; logging is not under test
    _MON["ctx"] = ctx
    if _MON["installed"]:
        return
    if not os.environ.get(core.GUARD):
        raise core.Inconclusive(f"{core.GUARD} not set")
    from spsdk.utils import registers as R

    def wrap_set(cls, name):
        orig = getattr(cls, name)

        def set_value(self, *a, **kw):
            try:
                return orig(self, *a, **kw)
            finally:
                _check_value_invariant(self if cls is R.Register else self.parent, f"{cls.__name__}.{name}")

        set_value.__wrapped__ = orig
        setattr(cls, name, set_value)

    wrap_set(R.Register, "set_value")
    wrap_set(R.RegsBitField, "set_value")

    def wrap_query(name):
        orig = getattr(R._RegistersBase, name)

        def query(self, *a, **kw):
            if _MON["depth"]:
                return orig(self, *a, **kw)
            _MON["depth"] += 1
            before = file_digest(self)
            try:
                return orig(self, *a, **kw)
            finally:
                _MON["depth"] -= 1
                c = _MON["ctx"]
                if c is not None:
                    c.count("m_reg_digest")
                after = file_digest(self)
                if after != before:
                    inc = kw.get("include_group_regs", a[1] if len(a) > 1 else False)
                    exc = kw.get("exclude", a[0] if a else None)
                    if name in ("get_registers", "get_reg_names") and inc and not exc and after[0] > before[0]:
                        key = "get_registers-include_group_regs-extends-internal-list"
                    else:
                        key = f"read-only-query-changes-object:{name}"
                    _trip(key, {"method": name, "registers_before": before[0], "registers_after": after[0],
                                "args": core.jsonable([a, kw])})

        query.__wrapped__ = orig
        setattr(R._RegistersBase, name, query)

    for q in ("get_registers", "get_reg_names", "get_config", "export", "image_info", "find_reg", "get_reg",
              "get_validation_schema", "get_diff", "__str__", "get_base_offset"):
        wrap_query(q)
    if harness:
        install_step_budget()
    _MON["installed"] = True


# ==================================================================================================
# layouts: the database under test, and synthetic specifications
# ==================================================================================================
_REAL: list = []


def _walk(d, path):
    if isinstance(d, dict):
        if isinstance(d.get("reg_spec"), str):
            yield path, d
        for k, v in d.items():
            if isinstance(v, dict):
                yield from _walk(v, path + [k])


def real_layouts() -> list:
    """One entry per distinct (register-spec file, group list, register class) of the database under test."""
    if _REAL:
        return _REAL
    from spsdk.utils.database import DatabaseManager

    dm = DatabaseManager()
    found: dict = {}
    for fam in sorted(dm.quick_info.devices.devices.keys()):
        dev = dm.db.devices.get(fam)
        for rev in dev.revisions:
            for feat, fd in rev.features.items():
                for path, d in _walk(fd, []):
                    try:
                        fp = rev.get_file_path(feat, path + ["reg_spec"])
                    except Exception:  # pylint: disable=broad-except
                        continue
                    if not fp.endswith(".json"):
                        continue  # TrustZone presets are not register specifications
                    gr = d.get("grouped_registers", [])
                    key = (os.path.relpath(fp, core.repo_root()), json.dumps(gr, sort_keys=True, default=str), feat == "fuses")
                    found.setdefault(key, {"file": fp, "tag": "/".join(fp.split(os.sep)[-2:]), "family": fam, "revision": rev.name,
                                           "feature": feat, "base_key": path, "grouped": gr, "fuse": feat == "fuses"})
    _REAL.extend(found[k] for k in sorted(found))
    return _REAL


WIDTHS = [8, 16, 24, 32, 32, 32, 32, 40, 48, 64, 64, 96, 128, 256, 384, 512]
SEG = [1, 1, 1, 2, 3, 4, 4, 5, 7, 8, 8, 9, 12, 15, 16, 17, 24, 31, 32, 33, 63, 64, 65, 128]


def _numform(rng, v: int):
    """An integer as the specification files write it."""
    return core.pick(rng, [v, hex(v), hex(v), str(v), hex(v).upper().replace("0X", "0x")])


def gen_leaf_spec(rng, uid: str, name: str, offset: int, width: int, fuse: bool, index: int, feats: set, access=None) -> dict:
    spec: dict = {"id": uid, "name": name, "offset_int": hex(offset), "reg_width": str(width), "description": f"{name} description"}
    if access:
        spec["access"] = access
    if fuse:
        spec["index_int"] = hex(index)
    full_reset = core.pick(rng, [0, 0, rng.getrandbits(width), (1 << width) - 1])
    reg_reset_given = rng.random() < 0.5
    if rng.random() < 0.62:
        fields = []
        off = 0
        k = 0
        while off < width:
            if fields and rng.random() < 0.04:
                feats.add("partial-cover")
                break
            w = min(core.pick(rng, SEG), width - off)
            if rng.random() < 0.15:
                w = width - off
            if rng.random() < 0.22:
                fields.append({"width": core.pick(rng, [w, str(w), hex(w)])})
                feats.add("gap")
                off += w
                continue
            fs: dict = {"id": "" if rng.random() < 0.12 else f"{uid}-bits{off}-{off + w - 1}", "offset": hex(off), "width": str(w),
                        "name": f"{name}_F{k}", "access": core.pick(rng, ["RW", "RW", "RO", "WO"]), "description": core.pick(rng, ["field", ".", ""])}
            k += 1
            shift = 0
            if w >= 2 and rng.random() < 0.1:
                shift = rng.randrange(1, 9)
                fs["config_preprocess"] = f"SHIFT_RIGHT:COUNT={shift};DESC=low {shift} bits are not stored"
                feats.add("shift-right")
            stored = (full_reset >> off) & ((1 << w) - 1)
            if stored and (not reg_reset_given or rng.random() < 0.3):
                fs["reset_value_int"] = _numform(rng, stored << shift)
                feats.add("field-reset")
            if rng.random() < 0.3:
                vals = sorted({rng.getrandbits(w) for _ in range(rng.randrange(1, 5))} | ({stored} if rng.random() < 0.5 else set()))
                fs["values"] = [{"name": f"{name}_F{k}_E{j}" if rng.random() < 0.5 else f"Choice {j}", "value": _numform(rng, v << shift),
                                 "description": core.pick(rng, [".", "text"])} for j, v in enumerate(vals)]
                feats.add("enum")
            fields.append(fs)
            off += w
        spec["bitfields"] = fields
        feats.add("fields")
    if reg_reset_given and full_reset:
        spec["reset_value_int"] = _numform(rng, full_reset)
        feats.add("reg-reset")
    return spec


def gen_synthetic(rng, fuse: bool) -> tuple[dict, list, set]:
    """(specification, group list, feature set) in the format of the device database."""
    feats: set = set()
    nregs = core.pick(rng, [1, 2, 3, 3, 5, 8, 12])
    regs: list = []
    grouped: list = []
    offset = core.pick(rng, [0, 0, 0, 4, 0x100])
    idx = 0
    for i in range(nregs):
        if rng.random() < 0.35:
            sw = core.pick(rng, [8, 16, 32, 32, 32, 64])
            k = core.pick(rng, [n for n in (2, 3, 4, 6, 8, 12, 16) if n * sw <= 512])
            W = k * sw
            uids = []
            acc = core.pick(rng, [None, None, None, "RW", "RO", "WO", "R/W"])
            for j in range(k):
                uid = f"g{i}s{j}"
                uids.append(uid)
                regs.append(gen_leaf_spec(rng, uid, f"G{i}_{j}", offset + j * (sw // 8), sw, fuse, idx, feats, acc))
                idx += 1
            gd: dict = {"uid": f"grp{i}", "name": f"GROUP{i}", "sub_regs": uids}
            if rng.random() < 0.5:
                gd["width"] = W
                feats.add("group-explicit-width")
            if rng.random() < 0.2:
                gd["offset"] = offset
            if rng.random() < 0.5:
                gd["reversed"] = core.pick(rng, [True, "true", "True"])
                feats.add("reversed")
            if rng.random() < 0.4:
                gd["config_as_hexstring"] = True
                feats.add("hexstring")
            if rng.random() < 0.3:
                alts = sorted(rng.sample([m * sw for m in range(1, k) if (m * sw) % 8 == 0], rng.randrange(1, min(3, k))))
                gd["alternative_widths"] = core.pick(rng, [alts, alts[::-1]])
                feats.add("alt-widths")
            elif rng.random() < 0.4:
                gd["reverse_subregs_order"] = True
                feats.add("reversed-subreg-order")
            if rng.random() < 0.3:
                gd["description"] = "a group"
            grouped.append(gd)
            feats.add("group")
            offset += W // 8
        else:
            w = core.pick(rng, WIDTHS)
            hidden = rng.random() < 0.12
            spec = gen_leaf_spec(rng, f"r{i}", f"Reserved 0x{offset:05X}" if hidden else f"REG{i}", offset, w, fuse, idx, feats,
                                 core.pick(rng, [None, None, None, None, "RW", "RO", "WO", "R/W"]))
            if hidden:
                spec["is_reserved"] = core.pick(rng, [True, "true"])
                feats.add("hidden-register")
            regs.append(spec)
            idx += 1
            offset += w // 8
            feats.add(f"w{w}" if w in (8, 24, 40, 384, 512) else "plain")
        offset += core.pick(rng, [0, 0, 0, 4, 16])
    if fuse:
        plain = [r for r in regs if not any(r["id"] in g["sub_regs"] for g in grouped)]
        if plain and rng.random() < 0.5:
            lock = plain[0]["id"]
            for r in regs[1:3]:
                r["lock"] = {"register_id": lock, "write_lock_int": "0x1", "read_lock_int": "0x2"}
            feats.add("fuse-locks")
    # split the registers over one or two specification groups
    cut = rng.randrange(0, len(regs) + 1) if rng.random() < 0.3 else len(regs)
    groups = [{"group": {"name": "A"}, "registers": regs[:cut]}]
    if cut < len(regs):
        groups.append({"group": {"name": "B"}, "registers": regs[cut:]})
    spec = {"cpu": "synthetic", "groups": groups}
    if fuse and rng.random() < 0.5:
        spec["shadow_reg_base_addr_int"] = "0x40000000"
    return spec, grouped, feats


# ==================================================================================================
# bench = real object + model, kept in lock step
# ==================================================================================================
class _Abort(Exception):
    """End of the current sequence (a violation was reported, the two sides may have diverged)."""


def _E(endian: str):
    from spsdk.utils.misc import Endianness

    return Endianness.BIG if endian == "big" else Endianness.LITTLE


class Bench:
    def __init__(self, ctx, desc: dict):
        """desc: {"kind": "synthetic", "spec", "grouped", "fuse", "endian"} or {"kind": "real", **layout, "endian"}."""
        self.ctx = ctx
        self.desc = desc
        self.endian = desc["endian"]
        self.fuse = bool(desc.get("fuse"))
        self.reported: set = set()
        if desc["kind"] == "real":
            with open(desc["file"], encoding="utf-8") as f:
                self.spec = json.load(f)
        else:
            self.spec = desc["spec"]
        self.grouped = desc["grouped"]
        self.lay = bitvec.layout_from_spec(self.spec, self.grouped, self.endian)  # SpecError -> caller
        self.real = self.make_real()
        self.overlapping = bool(self.lay.overlaps())

    # -- construction -----------------------------------------------------------------------
    def make_real(self):
        from spsdk.fuses.fuse_registers import FuseRegisters
        from spsdk.utils.registers import Registers

        d = self.desc
        with budget("load specification", 20 * STEP_LIMIT):
            if d["kind"] == "real":
                bk = list(d["base_key"]) or None
                if self.fuse:
                    return FuseRegisters(d["family"], base_key=bk, revision=d["revision"], base_endianness=_E(self.endian))
                return Registers(d["family"], d["feature"], base_key=bk, revision=d["revision"], base_endianness=_E(self.endian))
            regs = FuseRegisters("<synthetic>", base_endianness=_E(self.endian)) if self.fuse else \
                Registers("<synthetic>", "x", base_endianness=_E(self.endian))
            if d.get("via") == "add_register":
                # the public way to the same object: one Register per specification entry, handed to add_register()
                for g in json.loads(json.dumps(self.spec)).get("groups", []):
                    for r in g.get("registers", []):
                        regs.add_register(regs.register_class.create_from_spec(r))
                self.ctx.count("built_through_add_register")
                return regs
            regs._load_from_spec(json.loads(json.dumps(self.spec)), json.loads(json.dumps(self.grouped)))
            return regs

    def fresh(self) -> "Bench":
        b = Bench.__new__(Bench)
        b.__dict__.update(self.__dict__)
        b.lay = bitvec.layout_from_spec(self.spec, self.grouped, self.endian)
        b.real = self.make_real()
        b.sdigest = structure_digest(b.real)
        b.reported = set()
        b.otp = {}
        return b

    # -- reporting --------------------------------------------------------------------------
    def where(self) -> dict:
        d = self.desc
        if d["kind"] == "real":
            return {"layout": d["tag"], "family": d["family"], "revision": d["revision"], "feature": d["feature"],
                    "base_key": d["base_key"], "endian": self.endian}
        return {"layout": "synthetic", "endian": self.endian, "fuse": self.fuse, "grouped": self.grouped,
                "spec": json.dumps(self.spec, separators=(",", ":"))[:5000]}

    def fail(self, key: str, detail: dict, fatal: bool = True) -> None:
        detail = dict(detail)
        detail["where"] = self.where()
        if key not in self.reported:
            self.reported.add(key)
            self.ctx.violation(key, detail)
        if fatal:
            raise _Abort(key)

    # -- structure --------------------------------------------------------------------------
    def check_structure(self) -> None:
        lay, real = self.lay, self.real
        if len(lay.regs) != len(real._registers):
            self.fail("load-spec-register-count", {"model": [r.name for r in lay.regs][:40], "real": [r.name for r in real._registers][:40]})
        for m, x in zip(lay.regs, real._registers):
            a = (m.name, m.uid, m.offset, m.width, m.hidden, len(m.subs), bool(m.reverse), bool(m.rev_order), bool(m.hexstring), sorted(m.alt_widths))
            b = (x.name, x.uid, x.offset, x.width, x.hidden, len(x.sub_regs), bool(x.reverse), bool(x.reverse_subregs_order),
                 bool(x.config_as_hexstring), sorted(x.alt_widths or []))
            if a != b:
                self.fail("load-spec-register-structure", {"model": a, "real": b})
            for ml, xl in zip(m.leaves(), x.sub_regs or [x]):
                a2 = (ml.name, ml.uid, ml.offset, ml.width, ml.hidden, [(f.name, f.uid, f.offset, f.width, f.hidden, f.config_width, f.enums) for f in ml.fields])
                b2 = (xl.name, xl.uid, xl.offset, xl.width, xl.hidden,
                      [(f.name, f.uid, f.offset, f.width, f.hidden, f.config_width, [(e.name, e.value) for e in f._enums]) for f in xl._bitfields])
                if a2 != b2:
                    self.fail("load-spec-bitfield-structure", {"register": ml.name, "model": core.jsonable(a2), "real": core.jsonable(b2)})
        self.sdigest = structure_digest(real)

    # -- the after-every-operation comparison -------------------------------------------------
    def diffs(self) -> list:
        """Every register, sub-register and bit-field read through the public API vs the model."""
        out = []
        n = 0
        with budget("read back all values", 20 * STEP_LIMIT):
            for ti, (m, x) in enumerate(zip(self.lay.regs, self.real._registers)):
                rv, mv = x.get_value(raw=True), m.raw()
                n += 2
                if rv != mv:
                    out.append({"what": "register-raw", "top": ti, "name": m.name, "real": rv, "model": mv})
                lv = x.get_value()
                if lv != m.get():
                    out.append({"what": "register-logical", "top": ti, "name": m.name, "real": lv, "model": m.get(),
                                "inferred": m.get_inferred(), "raw_equal": rv == mv})
                if m.is_group:
                    for si, (ms, xs) in enumerate(zip(m.subs, x.sub_regs)):
                        n += 1
                        sv = xs.get_value(raw=True)
                        if sv != ms.raw() or xs.get_value() != ms.get():
                            out.append({"what": "sub-register", "top": ti, "sub": si, "name": ms.name, "real": sv, "model": ms.raw()})
                for ml, xl in zip(m.leaves(), x.sub_regs or [x]):
                    for f, bf in zip(ml.fields, xl._bitfields):
                        if not f.in_range or bf.parent is not xl:
                            continue
                        n += 1
                        fv = bf.get_value()
                        if fv != f.get():
                            out.append({"what": "bit-field", "top": ti, "reg": ml.name, "name": f.name, "real": fv, "model": f.get()})
        self.ctx.count("values_compared", n)
        return out

    def judge_state(self, op: dict, before: tuple, touched: set, fallback_key=None) -> None:
        """Compare everything; classify a disagreement by mechanism."""
        sd = structure_digest(self.real)
        if sd != self.sdigest:
            self.fail("operation-changes-structure:" + op["op"], {"op": op, "registers_before": self.sdigest[0], "registers_after": sd[0]})
        ds = self.diffs()
        if not ds:
            return
        lay = self.lay
        if fallback_key and getattr(self, "truncated_store", None):
            # load_yml_config refused a later entry, but did it store (truncated) the value the model refuses?
            snap = lay.snapshot()
            self.truncated_store()
            self.truncated_store = None
            if not self.diffs():
                self.fail(fallback_key, {"op": op, "note": "the refused multi-entry load stored the non-fitting value truncated"})
            lay.restore(snap)
        snap_idx = {}
        i = 0
        for ti, r in enumerate(lay.regs):
            for si, _lf in enumerate(r.leaves()):
                snap_idx[(ti, si)] = i
                i += 1
        keys = []
        for ti in sorted({d["top"] for d in ds}):
            dd = [d for d in ds if d["top"] == ti]
            key = self.classify_top(op, lay.regs[ti], dd, before, snap_idx, ti in touched, fallback_key)
            detail = {"op": op, "register": lay.regs[ti].name, "differences": dd[:6], "n_differences": len(dd)}
            if key == KNOWN_ALTWIDTH:
                g = lay.regs[ti]
                detail.update({"width": g.width, "alternative_widths": g.alt_widths, "written": dd[0]["model"], "read_back": dd[0]["real"],
                               "classes": [g.class_width(dd[0]["model"]), g.class_width(g.raw())]})
            keys.append((key, detail))
        fatal = [k for k, _ in keys if k != KNOWN_ALTWIDTH]
        for key, detail in keys:
            self.fail(key, detail, fatal=False)
        if fatal:
            raise _Abort(fatal[0])

    def wrote_whole(self, op: dict, r) -> bool:
        """Did this operation write register ``r`` as a whole?"""
        kind = op["op"]
        if kind in ("reg_set", "reg_reset"):
            try:
                return model_reg(self, op["reg"]) is r
            except bitvec.NotFound:
                return False
        if kind == "load_config":
            return r.name in op["cfg"]
        return True

    RESET_OPS = ("reg_reset", "reset_all")
    WHOLE_WRITES = ("reg_set", "reg_reset", "reset_all", "parse", "load_config", "parse_export_fresh", "config_fresh", "config_same")

    def classify_top(self, op: dict, r, dd: list, before: tuple, snap_idx: dict, was_target: bool, fallback_key) -> str:
        """Mechanism of a disagreement on one top-level register (and its sub-registers / bit-fields)."""
        ti = self.lay.regs.index(r)
        if r.reverse and r.alt_widths and all(d["what"] == "register-logical" and d["raw_equal"] and d["real"] == d["inferred"] for d in dd):
            return KNOWN_ALTWIDTH
        kind = op["op"]
        subs = [d for d in dd if d["what"] == "sub-register"]
        leaves = [r.subs[d["sub"]] for d in subs] if r.is_group else [r]
        if r.is_group and subs:
            if kind in self.RESET_OPS and any(d["real"] == 0 and d["model"] == r.subs[d["sub"]].reset != 0 for d in subs):
                return "group-reset-ignores-subregister-reset-values"
            if r.alt_widths and kind in self.WHOLE_WRITES and self.wrote_whole(op, r):
                first_upper = min(r.alt_widths) // r.sub_width
                # the register was written as a whole in this operation and only sub-registers above the smallest width class
                # disagree: the model has determined them, the tree kept (part of) what they held
                if all(d["sub"] >= first_upper for d in subs):
                    return "altwidth-narrow-write-keeps-upper-subregisters"
        if kind in self.RESET_OPS and any(shift_reset_field(lf) for lf in leaves):
            return "reset-value-ignores-config-processor-of-bitfield"
        return f"state-mismatch:{kind}:{'target' if was_target else 'neighbour'}"


def shift_reset_field(leaf) -> bool:
    """A bit-field with a config processor whose reset value is not zero (its raw and configuration-side reset values differ)."""
    return any(f.shift and f.reset_cfg for f in leaf.fields)


# ==================================================================================================
# values and targets
# ==================================================================================================
def gen_value(rng, w: int, fit: float = 0.8) -> int:
    if rng.random() < fit:
        c = rng.randrange(9)
        if c == 0:
            return 0
        if c == 1:
            return 1
        if c == 2:
            return (1 << w) - 1
        if c == 3:
            return 1 << (w - 1)
        if c == 4:
            return (rng.getrandbits(w) >> (w // 2)) << (w // 2)  # low half zero
        if c == 5:
            return rng.getrandbits(max(1, w // 2))  # high half zero
        return rng.getrandbits(w)
    return core.pick(rng, [1 << w, 1 << w, (1 << w) + 1, -1, -1, -5, 1 << 600, (1 << w) | rng.getrandbits(w), rng.getrandbits(w + 9) | (1 << (w + 8))])


def form_value(rng, v: int):
    """The same number as int / decimal / hex / binary string (core grammar only)."""
    if v < 0:
        return core.pick(rng, [v, v, str(v)])
    c = rng.randrange(10)
    if c < 4:
        return v
    if c == 4:
        return str(v)
    if c == 5:
        return hex(v)
    if c == 6:
        return "0x" + format(v, "X")
    if c == 7 and v.bit_length() <= 70:
        return bin(v)
    if c == 8:
        return "0x" + _group4(format(v, "x"))
    return core.pick(rng, [" ", "\t", ""]) + hex(v) + core.pick(rng, [" ", "", "\n"])


def _group4(h: str) -> str:
    parts = []
    while h:
        parts.append(h[-4:])
        h = h[:-4]
    return "_".join(reversed(parts))


def pick_reg(rng, b: Bench, want_leaf: bool = False, for_write: bool = False):
    """A model register (top-level, sub-register, sometimes hidden) and a public way to look it up."""
    lay = b.lay
    cands = []
    for ti, r in enumerate(lay.regs):
        if r.is_group:
            if not want_leaf and (r.well_formed() or not for_write):
                cands.append((ti, r))
            cands.extend((ti, s) for s in r.subs)
        else:
            cands.append((ti, r))
    if not cands:
        return None
    ti, t = core.pick(rng, cands)
    if t.hidden and rng.random() < 0.6:
        ti, t = core.pick(rng, cands)
    if t.uid and rng.random() < 0.3:
        ref = {"by": "uid", "key": t.uid}
    else:
        ref = {"by": "name", "key": core.pick(rng, [t.name, t.name, t.uid or t.name] + t.aliases), "inc": t.parent is not None or rng.random() < 0.5}
    try:
        t2 = model_reg(b, ref)
    except bitvec.NotFound:
        return None
    if want_leaf and t2.is_group:
        return None
    if for_write and t2.is_group and not t2.well_formed():
        return None
    top = t2.parent or t2
    return ref, t2, lay.regs.index(top) if top in lay.regs else ti


def model_reg(b: Bench, ref: dict) -> bitvec.Reg:
    if ref["by"] == "uid":
        return b.lay.get_by_uid(ref["key"])
    return b.lay.find(ref["key"], ref.get("inc", False))


def real_reg(b: Bench, ref: dict):
    if ref["by"] == "uid":
        return b.real.get_reg(ref["key"])
    return b.real.find_reg(ref["key"], include_group_regs=ref.get("inc", False))


def pick_field(rng, b: Bench):
    for _ in range(6):
        p = pick_reg(rng, b, want_leaf=True)
        if p is None:
            continue
        ref, leaf, ti = p
        fs = [f for f in leaf.fields if f.in_range and f.reg is leaf]
        if not fs:
            continue
        f = core.pick(rng, fs)
        if f.hidden and rng.random() < 0.5:
            f = core.pick(rng, fs)
        fref = {"by": "uid", "key": f.uid} if f.uid and rng.random() < 0.3 else {"by": "name", "key": core.pick(rng, [f.name, f.name, f.uid or f.name])}
        try:
            f2 = model_field(leaf, fref)
        except bitvec.NotFound:
            continue
        if not f2.in_range:
            continue
        return ref, fref, leaf, f2, ti
    return None


def model_field(leaf: bitvec.Reg, fref: dict) -> bitvec.Field:
    return leaf.get_field(fref["key"]) if fref["by"] == "uid" else leaf.find_field(fref["key"])


def real_field(xreg, fref: dict):
    return xreg.get_bitfield(fref["key"]) if fref["by"] == "uid" else xreg.find_bitfield(fref["key"])


def _as_int(x):
    try:
        return bitvec.to_int(x[4:] if isinstance(x, str) and x.startswith("RAW:") else x)
    except bitvec.Reject:
        return None


def classify_accept(kind: str, x, width: int, shift: int = 0) -> str:
    v = _as_int(x)
    if v is None:
        return f"{kind}-accepts-non-number"
    if v < 0:
        return f"{kind}-accepts-negative-value"
    if kind == "bitfield" and (v >> shift) == 1 << width:
        return "bitfield-accepts-2**width"
    return f"{kind}-accepts-nonfitting-value"


# ==================================================================================================
# calling the tree
# ==================================================================================================
def call_real(b: Bench, op: dict, fn):
    """('ok', result) | ('refused', exc) | ('error', exc); a step-budget overrun ends the sequence."""
    _MON["tripped"] = None
    _MON["op"] = (op, b)
    try:
        with budget(op["op"]):
            res = ("ok", fn())
    except core.StepBudgetExceeded as e:
        b.fail("step-budget-exceeded:" + budget_site(e), {"op": op, "what": str(e)})
    except _Abort:
        raise
    except Exception as e:  # pylint: disable=broad-except
        if core.origin_of(e) != "repo":
            raise
        res = ("refused", e) if core.is_refusal(e) else ("error", e)
    if _MON["tripped"]:
        key = _MON["tripped"]
        _MON["tripped"] = None
        b.reported.add(key)
        raise _Abort(key)  # reported by the hook itself
    return res


def settle(b: Bench, op: dict, model_out: tuple, real_out: tuple, before: tuple, touched: set, accept_key=None) -> None:
    """Compare the outcome classes of one write operation, then the complete state."""
    mo, ro = model_out[0], real_out[0]
    if mo == "ok":
        if ro == "refused":
            b.fail("rejects-fitting-value:" + op["op"], {"op": op, "error": core.exc_brief(real_out[1])})
        if ro == "error":
            b.fail(f"escape:{op['op']}:{type(real_out[1]).__name__}", {"op": op, "error": core.exc_brief(real_out[1])})
    else:
        if ro == "ok":
            b.fail(accept_key or ("accepts-rejected-input:" + op["op"]), {"op": op, "model": str(model_out[1])})
        if ro == "error":
            b.ctx.note("refused_with_non_spsdk_exception", f"{op['op']}: {type(real_out[1]).__name__}")
        b.ctx.count("rejections_agreed")
    # a refused multi-entry load may have applied an entry the model refuses before it hit the one the tree refuses too
    b.judge_state(op, before, touched, accept_key if (mo != "ok" and op["op"] == "load_config") else None)
    b.ctx.count("ops_judged")


def model_try(fn) -> tuple:
    try:
        return ("ok", fn())
    except bitvec.Reject as e:
        return ("reject", e)
    except bitvec.NotFound as e:
        return ("notfound", e)


# ==================================================================================================
# operations
# ==================================================================================================
OPS = (["field_set"] * 24 + ["field_enum"] * 10 + ["reg_set"] * 16 + ["reg_reset"] * 4 + ["reset_all"] * 3 + ["parse"] * 5 + ["export"] * 5
       + ["parse_export_fresh"] * 3 + ["get_config"] * 4 + ["config_fresh"] * 4 + ["config_same"] * 2 + ["load_config"] * 8 + ["query"] * 14
       + ["schema"] * 1 + ["text"] * 2)


def gen_op(rng, b: Bench):
    kind = core.pick(rng, OPS)
    lay = b.lay
    if kind == "field_set":
        p = pick_field(rng, b)
        if p is None:
            return None
        ref, fref, _leaf, f, _ti = p
        nop = rng.random() < 0.1
        v = gen_value(rng, f.width if nop else f.config_width)
        if f.shift and not nop and v >= 0 and rng.random() < 0.5:
            v = (v >> f.shift) << f.shift
        return {"op": kind, "reg": ref, "field": fref, "value": form_value(rng, v), "raw": rng.random() < 0.3, "nop": nop}
    if kind == "field_enum":
        p = pick_field(rng, b)
        if p is None:
            return None
        ref, fref, _leaf, f, _ti = p
        c = rng.randrange(6)
        if c <= 1 and f.enums:
            x = core.pick(rng, f.enums)[0]
        elif c == 2:
            x = "RAW:" + str(form_value(rng, gen_value(rng, f.width))).strip()
        elif c == 3:
            x = core.pick(rng, ["NO_SUCH_ENUM", "zz", "", "RAW:", "RAW:xyz"])
        else:
            x = form_value(rng, gen_value(rng, f.config_width))
        return {"op": kind, "reg": ref, "field": fref, "value": x, "raw": rng.random() < 0.5}
    if kind == "reg_set":
        p = pick_reg(rng, b, for_write=True)
        if p is None:
            return None
        ref, t, _ti = p
        w = t.width
        if t.alt_widths and rng.random() < 0.5:
            w = core.pick(rng, t.alt_widths)
        return {"op": kind, "reg": ref, "value": form_value(rng, gen_value(rng, w)), "raw": rng.random() < 0.4}
    if kind == "reg_reset":
        p = pick_reg(rng, b, for_write=True)
        if p is None:
            return None
        return {"op": kind, "reg": p[0], "raw": rng.random() < 0.5}
    if kind == "reset_all":
        ex = None
        if rng.random() < 0.4 and lay.regs:
            ex = [core.pick(rng, lay.regs).name[: rng.randrange(1, 8)] for _ in range(rng.randrange(1, 3))]
        return {"op": kind, "exclude": ex}
    if kind == "parse":
        size = lay.size()
        n = core.pick(rng, [size, size, size, size + rng.randrange(1, 9), rng.randrange(0, size + 1), 0])
        data = core.pick(rng, [core.rand_bytes(rng, n), core.rand_bytes(rng, n), b"\xff" * n, bytes(n)])
        return {"op": kind, "data": data.hex()}
    if kind == "export":
        return {"op": kind, "size": core.pick(rng, [0, 0, lay.size(), lay.size() + rng.randrange(1, 20)]), "pattern": core.pick(rng, ["zeros", "zeros", "ones"])}
    if kind in ("parse_export_fresh", "config_same", "schema"):
        return {"op": kind}
    if kind in ("get_config", "config_fresh"):
        return {"op": kind, "diff": rng.random() < 0.5}
    if kind == "load_config":
        cfg: dict = {}
        bad = False  # a value the model refuses ends the configuration: what a refused load leaves behind is then unambiguous
        for _ in range(rng.randrange(1, 5)):
            if bad:
                break
            if rng.random() < 0.55:
                p = pick_field(rng, b)
                if p is None:
                    continue
                ref, _fref, leaf, _f, _ti = p
                fields = {}
                for f in rng.sample(leaf.fields, min(len(leaf.fields), rng.randrange(1, 4))):
                    if not f.in_range:
                        continue
                    if f.enums and rng.random() < 0.4:
                        fields[f.name] = core.pick(rng, f.enums)[0]
                    else:
                        v = gen_value(rng, f.config_width, fit=0.9)
                        fields[f.name] = form_value(rng, v)
                        if v < 0 or (v >> f.shift) >> f.width:
                            bad = True
                            break
                if not fields:
                    continue
                cfg[leaf.name] = {"bitfields": fields} if rng.random() < 0.3 else fields
            else:
                p = pick_reg(rng, b, for_write=True)
                if p is None:
                    continue
                _ref, t, _ti = p
                v = gen_value(rng, core.pick(rng, t.alt_widths + [t.width]), fit=0.9)
                x = form_value(rng, v)
                if t.hexstring and isinstance(x, str):
                    x = format(v, "x") if v >= 0 else x  # hex-string registers take bare hex digits
                cfg[t.name] = {"value": x} if rng.random() < 0.25 else x
                bad = v < 0 or v >> t.width != 0
        if not bad and rng.random() < 0.06:
            cfg["NO_SUCH_REGISTER"] = 1
        if not cfg:
            return None
        return {"op": kind, "cfg": cfg}
    if kind == "query":
        return gen_query(rng, b)
    if kind == "text":
        p = pick_reg(rng, b)
        return {"op": kind, "reg": p[0] if p else None}
    return None


def apply_op(b: Bench, op: dict) -> None:  # noqa: C901
    """Apply one operation to the model and to the real object and judge it."""
    kind = op["op"]
    lay, real = b.lay, b.real
    before = lay.snapshot()
    everything = set(range(len(lay.regs)))

    if kind in ("field_set", "field_enum"):
        mleaf = model_reg(b, op["reg"])
        mf = model_field(mleaf, op["field"])
        top = mleaf.parent or mleaf
        if kind == "field_set":
            mo = model_try(lambda: mf.set(op["value"], op["nop"]))
            ro = call_real(b, op, lambda: real_field(real_reg(b, op["reg"]), op["field"]).set_value(op["value"], raw=op["raw"], no_preprocess=op["nop"]))
            x, nop = op["value"], op["nop"]
        else:
            mo = model_try(lambda: mf.set_enum(op["value"]))
            ro = call_real(b, op, lambda: real_field(real_reg(b, op["reg"]), op["field"]).set_enum_value(op["value"], raw=op["raw"]))
            x, nop = mf.resolve_enum(op["value"])
        settle(b, op, mo, ro, before, {lay.regs.index(top)}, classify_accept("bitfield", x, mf.width, 0 if nop else mf.shift))
        return

    if kind == "reg_set":
        mt = model_reg(b, op["reg"])
        mo = model_try(lambda: mt.set(op["value"], op["raw"]))
        ro = call_real(b, op, lambda: real_reg(b, op["reg"]).set_value(op["value"], op["raw"]))
        settle(b, op, mo, ro, before, {lay.regs.index(mt.parent or mt)}, classify_accept("register", op["value"], mt.width))
        return

    if kind == "reg_reset":
        mt = model_reg(b, op["reg"])
        mo = model_try(mt.do_reset)
        ro = call_real(b, op, lambda: real_reg(b, op["reg"]).reset_value(op["raw"]))
        settle(b, op, mo, ro, before, {lay.regs.index(mt.parent or mt)})
        return

    if kind == "reset_all":
        mo = model_try(lambda: lay.reset(op["exclude"]))
        ro = call_real(b, op, lambda: real.reset_values(op["exclude"]))
        settle(b, op, mo, ro, before, everything)
        return

    if kind == "parse":
        data = bytes.fromhex(op["data"])
        mo = model_try(lambda: lay.parse(data))
        ro = call_real(b, op, lambda: real.parse(data))
        settle(b, op, mo, ro, before, everything)
        return

    if kind == "export":
        from spsdk.utils.images import BinaryPattern

        ro = call_real(b, op, lambda: real.export(op["size"], BinaryPattern(op["pattern"])))
        if ro[0] != "ok":
            b.fail(f"escape:export:{type(ro[1]).__name__}", {"op": op, "error": core.exc_brief(ro[1])})
        if not b.overlapping:
            exp = lay.export(op["size"], 0xFF if op["pattern"] == "ones" else 0)
            if ro[1] != exp:
                judge_export(b, op, ro[1], exp)
        b.judge_state(op, before, set())
        b.ctx.count("ops_judged")
        b.ctx.count("exports_compared")
        return

    if kind == "parse_export_fresh":
        ro = call_real(b, op, real.export)
        if ro[0] != "ok":
            b.fail(f"escape:export:{type(ro[1]).__name__}", {"op": op, "error": core.exc_brief(ro[1])})
        data = ro[1]
        if not b.overlapping and data != lay.export():
            judge_export(b, op, data, lay.export())
        fb = b.fresh()
        fbefore = fb.lay.snapshot()
        mo = model_try(lambda: fb.lay.parse(data))
        ro2 = call_real(fb, op, lambda: fb.real.parse(data))
        settle(fb, op, mo, ro2, fbefore, everything)
        b.reported |= fb.reported
        # the round trip itself, stated on the model (the real side equals the model on both objects)
        same = all(a.raw() == c.raw() for a, c in zip(lay.regs, fb.lay.regs) if not a.hidden)
        if not b.overlapping and all(r.well_formed() for r in lay.regs) and not same:
            raise core.Inconclusive("model: parse(export()) does not restore a well-formed layout")
        b.ctx.count("parse_export_roundtrips")
        b.judge_state(op, before, set())
        return

    if kind in ("get_config", "config_fresh", "config_same"):
        diff = bool(op.get("diff"))
        ro = call_real(b, op, lambda: real.get_config(diff))
        if ro[0] != "ok":
            b.fail(f"escape:get_config:{type(ro[1]).__name__}", {"op": op, "error": core.exc_brief(ro[1])})
        cfg = ro[1]
        judge_config(b, op, cfg, diff)
        b.judge_state(op, before, set())
        if kind == "get_config":
            b.ctx.count("ops_judged")
            return
        tb = b if kind == "config_same" else b.fresh()
        tbefore = tb.lay.snapshot()
        mo = model_try(lambda: tb.lay.load_config(cfg))
        ro2 = call_real(tb, op, lambda: tb.real.load_yml_config(cfg))
        settle(tb, op, mo, ro2, tbefore, everything)
        b.reported |= tb.reported
        b.ctx.count("config_roundtrips")
        if tb.lay.snapshot() == before:
            b.ctx.count("config_roundtrips_restoring_state")
        return

    if kind == "load_config":
        cfg = op["cfg"]
        accept_key = None
        b.truncated_store = None
        mo = ("ok", None)
        for name, val in cfg.items():  # entry by entry, to know which entry the model refuses
            mo = model_try(lambda: lay.load_config({name: val}))  # noqa: B023
            if mo[0] != "ok":
                accept_key = load_accept_key(b, name, val)
                break
        ro = call_real(b, op, lambda: real.load_yml_config(cfg))
        settle(b, op, mo, ro, before, everything, accept_key)
        return

    if kind == "query":
        apply_query(b, op)
        b.judge_state(op, before, set())
        b.ctx.count("ops_judged")
        b.ctx.count("queries_judged")
        return

    if kind == "schema":
        ro = call_real(b, op, real.get_validation_schema)
        if ro[0] != "ok":
            b.fail(f"escape:get_validation_schema:{type(ro[1]).__name__}", {"error": core.exc_brief(ro[1])})
        judge_schema(b, op, ro[1])
        b.judge_state(op, before, set())
        b.ctx.count("ops_judged")
        b.ctx.count("queries_judged")
        return

    if kind == "text":
        def texts():
            out = [str(real)]
            if op["reg"]:
                x = real_reg(b, op["reg"])
                out += [str(x), repr(x)] + [t for bf in x._bitfields[:4] for t in (str(bf), repr(bf))]
            return out

        ro = call_real(b, op, texts)
        if ro[0] != "ok":
            b.fail(f"escape:str-repr:{type(ro[1]).__name__}", {"op": op, "error": core.exc_brief(ro[1])})
        if op["reg"]:
            mt = model_reg(b, op["reg"])
            if mt.name not in ro[1][1] or mt.name not in ro[1][2]:
                b.fail("str-repr-without-register-name", {"op": op})
            if mt.hex() not in ro[1][2] and not (mt.reverse and mt.alt_widths and mt.hex(inferred=True) in ro[1][2]):
                b.fail("repr-shows-wrong-value", {"op": op, "repr": ro[1][2], "model": mt.hex()})
        b.judge_state(op, before, set())
        b.ctx.count("ops_judged")
        b.ctx.count("queries_judged")
        return

    raise core.Inconclusive(f"unknown operation {kind}")


def load_accept_key(b: Bench, name: str, val) -> str:
    """Mechanism key for 'load_yml_config accepted an entry the model refuses'."""
    try:
        r = b.lay.find(name, True)
    except bitvec.NotFound:
        return "load-config-accepts-unknown-register"
    if isinstance(val, dict) and "value" not in val:
        fields = val.get("bitfields", val)
        for fname, fval in fields.items():
            try:
                f = r.find_field(fname)
            except bitvec.NotFound:
                return "load-config-accepts-unknown-bitfield"
            x, nop = f.resolve_enum(fval)
            try:
                f.check(x, nop)
            except bitvec.Reject:
                v = _as_int(x)
                if v is not None:
                    def store_truncated(f=f, v=v, nop=nop):
                        stored = (v if nop else v >> f.shift) & f.mask
                        f.reg.set((f.reg.get() & ~(f.mask << f.offset)) | (stored << f.offset))

                    b.truncated_store = store_truncated
                return classify_accept("bitfield", x, f.width, 0 if nop else f.shift)
        return "accepts-rejected-input:load_config"
    x = val["value"] if isinstance(val, dict) else val
    if r.hexstring and isinstance(x, str):
        try:
            x = int(x, 16)
        except ValueError:
            return "register-accepts-non-number"
    return classify_accept("register", x, r.width)


def judge_export(b: Bench, op: dict, got: bytes, exp: bytes) -> None:
    lay = b.lay
    detail = {"op": op, "len_real": len(got), "len_model": len(exp),
              "first_difference": next((i for i, (x, y) in enumerate(zip(got, exp)) if x != y), min(len(got), len(exp)))}
    off = detail["first_difference"]
    hit = [r for r in lay.regs if r.offset <= off < r.offset + r.width // 8]
    detail["register"] = hit[0].name if hit else None
    if hit and hit[0].alt_widths and hit[0].class_width(hit[0].raw()) < hit[0].width:
        detail["raw_value"] = hit[0].raw()
        b.fail("altwidth-export-places-short-value-bytes-at-register-start", detail)
    b.fail("export-bytes-differ", detail)


def judge_config(b: Bench, op: dict, cfg: dict, diff: bool) -> None:
    lay = b.lay
    exp = lay.get_config(diff)
    if cfg == exp:
        return
    keys = [k for k in list(cfg) + [k for k in exp if k not in cfg] if cfg.get(k, None) != exp.get(k, None)]
    detail = {"op": op, "differing": [{"register": k, "real": cfg.get(k, "<absent>"), "model": exp.get(k, "<absent>")} for k in keys[:6]]}
    if cfg == lay.get_config(diff, inferred=True):
        b.fail(KNOWN_ALTWIDTH, dict(detail, via="get_config"), fatal=False)
        return
    found = set()
    for k in keys:
        try:
            r = lay.find(k)
        except bitvec.NotFound:
            r = None
        if r is not None and r.reverse and r.alt_widths and cfg.get(k) == r.hex(inferred=True):
            found.add(KNOWN_ALTWIDTH)
        elif diff and r is not None and r.is_group and r.reset != 0:
            found.add("group-reset-ignores-subregister-reset-values")
        elif diff and r is not None and not r.is_group and shift_reset_field(r):
            found.add("reset-value-ignores-config-processor-of-bitfield")
        else:
            found.add("get_config-differs")
    via = {KNOWN_ALTWIDTH: "get_config", "get_config-differs": None}
    for key in sorted(found):
        v = via.get(key, "get_config(diff=True) compares the value with get_reset_value()")
        b.fail(key, dict(detail, via=v) if v else detail, fatal=False)
    fatal = sorted(found - {KNOWN_ALTWIDTH})
    if fatal:
        raise _Abort(fatal[0])


# ==================================================================================================
# read-only queries
# ==================================================================================================
QUERIES = ["find_reg", "find_reg", "get_reg", "get_registers", "get_registers", "get_reg_names", "get_reg_names", "len_iter", "bitfields",
           "bitfield_lookup", "enum_queries", "reg_values", "get_diff", "image_info", "otp_index"]


def gen_query(rng, b: Bench):
    lay = b.lay
    q = core.pick(rng, QUERIES)
    op: dict = {"op": "query", "q": q}
    names = [r.name for r in lay.regs] + [s.name for r in lay.regs for s in r.subs]
    uids = [r.uid for r in lay.regs] + [s.uid for r in lay.regs for s in r.subs]
    if q == "find_reg":
        op["name"] = core.pick(rng, names + uids + ["NO_SUCH", ""]) if names else "NO_SUCH"
        op["inc"] = rng.random() < 0.5
    elif q == "get_reg":
        op["uid"] = core.pick(rng, uids + names[:2] + ["no-such-uid"])
    elif q in ("get_registers", "get_reg_names"):
        c = rng.randrange(5)
        op["exclude"] = None if c == 0 else [] if c == 1 else [core.pick(rng, names)[: rng.randrange(1, 9)] for _ in range(rng.randrange(1, 3))] if names else None
        op["inc"] = rng.random() < 0.5
        op["kw"] = rng.random() < 0.5
    elif q in ("bitfields", "reg_values"):
        p = pick_reg(rng, b)
        if p is None:
            return None
        op["reg"] = p[0]
        if q == "bitfields":
            t = p[1]
            op["exclude"] = None if rng.random() < 0.5 or not t.fields else [core.pick(rng, t.fields).name[: rng.randrange(1, 12)]]
        else:
            op["raw"] = rng.random() < 0.5
    elif q in ("bitfield_lookup", "enum_queries"):
        p = pick_field(rng, b)
        if p is None:
            return None
        op["reg"], op["field"] = p[0], p[1]
        if q == "bitfield_lookup" and rng.random() < 0.3:
            op["field"] = {"by": core.pick(rng, ["name", "uid"]), "key": "NO_SUCH_FIELD"}
        if q == "enum_queries":
            f = p[3]
            op["enum"] = core.pick(rng, [e[0] for e in f.enums] + ["NO_SUCH_ENUM"])
    elif q == "otp_index":
        if not b.fuse:
            return None
        op["index"] = rng.randrange(0, 40)
    return op


def _q(b: Bench, op: dict, fn):
    ro = call_real(b, op, fn)
    if ro[0] == "error":
        b.fail(f"escape:query:{op['q']}:{type(ro[1]).__name__}", {"op": op, "error": core.exc_brief(ro[1])})
    return ro


def _expect(b: Bench, op: dict, what: str, got, exp) -> None:
    if got != exp:
        b.fail(f"query-wrong-result:{op['q']}:{what}", {"op": op, "real": core.jsonable(got), "model": core.jsonable(exp)})


def _ident(x) -> tuple:
    return (x.name, x.uid, x.offset, x.width)


def apply_query(b: Bench, op: dict) -> None:  # noqa: C901
    lay, real, q = b.lay, b.real, op["q"]
    if q in ("find_reg", "get_reg"):
        if q == "find_reg":
            mo = model_try(lambda: lay.find(op["name"], op["inc"]))
            ro = _q(b, op, lambda: real.find_reg(op["name"], include_group_regs=op["inc"]))
        else:
            mo = model_try(lambda: lay.get_by_uid(op["uid"]))
            ro = _q(b, op, lambda: real.get_reg(op["uid"]))
        _expect(b, op, "found", ro[0] == "ok", mo[0] == "ok")
        if mo[0] == "ok":
            _expect(b, op, "identity", _ident(ro[1]), _ident(mo[1]))
            top = mo[1].parent or mo[1]
            x = real._registers[lay.regs.index(top)]
            want = x if mo[1].parent is None else x.sub_regs[top.subs.index(mo[1])]
            if ro[1] is not want:
                b.fail(f"query-returns-a-different-object:{q}", {"op": op})
        return
    if q in ("get_registers", "get_reg_names"):
        fn = getattr(real, q)
        if op["kw"]:
            ro = _q(b, op, lambda: fn(exclude=op["exclude"], include_group_regs=op["inc"]))
        else:
            ro = _q(b, op, lambda: fn(op["exclude"], op["inc"]))
        exp = lay.registers(op["exclude"], op["inc"])
        _expect(b, op, "answered", ro[0], "ok")
        if q == "get_registers":
            _expect(b, op, "list", [_ident(x) for x in ro[1]], [_ident(m) for m in exp])
            if ro[1] is real._registers:
                b.fail("get_registers-returns-internal-list", {"op": op})
        else:
            _expect(b, op, "list", list(ro[1]), [m.name for m in exp])
        return
    if q == "len_iter":
        ro = _q(b, op, lambda: (len(real), [_ident(x) for x in real]))
        _expect(b, op, "len-and-order", ro[1], (len(lay.regs), [_ident(m) for m in lay.regs]))
        return
    if q == "bitfields":
        mt = model_reg(b, op["reg"])
        ro = _q(b, op, lambda: (lambda x: ([f.name for f in x.get_bitfields(op["exclude"])], x.get_bitfield_names(op["exclude"]), x.has_group_registers()))(real_reg(b, op["reg"])))
        _expect(b, op, "answered", ro[0], "ok")
        exp = [f.name for f in mt.visible_fields(op["exclude"])]
        _expect(b, op, "names", ro[1], (exp, exp, mt.is_group))
        return
    if q == "bitfield_lookup":
        mleaf = model_reg(b, op["reg"])
        mo = model_try(lambda: model_field(mleaf, op["field"]))
        ro = _q(b, op, lambda: (lambda f: (f.name, f.uid, f.offset, f.width, f.get_value(), f.get_hex_value(), f.get_enum_value(), f.get_reset_value(), f.has_enums()))(
            real_field(real_reg(b, op["reg"]), op["field"])))
        _expect(b, op, "found", ro[0] == "ok", mo[0] == "ok")
        if mo[0] == "ok":
            f = mo[1]
            _expect(b, op, "attributes", ro[1], (f.name, f.uid, f.offset, f.width, f.get(), f.hex(), f.enum_or_hex(), f.reset_cfg, bool(f.enums)))
        return
    if q == "enum_queries":
        f = model_field(model_reg(b, op["reg"]), op["field"])
        ro = _q(b, op, lambda: real_field(real_reg(b, op["reg"]), op["field"]).get_enum_names())
        _expect(b, op, "names", ro[1] if ro[0] == "ok" else ro[0], [e[0] for e in f.enums])
        exp = next((v for n, v in f.enums if n == op["enum"]), None)
        ro = _q(b, op, lambda: real_field(real_reg(b, op["reg"]), op["field"]).get_enum_constant(op["enum"]))
        _expect(b, op, "constant", ro[1] if ro[0] == "ok" else None, exp)
        return
    if q == "reg_values":
        mt = model_reg(b, op["reg"])
        raw = op["raw"]
        ro = _q(b, op, lambda: (lambda x: (x.get_value(raw), x.get_hex_value(raw), x.get_bytes_value(raw), x.get_reset_value()))(real_reg(b, op["reg"])))
        _expect(b, op, "answered", ro[0], "ok")
        v = mt.get(raw)
        exp = (v, mt.hex(raw), v.to_bytes(mt.class_width(v) // 8, lay.endian), mt.reset)
        if ro[1] != exp:
            vi = mt.get_inferred(raw)
            if mt.reverse and mt.alt_widths and ro[1][:3] == (vi, mt.hex(raw, inferred=True), vi.to_bytes(mt.class_width(vi) // 8, lay.endian)):
                b.fail(KNOWN_ALTWIDTH, {"op": op, "real": core.jsonable(ro[1][:2]), "model": core.jsonable(exp[:2]), "via": "get_value/get_hex_value"}, fatal=False)
                ro = ("ok", exp[:3] + ro[1][3:])
            if ro[1][:3] == exp[:3] and mt.is_group and ro[1][3] == 0 and exp[3] != 0:
                b.fail("group-reset-ignores-subregister-reset-values", {"op": op, "get_reset_value": ro[1][3], "model": mt.reset,
                                                                        "sub_register_reset_values": [s.reset for s in mt.subs]})
            if ro[1][:3] == exp[:3] and not mt.is_group and shift_reset_field(mt):
                b.fail("reset-value-ignores-config-processor-of-bitfield", {"op": op, "get_reset_value": ro[1][3], "model": mt.reset})
            _expect(b, op, "values", ro[1], exp)
        return
    if q == "get_diff":
        fb = b.fresh()
        ro = _q(b, op, lambda: [(a.name, c.name) for a, c in real.get_diff(fb.real)])
        exp = []
        for r1, r2 in zip(lay.registers(), fb.lay.registers()):
            if not r1.visible_fields():
                if r1.get() != r2.get():
                    exp.append((r1.name, r2.name))
            else:
                exp += [(f1.name, f2.name) for f1, f2 in zip(r1.visible_fields(), r2.visible_fields()) if f1.get() != f2.get()]
        if ro[1] != exp and any(r.reverse and r.alt_widths for r in lay.regs):
            return  # the logical view of such registers is judged by the state comparison (length-class finding)
        _expect(b, op, "differences", ro[1], exp)
        return
    if q == "image_info":
        ro = _q(b, op, lambda: len(real.image_info()))
        _expect(b, op, "length", ro[1] if ro[0] == "ok" else ro[0], lay.size())
        return
    if q == "otp_index":
        exp = None
        for r in lay.regs:
            for cand in [r] + r.subs:
                if exp is None and b.otp.get(id(cand)) == op["index"]:
                    exp = cand
        ro = _q(b, op, lambda: real.get_by_otp_index(op["index"]))
        _expect(b, op, "found", ro[0] == "ok", exp is not None)
        if exp is not None:
            _expect(b, op, "identity", _ident(ro[1]), _ident(exp))
        return
    raise core.Inconclusive(f"unknown query {q}")


def judge_schema(b: Bench, op: dict, schema: dict) -> None:
    lay = b.lay
    props = schema.get("properties", {}) if isinstance(schema, dict) else None
    if props is None:
        b.fail("query-wrong-result:get_validation_schema:shape", {"op": op})
    names = [r.name for r in lay.registers()]
    if sorted(props) != sorted(set(names)):
        b.fail("query-wrong-result:get_validation_schema:registers", {"real": sorted(props)[:20], "model": sorted(set(names))[:20]})
    for r in lay.registers():
        if names.count(r.name) > 1:
            continue
        one = props[r.name]["oneOf"]
        tv = one[0]["template_value"]
        if tv != r.hex() and not (r.reverse and r.alt_widths and tv == r.hex(inferred=True)):
            b.fail("query-wrong-result:get_validation_schema:template_value", {"register": r.name, "real": tv, "model": r.hex()})
        fnames = [f.name for f in r.fields]
        if r.fields:
            fp = one[-1]["properties"]
            for f in r.fields:
                if fnames.count(f.name) > 1 or not f.in_range or f.reg is not r:
                    continue
                want = f.enum_or_hex() if f.enums else f.get()
                if fp[f.name]["template_value"] != want:
                    b.fail("query-wrong-result:get_validation_schema:bitfield-template_value",
                           {"register": r.name, "bitfield": f.name, "real": fp[f.name]["template_value"], "model": want})


# ==================================================================================================
# sequences
# ==================================================================================================
def new_bench(ctx, desc: dict):
    try:
        b = Bench(ctx, desc)
    except bitvec.SpecError as e:
        ctx.note("specification_refused_by_the_documented_loader_rules", f"{desc.get('tag', 'synthetic')}: {e}")
        return None
    b.otp = {}
    if b.fuse:
        idx = {r.get("id", ""): bitvec.to_int(r["index_int"]) for g in b.spec.get("groups", []) for r in g.get("registers", []) if "index_int" in r}
        for lf in b.lay.all_leaves():
            if lf.uid in idx:
                b.otp[id(lf)] = idx[lf.uid]
    return b


def run_ops(ctx, b: Bench, ops, sig, sample=None) -> int:
    """Run an iterable of operations (None entries are skipped); returns the number judged."""
    done = 0
    try:
        b.check_structure()
        b.judge_state({"op": "load"}, b.lay.snapshot(), set(range(len(b.lay.regs))))
        for op in ops:
            if op is None:
                continue
            apply_op(b, op)
            done += 1
    except _Abort:
        pass
    if done:
        ctx.ok(sig, n=done, sample=sample)
    return done


def run_random(ctx, desc: dict, sig) -> None:
    rng = ctx.rng
    b = new_bench(ctx, desc)
    if b is None:
        return
    nops = rng.randrange(1, 41)
    last: list = []

    def ops():
        for _ in range(nops):
            op = None
            for _try in range(6):
                op = gen_op(rng, b)
                if op is not None:
                    break
            if op is not None:
                last[:] = [op]
            yield op

    n = run_ops(ctx, b, ops(), sig)
    if n and last and ctx._samples < ctx.MAX_SAMPLES:
        ctx.sample({"case": ctx.case_index, "sig": sig, "operations": n, "last_operation": last[0]})
    ctx.count("sequences")


# ==================================================================================================
# directed cases (deterministic witnesses)
# ==================================================================================================
def _first_real(pred):
    """First real layout (database order) whose model layout satisfies ``pred``; (layout, model) or (None, None)."""
    for L in real_layouts():
        try:
            with open(L["file"], encoding="utf-8") as f:
                lay = bitvec.layout_from_spec(json.load(f), L["grouped"], "little")
        except (bitvec.SpecError, OSError, ValueError):
            continue
        if pred(L, lay):
            return L, lay
    return None, None


def _synthetic_altwidth(fuse: bool = False) -> dict:
    regs = [{"id": f"h{i}", "name": f"ROTKH{i}", "offset_int": hex(0x10 + 4 * i), "reg_width": "32", "index_int": hex(i)} for i in range(12)]
    regs.append({"id": "tail", "name": "TAIL", "offset_int": hex(0x40), "reg_width": "32", "index_int": "0xc"})
    return {"kind": "synthetic", "spec": {"groups": [{"registers": regs}]}, "fuse": fuse,
            "grouped": [{"uid": "rotkh", "name": "ROTKH", "width": 384, "reversed": True, "config_as_hexstring": True, "alternative_widths": [256],
                         "sub_regs": [f"h{i}" for i in range(12)]}]}


def directed(ctx, name: str) -> None:  # noqa: C901
    rng = ctx.rng
    if name == "known-altwidth-length-class":
        L, lay = _first_real(lambda L, lay: any(r.reverse and r.alt_widths and r.well_formed() for r in lay.regs) and not L["fuse"])
        desc = dict(L, kind="real", endian="little") if L else dict(_synthetic_altwidth(), endian="little")
        b = new_bench(ctx, desc)
        g = next(r for r in b.lay.regs if r.reverse and r.alt_widths and r.well_formed())
        W, A = g.width, min(g.alt_widths)
        ref = {"by": "name", "key": g.name, "inc": False}
        hi = ((rng.getrandbits(W - A) | 1 << (W - A - 1)) << A)  # W/8-byte value whose low A/8 bytes are zero
        ops = [{"op": "reg_set", "reg": ref, "value": rng.getrandbits(A) | 1 << (A - 1) | 1, "raw": False},   # control: narrow class reads back
               {"op": "reg_set", "reg": ref, "value": rng.getrandbits(W) | 1 << (W - 1) | 1, "raw": False},   # control: full width reads back
               {"op": "reg_set", "reg": ref, "value": 1 << (W - 4), "raw": False},
               {"op": "reg_set", "reg": ref, "value": hi, "raw": False},
               {"op": "get_config", "diff": True},
               {"op": "query", "q": "reg_values", "reg": ref, "raw": False}]
        run_ops(ctx, b, ops, ["directed", name, b.where()["layout"]])
        if KNOWN_ALTWIDTH not in b.reported:
            ctx.note("known_finding_not_observed", KNOWN_ALTWIDTH)
        return

    if name == "altwidth-narrow-after-wide":
        for endian, fuse in (("little", False), ("big", True)):
            L, lay = _first_real(lambda L, lay: any(r.alt_widths and r.well_formed() for r in lay.regs) and L["fuse"] == fuse)  # noqa: B023
            desc = dict(L, kind="real", endian=endian) if L else dict(_synthetic_altwidth(fuse), endian=endian)
            for variant in ("set", "reset"):
                b = new_bench(ctx, desc)
                g = next(r for r in b.lay.regs if r.alt_widths and r.well_formed())
                W, A = g.width, min(g.alt_widths)
                ref = {"by": "name", "key": g.name, "inc": False}
                ops = [{"op": "reg_set", "reg": ref, "value": rng.getrandbits(W) | 1 << (W - 1) | 1, "raw": False},
                       {"op": "reg_set", "reg": ref, "value": rng.getrandbits(A) | 1 << (A - 1) | 1, "raw": False} if variant == "set"
                       else {"op": "reset_all", "exclude": None}]
                run_ops(ctx, b, ops, ["directed", name, b.where()["layout"], endian, variant])
        return

    if name == "group-reset":
        L, lay = _first_real(lambda L, lay: any(r.is_group and r.reset and r.well_formed() and not r.alt_widths for r in lay.regs))
        if L:
            desc = dict(L, kind="real", endian="little")
        else:
            regs = [{"id": f"k{i}", "name": f"KEY{i}", "offset_int": hex(4 * i), "reg_width": "32", "reset_value_int": "0xffffffff"} for i in range(2)]
            desc = {"kind": "synthetic", "spec": {"groups": [{"registers": regs}]}, "fuse": False, "endian": "little",
                    "grouped": [{"uid": "key", "name": "KEY", "sub_regs": ["k0", "k1"]}]}
        for variant in ("reset_values", "get_reset_value", "diff-config"):
            b = new_bench(ctx, desc)
            g = next(r for r in b.lay.regs if r.is_group and r.reset and r.well_formed())
            ref = {"by": "name", "key": g.name, "inc": False}
            ops = {"reset_values": [{"op": "reset_all", "exclude": None}],
                   "get_reset_value": [{"op": "query", "q": "reg_values", "reg": ref, "raw": True}],
                   "diff-config": [{"op": "reg_set", "reg": ref, "value": 0, "raw": True}, {"op": "config_fresh", "diff": True}]}[variant]
            run_ops(ctx, b, ops, ["directed", name, b.where()["layout"], variant])
        return

    if name == "include-group-regs":
        L, lay = _first_real(lambda L, lay: any(r.is_group for r in lay.regs) and not L["fuse"])
        desc = dict(L, kind="real", endian="little") if L else dict(_synthetic_altwidth(), endian="little")
        b = new_bench(ctx, desc)
        q = {"op": "query", "q": "get_registers", "exclude": None, "inc": True, "kw": True}
        run_ops(ctx, b, [q, dict(q, q="get_reg_names", kw=False), q, {"op": "export", "size": 0, "pattern": "zeros"}],
                ["directed", name, b.where()["layout"]])
        return

    if name == "negative-value-hang":
        for width, reversed_group in ((32, False), (64, True)):
            if reversed_group:
                regs = [{"id": f"s{i}", "name": f"S{i}", "offset_int": hex(4 * i), "reg_width": "32"} for i in range(2)]
                grouped = [{"uid": "g", "name": "G", "sub_regs": ["s0", "s1"], "reversed": True}]
                target = "G"
            else:
                regs, grouped, target = [{"id": "r", "name": "R", "offset_int": "0x0", "reg_width": "32"}], [], "R"
            b = new_bench(ctx, {"kind": "synthetic", "spec": {"groups": [{"registers": regs}]}, "grouped": grouped, "fuse": False, "endian": "big"})
            b.check_structure()
            x = b.real.find_reg(target)
            for stage, fn in (("set_value(-5)", lambda: x.set_value(-5)), ("export()", b.real.export)):  # noqa: B023
                _MON["tripped"] = None
                try:
                    with budget(stage):
                        fn()
                except core.StepBudgetExceeded as e:
                    b.fail("step-budget-exceeded:" + budget_site(e), {"stage": stage, "register_width": width, "reversed": reversed_group, "what": str(e)}, fatal=False)
                    break
                except Exception as e:  # pylint: disable=broad-except
                    if core.is_refusal(e):
                        ctx.refused(["directed", name, stage], core.exc_brief(e))
                        break
                    raise
            _MON["tripped"] = None
            ctx.ok(["directed", name, width, reversed_group])
            ctx.count("ops_judged")
        return

    if name == "range-boundaries":
        widths = [8, 16, 32, 64, 128, 512]
        regs = []
        off = 0
        for i, w in enumerate(widths):
            fields, o, k = [], 0, 0
            for fw in ([1, 2, 5] if w == 8 else [1, 3, 4, 8] if w == 16 else [1, 7, 8, 16] if w == 32 else [31, 33] if w == 64 else [63, 64, 1] if w == 128 else [65, 128, 300, 19]):
                fields.append({"id": f"r{i}f{k}", "name": f"R{i}_F{k}", "width": str(fw)})
                o += fw
                k += 1
            assert o == w, (w, o)
            regs.append({"id": f"r{i}", "name": f"R{i}", "offset_int": hex(off), "reg_width": str(w), "bitfields": fields})
            regs.append({"id": f"p{i}", "name": f"P{i}", "offset_int": hex(off + w // 8), "reg_width": str(w)})
            off += w // 4
        desc = {"kind": "synthetic", "spec": {"groups": [{"registers": regs}]}, "grouped": [], "fuse": False, "endian": "little"}
        lay = bitvec.layout_from_spec(desc["spec"], [], "little")
        probes = []
        for r in lay.regs:
            ref = {"by": "name", "key": r.name, "inc": False}
            for f in r.fields:
                for v in (f.mask, 1 << f.width, (1 << f.width) + 1, -1, -(1 << f.width), 1 << 600, hex(1 << f.width), str((1 << f.width) - 1)):
                    probes.append({"op": "field_set", "reg": ref, "field": {"by": "name", "key": f.name}, "value": v, "raw": False, "nop": False})
                probes.append({"op": "load_config", "cfg": {r.name: {f.name: 1 << f.width}}})
                probes.append({"op": "field_enum", "reg": ref, "field": {"by": "name", "key": f.name}, "value": -1, "raw": True})
            if not r.fields:
                for v in ((1 << r.width) - 1, 1 << r.width, (1 << r.width) + 1, -1, 1 << 600, hex(1 << r.width)):
                    for raw in (False, True):
                        probes.append({"op": "reg_set", "reg": ref, "value": v, "raw": raw})
                probes.append({"op": "load_config", "cfg": {r.name: 1 << r.width}})
        n = 0
        for p in probes:
            b = new_bench(ctx, desc)
            b.reported = set()
            fill = {"op": "parse", "data": core.rand_bytes(rng, b.lay.size()).hex()}
            n += run_ops(ctx, b, [fill, p], ["directed", name, p["op"]])
        ctx.count("boundary_probes", len(probes))
        return

    if name == "altwidth-export-big-endian":
        for endian in ("big", "little"):
            b = new_bench(ctx, dict(_synthetic_altwidth(), endian=endian))
            ref = {"by": "name", "key": "ROTKH", "inc": False}
            run_ops(ctx, b, [{"op": "reg_set", "reg": ref, "value": 0x1122334455, "raw": True}, {"op": "export", "size": 0, "pattern": "zeros"},
                             {"op": "parse_export_fresh"}], ["directed", name, endian])
        return

    raise core.Inconclusive(f"unknown directed case {name}")


DIRECTED = ["known-altwidth-length-class", "altwidth-narrow-after-wide", "group-reset", "include-group-regs", "negative-value-hang",
            "range-boundaries", "altwidth-export-big-endian"]


# ==================================================================================================
# framework entry points
# ==================================================================================================
def selftest(ctx):
    out = {"bitvec": bitvec.selftest()}
    # the step budget must trip on a pure loop in repository code and must not fire for a long harness loop
    install_step_budget()
    from spsdk.utils import misc

    for _ in range(STEP_LIMIT // 100):
        pass
    with budget("selftest: 512-bit value"):
        misc.get_bytes_cnt_of_int(1 << 511, align_to_2n=False)
    out["steps_for_512_bit_value"] = _Budget.max_seen
    if not 32 <= _Budget.max_seen <= 200:
        raise core.Inconclusive(f"step counter implausible: {_Budget.max_seen} jumps for a 64-iteration loop")
    tripped = False
    try:
        with budget("selftest: 10000-byte value", 1000):
            misc.get_bytes_cnt_of_int(1 << 80000, align_to_2n=False)
    except core.StepBudgetExceeded:
        tripped = True
    if not tripped:
        raise core.Inconclusive("step budget did not trip on a 10000-iteration loop with limit 1000")
    _Budget.max_seen = 0
    out["step_budget"] = "trips"
    out["real_layouts"] = len(real_layouts())
    return out


def cases(tier, seed):
    yield {"kind": "repo-tests"}
    for name in DIRECTED:
        yield {"kind": "directed", "name": name}
    thorough = tier == "thorough"
    # real layouts: slot j drives the layouts j, j + slots, ... of the (sorted) database enumeration; small cases so that the
    # wall-clock watchdog of a case is never near, even on a loaded machine
    slots = 128 if thorough else 48
    for chunk in range(8 if thorough else 1):
        for j in range(slots):
            for endian in ("little", "big"):
                # the slot is rotated per chunk so that a large layout is not handled by the same shard every time
                yield {"kind": "real", "slot": (j + 5 * chunk) % slots, "of": slots, "endian": endian, "chunk": chunk, "seqs": 5 if thorough else 1}
    n_syn, per = (1600, 20) if thorough else (220, 14)
    for k in range(n_syn):
        yield {"kind": "synthetic", "k": k, "seqs": per}


def run_case(case, ctx):
    _MON["ctx"] = ctx
    _MON["tripped"] = None
    _MON["depth"] = 0  # a wall-clock case timeout may have interrupted a hook of the previous case anywhere
    _MON["op"] = None
    _Budget.armed = False
    rng = ctx.rng
    kind = case["kind"]
    if kind == "repo-tests":
        run_repo_tests(ctx)
    elif kind == "directed":
        directed(ctx, case["name"])
    elif kind == "real":
        Ls = real_layouts()
        mine = [L for i, L in enumerate(Ls) if i % case["of"] == case["slot"]]
        endian = case["endian"]
        for L in mine:
            if case["chunk"] == 0 and endian == "little":
                ctx.count("fuse_layouts" if L["fuse"] else "real_layouts")
            for _ in range(case["seqs"]):
                run_random(ctx, dict(L, kind="real", endian=endian), ["real", L["tag"], endian, "FuseRegisters" if L["fuse"] else "Registers"])
    elif kind == "synthetic":
        for _ in range(case["seqs"]):
            fuse = rng.random() < 0.25
            spec, grouped, feats = gen_synthetic(rng, fuse)
            endian = core.pick(rng, ["big", "little"])
            # a file without groups is, every third time, put together register by register through add_register()
            via = "add_register" if not grouped and rng.random() < 0.34 else "spec"
            run_random(ctx, {"kind": "synthetic", "spec": spec, "grouped": grouped, "fuse": fuse, "endian": endian, "via": via},
                       ["synthetic", sorted(feats), endian, "FuseRegisters" if fuse else "Registers", via])
    else:
        raise core.Inconclusive(f"unknown case kind {kind}")
    ctx.note("max_steps_in_one_call", _Budget.max_seen - _Budget.max_seen % 1000)


def extra_coverage(events, counters):
    files, mechs, synth_feats = set(), {}, set()
    for ev in events:
        if ev.get("t") == "ok" and "sig" in ev:
            sig = json.loads(ev["sig"])
            if sig and sig[0] == "real":
                files.add(sig[1])
            elif sig and sig[0] == "synthetic":
                synth_feats.update(sig[1])
        elif ev.get("t") == "viol":
            mechs[ev["mech"]] = mechs.get(ev["mech"], 0) + 1
    return {"real_spec_files_driven": len(files), "synthetic_features_seen": sorted(synth_feats), "mechanisms_observed": mechs,
            "hooks_reached": {k: counters.get(k, 0) for k in ("m_reg_invariant", "m_reg_digest", "step_budget_armed")}}


def escape_mechanism(case, exc):
    if isinstance(exc, core.StepBudgetExceeded):
        return "step-budget-exceeded:" + budget_site(exc)
    return None


# ==================================================================================================
# the repository's own register tests as an extra workload for the M-REG hooks (DESIGN 1.2a)
# this module doubles as a pytest plugin:  pytest -p vf.props.c11   with VF_C11_PYTEST_LOG=<file>
# ==================================================================================================
class _LogCtx:
    def __init__(self, path: str):
        self.path = path
        self.counters: dict = {}
        self.violations: list = []

    def count(self, name: str, n: int = 1) -> None:
        self.counters[name] = self.counters.get(name, 0) + n

    def violation(self, mech: str, detail=None) -> None:
        if len(self.violations) < 50:
            test = os.environ.get("PYTEST_CURRENT_TEST", "")
            self.violations.append({"mech": mech, "detail": core.jsonable(detail), "test": test})

    def note(self, *_a) -> None:
        pass

    def flush(self) -> None:
        with open(self.path, "w", encoding="utf-8") as f:
            json.dump({"counters": self.counters, "violations": self.violations}, f)


def pytest_configure(config):  # noqa: ARG001
    path = os.environ.get("VF_C11_PYTEST_LOG")
    if not path or not os.environ.get(core.GUARD):
        return
    import spsdk

    if not os.path.abspath(spsdk.__file__).startswith(_REPO_PREFIX):
        return
    _MON["pytest_ctx"] = _LogCtx(path)
    install_monitors(_MON["pytest_ctx"], harness=False)


def pytest_unconfigure(config):  # noqa: ARG001
    c = _MON.get("pytest_ctx")
    if c is not None:
        c.flush()


REPO_TESTS = {"quick": ["tests/utils/test_registers.py", "tests/utils/test_fuses.py"],
              "thorough": ["tests/utils/test_registers.py", "tests/utils/test_fuses.py", "tests/pfr/test_pfr.py", "tests/fuses/fuses"]}


def run_repo_tests(ctx) -> None:
    import subprocess

    root = core.repo_root()
    mods = [m for m in REPO_TESTS[ctx.tier] if os.path.exists(os.path.join(root, m))]
    os.makedirs(ctx.workdir, exist_ok=True)
    log = os.path.join(ctx.workdir, "c11_pytest.json")
    env = dict(os.environ, VF_C11_PYTEST_LOG=log, PYTHONPATH=f"{root}:{core.VERIF_ROOT}")
    try:
        r = subprocess.run([sys.executable, "-m", "pytest", "-q", "-p", "no:cacheprovider", "-p", "vf.props.c11", "--basetemp",
                            os.path.join(ctx.workdir, "pytest-tmp")] + mods, cwd=root, env=env, capture_output=True, text=True, timeout=240, check=False)
        tail = (r.stdout.strip().splitlines() or ["?"])[-1][:120]
    except subprocess.TimeoutExpired:
        ctx.note("repository_tests_under_m_reg", "timed out (not judged)")
        return
    if not os.path.exists(log):
        ctx.note("repository_tests_under_m_reg", "no monitor log (not judged): " + tail)
        return
    with open(log, encoding="utf-8") as f:
        data = json.load(f)
    ctx.note("repository_tests_under_m_reg", {"modules": mods, "pytest": tail, "hook_evaluations": data["counters"]})
    for k, v in data["counters"].items():
        ctx.count("repo_tests_" + k, v)
    seen = set()
    for v in data["violations"]:
        if v["mech"] not in seen:  # one witness per mechanism
            seen.add(v["mech"])
            ctx.violation(v["mech"], {"workload": "repository test under the M-REG hooks", "test": v["test"], "detail": v["detail"]})
    if data["counters"].get("m_reg_invariant", 0) and not data["violations"]:
        ctx.ok(["repository tests under M-REG", mods], n=1)
