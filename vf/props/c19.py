"""C19 - BD command files mean what they say.

Runtime monitoring: BD programs are generated *from the grammar* of docs/usage/elf2sb.md (supported
subset), handed to the real ``BDParser().parse`` and then to ``BootImageV21.load_from_config`` (the two
steps behind ``nxpimage sb21 export -c file.bd``); the configuration dictionary, the parser's constant
table and the resulting command objects are compared with what the independent reference interpreter
``vf/refs/bd_ref.py`` derives from the same text.  Three outcomes per program: equal, refused (SPSDK
raises), different (violation).  Constructs the document marks "not supported" must raise.  A sample of
programs goes through the command line (CliRunner) and the produced .sb file is decrypted and decoded by
the reference's own SB2.1 decoder.  ``sys.monitoring`` PY_START events on the code objects of
``sly_bd_parser.py`` / ``sly_bd_lexer.py`` give rule coverage (which grammar actions really ran).
"""
from __future__ import annotations

import copy
import hashlib
import itertools
import os
import sys

from vf import core
from vf.refs import bd_ref

ID = "C19"
LEVEL = "exploration"
TECHNIQUE = ("runtime monitoring: differential oracle (hand-written reference interpreter of the BD grammar) over "
             "grammar-generated programs, at the parser output, the command objects and the CLI-produced file; "
             "sys.monitoring rule coverage")
RULE = (
    "programs generated from the grammar: 0..6 options/constants/sources/keyblob blocks in any order (several "
    "definitions per line, constants referring to earlier constants, extern(), string sources, key blobs with ids in "
    "any order), 1..4 sections with 0..8 statements over every supported statement form (load pattern/blob/file/source "
    "to address or range with and without memory option, fuse/ifr program from integer and 4/8-byte blob, erase "
    "range/address/all/unsecure all, enable, jump with and without argument, jump_sp, call, reset, version_check "
    "sec/nsec, keystore_to_nv/from_nv, encrypt, keywrap), expression trees of depth <= 5 over + - * / % << >> & | ^ "
    "unary +/- printed with minimal parentheses (unary operands bare in half of the programs), || && == != < <= > >= ! "
    "defined() over them, .b/.h/.w, decimal/hex/K/character/true/false/yes/no literals, comments in all three styles; "
    "'expr' cases: 10 constants per program, one expression each (precise witnesses); each unsupported construct spliced "
    "into a valid program (must raise); directed witnesses of every known mechanism; a CLI sample whose output file is "
    "decrypted and decoded by the reference.  Signature = (blocks present, statement kinds, stage reached); non-trivial "
    "= SPSDK accepted the program and the comparison was made (or an unsupported construct was tried)."
)
ASSUMPTIONS = [
    "language semantics = docs/usage/elf2sb.md + the elftosb-made goldens in tests/nxpimage/data/sb_sources "
    "(vf/refs/bd_ref.py, self-tested against 5 goldens / 68 commands, decoded by its own decoder and by vf/refs/sb2_rom.py)",
    "/, %, >> and << only get non-negative operands, shift counts 0..31, non-zero divisors; statement operands lie in "
    "0..2^32-1 (a correct evaluation never sees anything else; an implementation that regroups operands may)",
    "an integer-size suffix is only generated on a literal/constant that is a complete (possibly parenthesised) "
    "expression: the document gives '.' no precedence",
    "operands that directly follow a keyword with an optional memory name do not start with an identifier, and an "
    "operand after '@<expr>' or after jump_sp's first expression does not start with '(' '+' '-' (the grammar is "
    "ambiguous there); option names are not used inside expressions; no identifier is defined twice",
    "not judged (left open by the documents): fill pattern width where 'declared size' and 'magnitude' differ, count of a "
    "fill without range for .b/.h values or over an empty range, count of 'erase <address>', count/data words of "
    "key-store commands, 8-byte-group swapping and counter base of encrypted loads (the goldens show the legacy default "
    "'swap unless noByteSwap = 1', the document says 'byteSwap = true for byte swap'), section ids at command level (SPSDK "
    "numbers sections by position), padding of a load up to the next 16-byte boundary (C04's sb2-load-count-padded)",
    "section options ('section (1; name = value)') are documented as 'not supported, raises syntax error' but "
    "tests/nxpimage/test_bd_compiler.py requires them to parse: observed, not judged",
    "any exception raised by SPSDK counts as 'refused' (the CLI turns SPSDKError and KeyError into an error message); a "
    "shard is inconclusive when fewer than 60 % of its generated programs are accepted by the parser",
    "OTFAD encryption itself is C13's subject: C19 only requires that the data is the plain data encrypted under the "
    "key blob the program selects, and left as given when that key blob's end address has ADE/VLD not both set (the engine "
    "passes such a context through); character literals occur in ~12 % of the programs only (two on one line are "
    "mis-tokenised, which would otherwise turn most programs into refusals)",
]
REQUIRED_COUNTERS = ["programs", "config_compared", "commands_compared", "unsupported_tried", "cli_runs",
                     "grammar_actions_executed", "directed"]
CASE_TIMEOUT_S = 900
WATCHDOG_S = {"quick": 900, "thorough": 3600}

U32 = 0xFFFFFFFF

MECH = {
    "times-is-minus": "bd-times-evaluated-as-minus",
    "int-size-mask-halved": "bd-int-size-suffix-mask-halved",
    "defined-always-false": "bd-defined-always-false",
    "string-literal-greedy": "bd-string-literal-greedy",
    "char-literal-greedy": "bd-char-literal-greedy",
    "logical-op-returns-operand": "bd-logical-op-returns-operand",
    "fill-range-length-ignored": "bd-fill-range-length-ignored",
    "blob-as-le-word": "bd-blob-byte-order",
    "fuse-blob-by-magnitude": "bd-fuse-blob-leading-zero-bytes",
    "unary-binds-looser-than-multiplicative": "bd-unary-minus-binds-looser-than-multiplicative",
}
PARSE_QUIRKS = ["times-is-minus", "int-size-mask-halved", "defined-always-false", "string-literal-greedy",
                "char-literal-greedy", "logical-op-returns-operand", "unary-binds-looser-than-multiplicative"]
CMD_QUIRKS = ["fill-range-length-ignored", "blob-as-le-word", "fuse-blob-by-magnitude"]


# ------------------------------------------------------------------------------------------
# framework entry points


def selftest(ctx):
    data_dir = os.path.join(core.repo_root(), "tests", "nxpimage", "data")
    out = bd_ref.selftest(data_dir)
    out["sb2_rom_available"] = os.path.exists(os.path.join(core.VERIF_ROOT, "vf", "refs", "sb2_rom.py"))
    return out


def cases(tier, seed):
    thorough = tier == "thorough"
    yield {"kind": "directed"}
    yield {"kind": "unsupported", "k": 0, "n": 3 if thorough else 1}
    for k in range(1, 8 if thorough else 3):
        yield {"kind": "unsupported", "k": k, "n": 3 if thorough else 1}
    for k in range(12 if thorough else 4):
        yield {"kind": "cli", "k": k, "n": 8 if thorough else 5}
    for k in range(100 if thorough else 20):
        yield {"kind": "expr", "k": k, "n": 400 if thorough else 150}
    # 150 000 programs in the thorough tier (8 ms CPU per program: a few minutes on 16 idle cores)
    n_gen, per = (1500, 100) if thorough else (400, 50)
    for k in range(n_gen):
        yield {"kind": "gen", "k": k, "n": per}


# ------------------------------------------------------------------------------------------
# monitors: rule coverage through sys.monitoring

_MON = {"counts": {}, "labels": {}, "tool": None}
_ENV: dict = {}


def install_monitors(ctx):
    import resource

    from spsdk.sbfile.sb2 import sly_bd_lexer, sly_bd_parser

    # An implementation that mis-evaluates an operand can arrive at '1 << 3000000000': with a cap on the address space
    # that is a MemoryError (= refused) instead of a visit of the kernel's OOM killer to the whole shard.
    try:
        soft, hard = resource.getrlimit(resource.RLIMIT_AS)
        cap = 3 << 30
        if hard == resource.RLIM_INFINITY or hard > cap:
            resource.setrlimit(resource.RLIMIT_AS, (cap, hard))
    except (ValueError, OSError):
        pass

    mon = sys.monitoring
    labels = {}
    grammar = sly_bd_parser.BDParser._grammar
    for prod in grammar.Productions:
        fn = getattr(prod, "func", None)
        code = getattr(fn, "__code__", None)
        if code is None:
            continue
        labels.setdefault(code, []).append(f"{prod.name} -> {' '.join(prod.prod) or '<empty>'}")
    parser_file = sly_bd_parser.__file__
    lexer_file = sly_bd_lexer.__file__
    for name, fn in vars(sly_bd_lexer.BDLexer).items():
        code = getattr(fn, "__code__", None)
        if code is not None and code.co_filename == lexer_file and name not in ("__init__", "cleanup", "add_source"):
            labels.setdefault(code, []).append(f"lexer action {name}")
    tool = None
    for cand in (mon.PROFILER_ID, mon.COVERAGE_ID, 3, 4):
        if mon.get_tool(cand) is None:
            tool = cand
            break
    if tool is None:
        raise core.Inconclusive("no free sys.monitoring tool id")
    mon.use_tool_id(tool, "verif-c19")
    counts = _MON["counts"]

    def on_start(code, offset):  # noqa: ARG001
        counts[code] = counts.get(code, 0) + 1

    mon.register_callback(tool, mon.events.PY_START, on_start)
    for code in labels:
        mon.set_local_events(tool, code, mon.events.PY_START)
    _MON.update(labels=labels, tool=tool, parser_file=parser_file)


def finish(ctx):
    labels, counts = _MON["labels"], _MON["counts"]
    executed = {}
    for code, labs in labels.items():
        key = f"{os.path.basename(code.co_filename)}:{code.co_firstlineno} {code.co_name}"
        executed[key] = {"calls": counts.get(code, 0), "rules": labs}
    ctx._emit({"t": "c19cov", "actions": executed, "ops": _ENV.get("ops", {})})  # picked up by extra_coverage
    ctx.count("grammar_actions_executed", sum(counts.values()))
    total, accepted = ctx.counters.get("programs", 0), ctx.counters.get("programs_accepted", 0)
    if total >= 50 and accepted / total < 0.6:
        ctx._emit({"t": "inconclusive", "i": -1,
                   "why": f"shard {ctx.shard}: only {accepted} of {total} generated programs were accepted by SPSDK (< 60 %)"})


def extra_coverage(events, counters):
    actions: dict = {}
    ops: dict = {}
    for ev in events:
        if ev.get("t") != "c19cov":
            continue
        for key, v in ev["actions"].items():
            a = actions.setdefault(key, {"calls": 0, "rules": v["rules"]})
            a["calls"] += v["calls"]
        for k, n in ev.get("ops", {}).items():
            ops[k] = ops.get(k, 0) + n
    ran = {k: v for k, v in actions.items() if v["calls"]}
    not_run = sorted(k + " [" + "; ".join(v["rules"][:3]) + "]" for k, v in actions.items() if not v["calls"])
    rules_ran = sorted({r for v in ran.values() for r in v["rules"]})
    total = counters.get("programs", 0)
    accepted = counters.get("programs_accepted", 0)
    out = {
        "grammar_actions": {"executed": len(ran), "of": len(actions), "calls": sum(v["calls"] for v in ran.values()),
                            "never_executed": not_run},
        "productions_reached_by_executed_actions": len(rules_ran),
        "reference_constructs_evaluated": dict(sorted(ops.items())),
        "programs": total, "programs_accepted": accepted,
        "acceptance_ratio": round(accepted / total, 3) if total else None,
    }
    return out


# ------------------------------------------------------------------------------------------
# environment of a worker: files, keys


FILES = {"f0.bin": 16, "f1.bin": 1, "f2.bin": 33, "sub/f3.bin": 100, "f4.bin": 512, "f5.bin": 5}


def file_bytes(name):
    n = FILES[name]
    out = b""
    k = 0
    while len(out) < n:
        out += hashlib.sha256(f"{name}/{k}".encode()).digest()
        k += 1
    return out[:n]


def env(ctx):
    if _ENV.get("workdir") == ctx.workdir:
        return _ENV
    from spsdk.crypto.signature_provider import get_signature_provider
    from vf import pki

    wd = ctx.workdir
    os.makedirs(os.path.join(wd, "sub"), exist_ok=True)
    for name in FILES:
        with open(os.path.join(wd, name), "wb") as f:
            f.write(file_bytes(name))
    # the working directory of this worker process is a DECOY: it holds a file for every source name, with other bytes.  A
    # source named in a command file belongs to the project (the search path handed to SPSDK), wherever the tool is started
    decoy = os.path.join(os.path.abspath(wd), "decoy_cwd")
    os.makedirs(os.path.join(decoy, "sub"), exist_ok=True)
    for name in FILES:
        with open(os.path.join(decoy, name), "wb") as f:
            f.write(bytes(b ^ 0xFF for b in file_bytes(name)) + b"decoy")
    os.chdir(decoy)
    kek = bytes(range(0x40, 0x60))
    with open(os.path.join(wd, "kek.txt"), "w", encoding="utf-8") as f:
        f.write(kek.hex())
    cert = pki.path("rsa2048_0", "nonca", "der")
    key = pki.path("rsa2048_0", "priv", "pem")
    _ENV.update(workdir=wd, kek=kek, kek_path=os.path.join(wd, "kek.txt"), cert=cert, key=key,
                sp=get_signature_provider(local_file_key=key), ops=_ENV.get("ops", {}))
    return _ENV


def read_file_for(wd):
    def read_file(path):
        rel = os.path.relpath(path, wd) if os.path.isabs(path) else os.path.normpath(path)
        rel = rel.replace(os.sep, "/")
        if rel not in FILES:
            raise bd_ref.BDSemanticError(f"file {path} does not exist")
        return file_bytes(rel)
    return read_file


# ------------------------------------------------------------------------------------------
# generator: expressions

_PREC = {"*": 10, "/": 10, "%": 10, "+": 9, "-": 9, "<<": 8, ">>": 8, "&": 5, "^": 4, "|": 3}
_BPREC = {"||": 1, "&&": 2, "==": 3, "!=": 3, "<": 4, "<=": 4, ">": 4, ">=": 4}
_BIN_OPS = list(_PREC)
_BOOL_OPS = list(_BPREC)
_SAFE_OPS = ["+", "-", "*", "&", "|", "^"]


class Node:
    __slots__ = ("kind", "op", "kids", "text", "val")

    def __init__(self, kind, op=None, kids=(), text=None):
        self.kind, self.op, self.kids, self.text, self.val = kind, op, kids, text, None


def show(n, parent=-1, side="L", paren_unary=False):
    """Print an arithmetic node with minimal parentheses (C precedence, left associative)."""
    k = n.kind
    if k in ("lit", "ref"):
        return n.text
    if k == "par":
        return "(" + show(n.kids[0], -1, "L", paren_unary) + ")"
    if k == "sz":
        s = n.kids[0].text + "." + n.op
        return s if parent == -1 else "(" + s + ")"
    if k == "un":
        inner = show(n.kids[0], 12, "U", paren_unary)
        s = n.op + (" " if inner[:1] in "+-" else "") + inner
        return "(" + s + ")" if (paren_unary and parent != -1) else s
    p = _PREC[n.op]
    s = show(n.kids[0], p, "L", paren_unary) + " " + n.op + " " + show(n.kids[1], p, "R", paren_unary)
    if p < parent or (p == parent and side == "R") or parent == 12:
        return "(" + s + ")"
    return s


def bshow(n, parent=-1, side="L", pu=False):
    """Print a boolean-level node; arithmetic operands are printed bare (they bind tighter by the grammar)."""
    k = n.kind
    if k == "b_int":
        return show(n.kids[0], -1, "L", pu)
    if k == "b_def":
        return f"defined({n.text})"
    if k == "b_par":
        return "(" + bshow(n.kids[0], -1, "L", pu) + ")"
    if k == "b_not":
        c = n.kids[0]
        inner = bshow(c, 5, "U", pu)
        return "!" + inner
    p = _BPREC[n.op]
    s = bshow(n.kids[0], p, "L", pu) + " " + n.op + " " + bshow(n.kids[1], p, "R", pu)
    if p < parent or (p == parent and side == "R") or parent == 5:
        return "(" + s + ")"
    return s


class ExprGen:
    def __init__(self, rng, consts, stats):
        self.rng = rng
        self.consts = consts  # name -> value, defined so far
        self.stats = stats
        self.paren_unary = rng.random() < 0.5
        self.allow_chars = rng.random() < 0.12   # character literals only in some programs (see RULE)

    # literals -------------------------------------------------------------------------
    def literal_value(self):
        r = self.rng.random()
        if r < 0.45:
            return self.rng.randrange(0, 21)
        if r < 0.60:
            return self.rng.randrange(0, 256)
        if r < 0.70:
            return self.rng.randrange(0, 0x10000)
        if r < 0.80:
            return core.pick(self.rng, [0x7FFFFFFF, 0x80000000, U32, 0xFFFF, 0x10000, 0x100, 0xFF, 0x8000, 1024, 4096])
        if r < 0.93:
            return self.rng.getrandbits(32)
        return self.rng.getrandbits(core.pick(self.rng, [33, 36, 40]))

    def literal_text(self, v):
        r = self.rng.random()
        if v in (0, 1) and r < 0.12:
            return core.pick(self.rng, ["true", "yes"] if v else ["false", "no"])
        if v and v % 1024 == 0 and r < 0.4:
            return f"{v // 1024}K"
        if self.allow_chars and 0x20 <= v < 0x7F and r < 0.15 and chr(v) not in "'\"\\":
            return f"'{chr(v)}'"
        if r < 0.5:
            return str(v)
        h = f"{v:x}" if self.rng.random() < 0.6 else f"{v:X}"
        if self.rng.random() < 0.2:
            h = "".join(c.upper() if self.rng.random() < 0.5 else c.lower() for c in h)
        if self.rng.random() < 0.15:
            h = "0" * self.rng.randrange(1, 4) + h
        return ("0X" if self.rng.random() < 0.15 else "0x") + h

    def lit(self, v, text=None):
        n = Node("lit", text=text if text is not None else self.literal_text(v))
        n.val = v
        return n

    def char_literal(self):
        n = self.rng.randrange(1, 5)
        s = "".join(self.rng.choice("abcxyzABC019 _-.+") for _ in range(n))
        return self.lit(int.from_bytes(s.encode(), "big"), f"'{s}'")

    def leaf(self):
        r = self.rng.random()
        if self.consts and r < 0.3:
            n = Node("ref", text=core.pick(self.rng, sorted(self.consts)))
            n.val = self.consts[n.text]
            return n
        if r < 0.34 and self.allow_chars:
            return self.char_literal()
        return self.lit(self.literal_value())

    # The generator's own arithmetic only *steers* generation (it keeps operands inside the domain of the
    # ASSUMPTIONS); expected values always come from the reference interpreter reading the final text, and
    # u32() / _as_expr() / run_case cross-check this bookkeeping against it.
    class Undefined(Exception):
        pass

    def calc(self, n):
        k = n.kind
        kids = n.kids
        if k in ("lit", "ref"):
            return n.val
        if k in ("par", "b_int", "b_par"):
            return kids[0].val
        if k == "sz":
            return kids[0].val & ((1 << {"b": 8, "h": 16, "w": 32}[n.op]) - 1)
        if k == "un":
            return -kids[0].val if n.op == "-" else kids[0].val
        if k == "b_def":
            return 1 if n.text in self.consts else 0
        if k == "b_not":
            return 0 if kids[0].val else 1
        a, b = kids[0].val, kids[1].val
        op = n.op
        if k == "b_bin":
            return int({"||": bool(a or b), "&&": bool(a and b), "==": a == b, "!=": a != b, "<": a < b, "<=": a <= b,
                        ">": a > b, ">=": a >= b}[op])
        if op in ("/", "%"):
            if a < 0 or b <= 0:
                raise self.Undefined()
            return a // b if op == "/" else a % b
        if op in ("<<", ">>"):
            if a < 0 or not 0 <= b <= 31:
                raise self.Undefined()
            return a << b if op == "<<" else a >> b
        return {"+": a + b, "-": a - b, "*": a * b, "&": a & b, "|": a | b, "^": a ^ b}[op]

    def tree(self, depth):
        """Arithmetic tree of at most the given depth whose value is defined (repairs operands where it is not)."""
        rng = self.rng
        if depth <= 0 or rng.random() < 0.18:
            return self.leaf()
        r = rng.random()
        if r < 0.10:
            n = Node("un", core.pick(rng, ["-", "-", "+"]), (self.tree(depth - 1),))
        elif r < 0.16:
            n = Node("par", kids=(self.tree(depth - 1),))
        elif r < 0.24:
            base = self.leaf()
            if base.kind == "lit" and (not base.text[0].isdigit() or base.text.endswith("K")):
                base = self.lit(base.val, hex(base.val) if rng.random() < 0.5 else str(base.val))
            n = Node("sz", core.pick(rng, ["b", "h", "w"]), (base,))
        else:
            op = core.pick(rng, _BIN_OPS)
            left = self.tree(depth - 1)
            if op in ("<<", ">>") and rng.random() < 0.85:
                right = self.lit(rng.randrange(0, 32) if rng.random() < 0.8 else rng.randrange(0, 8))
            elif op in ("<<", ">>"):
                # a computed shift count is masked in the text itself: an implementation that mis-evaluates the
                # operand must not be driven into '1 << 3000000000' (gigabytes of integer, OOM killer)
                inner = self.tree(depth - 1)
                if inner.kind not in ("lit", "ref", "par"):
                    par = Node("par", kids=(inner,))
                    par.val = inner.val
                    inner = par
                right = Node("bin", "&", (inner, self.lit(core.pick(rng, [31, 15, 7]))))
                right.val = self.calc(right)
            else:
                right = self.tree(depth - 1)
            n = Node("bin", op, (left, right))
        for _ in range(4):
            try:
                n.val = self.calc(n)
                return n
            except self.Undefined:
                self.stats["expr_repairs"] = self.stats.get("expr_repairs", 0) + 1
                left, right = n.kids
                if left.val < 0:   # / % << >> want a non-negative left operand: mask it
                    inner = left if left.kind in ("lit", "ref", "par") else Node("par", kids=(left,))
                    inner.val = left.val
                    left = Node("bin", "&", (inner, self.lit(core.pick(rng, [0xFFFF, U32, 255]))))
                    left.val = self.calc(left)
                if n.op in ("/", "%") and right.val <= 0:
                    right = self.lit(rng.randrange(1, 300))
                elif n.op in ("<<", ">>") and not 0 <= right.val <= 31:
                    right = self.lit(rng.randrange(0, 32))
                n = Node("bin", n.op, (left, right))
        raise core.Inconclusive("expression generator could not repair an operand")

    def btree(self, depth):
        """Boolean-level tree (operands: arithmetic trees, other boolean nodes, defined())."""
        rng = self.rng
        r = rng.random()
        if depth <= 0 or r < 0.2:
            if r < 0.07:
                name = core.pick(rng, sorted(self.consts)) if self.consts and rng.random() < 0.6 else \
                    core.pick(rng, ["zz9", "nope1", "undefined_7"])
                n = Node("b_def", text=name)
            else:
                n = Node("b_int", kids=(self.tree(min(depth, 2)),))
        elif r < 0.32:
            n = Node("b_not", kids=(self.btree(depth - 1),))
        elif r < 0.40:
            n = Node("b_par", kids=(self.btree(depth - 1),))
        else:
            n = Node("b_bin", core.pick(rng, _BOOL_OPS), (self.btree(depth - 1), self.btree(depth - 1)))
        n.val = self.calc(n)
        return n

    def depth_choice(self):
        return core.pick(self.rng, [0, 0, 1, 1, 2, 2, 3, 3, 4, 5])

    def int_expr(self, depth=None):
        n = self.tree(self.depth_choice() if depth is None else depth)
        return show(n, -1, "L", self.paren_unary), n.val

    def bool_expr(self, depth=None):
        n = self.btree(self.depth_choice() if depth is None else depth)
        return bshow(n, -1, "L", self.paren_unary), n.val

    def u32(self, depth=None, transform=None, lead="any"):
        """Operand text with a value in 0..2^32-1.  ``transform``: None | ("and", mask) | ("low", bits).
        ``lead``: 'any' | 'no-ident' (directly after a keyword with optional memory name) | 'no-open'
        (after '@<expr>' or another expression: must not start with '(' '+' '-')."""
        for _ in range(20):
            text, v = self.int_expr(depth)
            if transform:
                mask = transform[1]
                text, v = f"({text}) & {self.literal_text(mask)}" if not text.replace("_", "").isalnum() else f"{text} & {self.literal_text(mask)}", v & mask
            if not 0 <= v <= U32:
                text = f"({text}) & 0xFFFFFFFF" if not text.replace("_", "").isalnum() else f"{text} & 0xFFFFFFFF"
                v &= U32
            if lead == "no-ident" and (text[0].isalpha() or text[0] == "_") and not text.startswith(("true", "false", "yes", "no")):
                text = "(" + text + ")"
            if lead == "no-open" and text[0] in "(+-":
                continue
            try:
                if bd_ref.evaluate(text, self.consts, boolean=False) != v:
                    raise core.Inconclusive(f"generator bookkeeping: {text} != {v}")
            except bd_ref.BDOutOfDomain:
                continue
            return text, v
        v = self.rng.randrange(0, 0x10000)
        return str(v), v


# ------------------------------------------------------------------------------------------
# generator: programs

_COMMENT_WORDS = ["flash", "erase first", "TODO", "see RM 4.2", "key = 0x12", "a + b * c", "{ not a block }", "load > here;",
                  "100%", "section (9)", "x..y", "@8", "/ slash", "star * star"]


class ProgGen:
    def __init__(self, rng, wd, stats, *, refusable=None, quotes_in_comments=None, cli=False):
        self.rng = rng
        self.wd = wd
        self.stats = stats
        self.consts: dict = {}
        self.eg = ExprGen(rng, self.consts, stats)
        self.sources: list = []
        self.keyblobs: list = []   # dicts id,start,end,encrypting
        self.names = set()
        self.extern: list = []
        self.cli = cli
        self.refusable = rng.random() < 0.15 if refusable is None else refusable
        self.long_blobs = rng.random() < 0.2
        self.quotes_in_comments = rng.random() < 0.04 if quotes_in_comments is None else quotes_in_comments
        self.kinds: set = set()
        self.blocks: list = []

    # lexical decoration ----------------------------------------------------------------
    def comment(self, inline_ok=True):
        rng = self.rng
        words = core.pick(rng, _COMMENT_WORDS)
        if self.quotes_in_comments and rng.random() < 0.5:
            words += core.pick(rng, [" don't", ' say "hi"', " it's \"quoted\""])
        style = rng.randrange(3)
        if style == 0:
            return f"// {words}\n"
        if style == 1:
            return f"# {words}\n"
        if rng.random() < 0.3:
            return f"/* {words}\n   second line */" + ("\n" if rng.random() < 0.5 else " ")
        return f"/* {words} */" + ("\n" if rng.random() < 0.3 else " ")

    def sep(self):
        """Separator between definitions / statements: several per line, newlines, comments."""
        r = self.rng.random()
        if r < 0.35:
            return " "
        if r < 0.75:
            return "\n    "
        if r < 0.8:
            return "\n\n\t"
        return " " + self.comment() + "    "

    def new_name(self, prefix):
        while True:
            n = f"{prefix}{self.rng.randrange(0, 100)}"
            if self.rng.random() < 0.2:
                n = core.pick(self.rng, ["_", "my_", "A", "x_"]) + n
            if n not in self.names and n not in bd_ref.KEYWORDS and n not in bd_ref.MEM_NAMES:
                self.names.add(n)
                return n

    def string(self):
        rng = self.rng
        alphabet = "abcdefghijklmnopqrstuvwxyzABCXYZ0123456789_-./ :=;,(){}#*+"
        return "".join(rng.choice(alphabet) for _ in range(rng.randrange(0, 14)))

    # blocks ----------------------------------------------------------------------------------
    def options_block(self, first):
        rng = self.rng
        defs = []
        if first:
            flags = "0x8" if (self.cli or rng.random() < 0.6) else core.pick(rng, ["0x8008", "0x8000 | 8", "8", "0x8000 + 0x8"])
            defs.append(f"flags = {flags};")
            if rng.random() < 0.6:
                defs.append(f"buildNumber = {self.eg.u32(2, ('and', 0xFFFF))[0]};")
            if rng.random() < 0.5:
                defs.append(f'productVersion = "{rng.randrange(1, 10)}.{rng.randrange(0, 100):02d}.{rng.randrange(0, 100):02d}";')
            if rng.random() < 0.5:
                defs.append(f'componentVersion = "{rng.randrange(1, 10)}.{rng.randrange(0, 10)}.{rng.randrange(0, 10)}";')
            if rng.random() < 0.5:
                defs.append('secureBinaryVersion = "2.1";')
        for _ in range(rng.randrange(0, 4)):
            name = self.new_name("opt")
            r = rng.random()
            if r < 0.4:
                defs.append(f'{name} = "{self.string()}";')
            elif r < 0.7:
                defs.append(f"{name} = {self.eg.bool_expr()[0]};")
            else:
                defs.append(f"{name} = {self.eg.int_expr()[0]};")
        rng.shuffle(defs)
        self.blocks.append("options")
        return "options {" + self.sep() + "".join(d + self.sep() for d in defs) + "}"

    def constants_block(self):
        rng = self.rng
        out = "constants {" + self.sep()
        for _ in range(rng.randrange(0, 7)):
            name = self.new_name(core.pick(rng, ["k", "c", "ab", "K_"]))
            if rng.random() < 0.3:
                text, v = self.eg.bool_expr()
            else:
                text, v = self.eg.int_expr()
            out += f"{name} = {text};" + self.sep()
            self.consts[name] = v
        self.blocks.append("constants")
        return out + "}"

    def sources_block(self):
        rng = self.rng
        out = "sources {" + self.sep()
        for _ in range(rng.randrange(1, 4)):
            name = self.new_name(core.pick(rng, ["src", "img", "file"]))
            fname = core.pick(rng, sorted(FILES))
            if rng.random() < 0.35:
                if rng.random() < 0.5 and fname in [os.path.relpath(e, self.wd).replace(os.sep, "/") for e in self.extern]:
                    idx = [os.path.relpath(e, self.wd).replace(os.sep, "/") for e in self.extern].index(fname)
                else:
                    self.extern.append(os.path.join(self.wd, fname))
                    idx = len(self.extern) - 1
                # index as an expression with that value
                t, v = self.eg.u32(1, ("and", 0))
                idx_text = str(idx) if rng.random() < 0.6 else f"{t} + {idx}"
                out += f"{name} = extern({idx_text});" + self.sep()
            else:
                path = fname if rng.random() < 0.7 else "./" + fname
                out += f'{name} = "{path}";' + self.sep()
            self.sources.append((name, fname))
        self.blocks.append("sources")
        return out + "}"

    def keyblob_block(self):
        rng = self.rng
        used = {kb["id"] for kb in self.keyblobs}
        kid = core.pick(rng, [i for i in range(0, 9) if i not in used] or [rng.randrange(10, 1000)])
        encrypting = rng.random() < 0.7
        start = rng.randrange(0, 0x3FFFF) * 0x400
        end = start + rng.randrange(1, 64) * 0x400 - 1
        if not encrypting:
            end = (end & ~7) | core.pick(rng, [0b101, 0b001, 0b100, 0b000, 0b110])
        key = core.rand_bytes(rng, 16).hex()
        ctr = core.rand_bytes(rng, 8).hex()
        if rng.random() < 0.3:
            key, ctr = key.upper(), ctr.upper()
        opts = [f"start = {self._as_expr(start)}", f"end = {self._as_expr(end)}", f'key = "{key}"', f'counter = "{ctr}"']
        if rng.random() < 0.4:
            opts.append("byteSwap = " + core.pick(rng, ["false", "no", "0"]))
        if rng.random() < 0.2:
            opts.append(f"{self.new_name('extra')} = " + core.pick(rng, ['"ignored"', "1", "1 < 2"]))
        rng.shuffle(opts)
        joiner = "," + core.pick(rng, [" ", "\n        ", " /* c */ "])
        id_text = self._as_expr(kid)
        self.keyblobs.append({"id": kid, "start": start, "end": end, "encrypting": encrypting})
        self.blocks.append("keyblob")
        return f"keyblob ({id_text}) {{" + self.sep() + "(" + joiner.join(opts) + ")" + self.sep() + "}"

    def _as_expr(self, v, lead="any"):
        """An expression whose value is exactly v."""
        rng = self.rng
        r = rng.random()
        if r < 0.5 or v > U32:
            t = self.eg.literal_text(v)
        elif r < 0.75:
            a = rng.randrange(0, v + 1)
            t = f"{self.eg.literal_text(a)} + {self.eg.literal_text(v - a)}"
        elif r < 0.9:
            text, e = self.eg.u32(2)
            d = v - e
            t = f"{text} {'+' if d >= 0 else '-'} {self.eg.literal_text(abs(d))}" if text.replace("_", "").isalnum() else \
                f"({text}) {'+' if d >= 0 else '-'} {self.eg.literal_text(abs(d))}"
        else:
            t = f"({self.eg.literal_text(v)})"
        if lead == "no-open" and t[0] in "(+-":
            t = self.eg.literal_text(v)
        if lead == "no-ident" and (t[0].isalpha() or t[0] == "_") and not t.startswith(("true", "false", "yes", "no")):
            t = "(" + t + ")"
        if bd_ref.evaluate(t, self.consts, boolean=False) != v:
            raise core.Inconclusive(f"generator bookkeeping: {t} != {v}")
        return t

    # statements ------------------------------------------------------------------------------
    def mem_opt(self, *, prog_ok=False, ext_only=False):
        """Returns (text, lead-constraint for the next operand)."""
        rng = self.rng
        r = rng.random()
        if ext_only:
            ids = [1, 8, 9, 10]
            if self.refusable and rng.random() < 0.2:
                ids = [2, 0x33, 0x120]
            return "@" + self._as_expr(core.pick(rng, ids)), "no-open"
        if r < 0.45:
            return "", "no-ident"
        if r < 0.75:
            return "@" + self._as_expr(core.pick(rng, [0, 1, 8, 9, 10, 0x10, 0x100, 0x101, 0x110, 0x111, 0x120, 0x121, 288])), "no-open"
        names = ["qspi", "sdcard", "mmccard", "flexspinor", "spinand", "spieeprom", "i2ceeprom", "semcnand"]
        if self.refusable:
            names += ["semcnor", "spifinor", "nosuchmem"]
        return core.pick(rng, names), "any"

    def blob(self, n):
        rng = self.rng
        b = core.rand_bytes(rng, n)
        h = b.hex() if rng.random() < 0.7 else b.hex().upper()
        style = rng.randrange(3)
        if style == 0:
            body = h
        elif style == 1:
            body = " ".join(h[i:i + 2] for i in range(0, len(h), 2))
        else:
            body = " " + " ".join(h[i:i + 8] for i in range(0, len(h), 8)) + " "
        return "{{" + body + "}}"

    def address(self, lead="any", align=None):
        if align:
            return self.eg.u32(None, ("and", U32 & ~(align - 1)), lead)
        return self.eg.u32(None, None, lead)

    def target(self, want_range, mult4=True):
        """load/erase target after the operand position: 'A' or 'A..B'."""
        rng = self.rng
        a_text, a = self.eg.u32(None, ("and", 0x7FFFFFFF))
        if not want_range:
            return a_text
        ln = rng.randrange(0, 64) * 4 if mult4 else rng.randrange(1, 200)
        if rng.random() < 0.1:
            ln = core.pick(rng, [0, 4, 0x1000, 0x10000000])
        b_text = self._as_expr(a + ln)
        dots = core.pick(rng, ["..", " .. ", " ..", ".. "])
        return a_text + dots + b_text

    def ranged(self, lead, mult4=True):
        rng = self.rng
        a_text, a = self.eg.u32(None, ("and", 0x7FFFFFFF), lead)
        ln = rng.randrange(0, 64) * 4 if mult4 else rng.randrange(1, 200)
        dots = core.pick(rng, ["..", " .. ", " ..", ".. "])
        return a_text + dots + self._as_expr(a + ln)

    def pattern(self, lead):
        rng = self.rng
        r = rng.random()
        if r < 0.3:
            v = self.eg.literal_value() & U32
            lit = self.eg.literal_text(v)
            if lit[0].isalpha() or lit[0] == "'" or lit.endswith("K"):
                lit = hex(v)
            return lit + "." + core.pick(rng, ["b", "h", "w"])
        return self.eg.u32(None, None, lead)[0]

    def statement(self):
        rng = self.rng
        weights = [("load_pattern", 14), ("load_blob", 8), ("load_file", 10), ("load_prog", 8), ("erase", 12), ("enable", 6),
                   ("jump", 7), ("jump_sp", 5), ("version_check", 6), ("keystore", 5), ("encrypt", 5), ("keywrap", 5)]
        if self.refusable:
            weights += [("call", 4), ("reset", 4), ("load_odd", 4)]
        total = sum(w for _, w in weights)
        x = rng.randrange(total)
        for kind, w in weights:
            if x < w:
                break
            x -= w
        if kind in ("load_file", "encrypt") and not self.sources and rng.random() < 0.5:
            kind = "load_pattern"
        if kind in ("encrypt", "keywrap") and not self.keyblobs:
            kind = "erase"
        self.kinds.add(kind)
        if kind == "load_pattern":
            want_range = rng.random() < 0.5
            return f"load {self.pattern('no-ident')} > {self.target(want_range)};"
        if kind == "load_odd":  # range whose length is not a multiple of 4, or data into a range
            if rng.random() < 0.5:
                return f"load {self.pattern('no-ident')} > {self.target(True, mult4=False)};"
            return f"load {self.blob(4)} > {self.target(True)};"
        if kind == "load_blob":
            mem, lead = self.mem_opt()
            n = core.pick(rng, [4, 4, 4, 4, 1, 2, 3])
            if self.long_blobs:
                n = core.pick(rng, [4, 5, 8, 12, 16, 7])
            sp = " " if mem else ""
            return f"load {mem}{sp}{self.blob(n)} > {self.target(False)};"
        if kind == "load_file":
            mem, lead = self.mem_opt()
            sp = " " if mem else ""
            if self.sources and rng.random() < 0.7:
                src = core.pick(rng, self.sources)[0]
            else:
                src = '"' + core.pick(rng, sorted(FILES)) + '"'
            return f"load {mem}{sp}{src} > {self.target(False)};"
        if kind == "load_prog":
            r = rng.random()
            mem = core.pick(rng, ["fuse", "ifr", "@4", "@0x4", "@" + self._as_expr(4)])
            lead = "any" if mem in ("fuse", "ifr") else "no-open"
            if r < 0.45:
                data, v = self.eg.u32(None, None, lead)
                if v == 0 and rng.random() < 0.85:   # 'load fuse 0' is refused by SPSDK ("Unsupported LOAD command args")
                    data = self.eg.literal_text(rng.randrange(1, 1 << core.pick(rng, [4, 16, 32])))
            elif r < 0.75:
                data = self.blob(4)
            else:
                data = self.blob(8)
                if rng.random() < 0.3:  # leading zero bytes
                    data = "{{" + "00" * 4 + core.rand_bytes(rng, 4).hex() + "}}"
            return f"load {mem} {data} > {self.target(False)};"
        if kind == "erase":
            r = rng.random()
            if r < 0.12:
                return "erase unsecure all;"
            mem, lead = self.mem_opt()
            sp = " " if mem else ""
            if r < 0.3:
                return f"erase {mem}{sp}all;"
            if r < 0.4:
                return f"erase {mem}{sp}{self.eg.u32(None, None, lead)[0]};"
            return f"erase {mem}{sp}{self.ranged(lead, mult4=rng.random() < 0.5)};"
        if kind == "enable":
            mem, lead = self.mem_opt()
            while not mem:
                mem, lead = self.mem_opt()
            return f"enable {mem} {self.eg.u32(None, None, lead)[0]};"
        if kind in ("jump", "call"):
            arg = ""
            r = rng.random()
            if r < 0.4:
                arg = f" ({self.eg.u32()[0]})"
            elif r < 0.5:
                arg = " ()"
            return f"{kind} {self.eg.u32()[0]}{arg};"
        if kind == "jump_sp":
            arg = f" ({self.eg.u32()[0]})" if rng.random() < 0.6 else ""
            return f"jump_sp {self.eg.u32()[0]} {self.eg.u32(None, None, 'no-open')[0]}{arg};"
        if kind == "reset":
            return "reset;"
        if kind == "version_check":
            return f"version_check {core.pick(rng, ['sec', 'nsec'])} {self.eg.u32()[0]};"
        if kind == "keystore":
            mem, lead = self.mem_opt(ext_only=True)
            op = core.pick(rng, ["keystore_to_nv", "keystore_from_nv"])
            tgt = self.ranged(lead) if rng.random() < 0.3 else self.eg.u32(None, None, lead)[0]
            return f"{op} {mem} {tgt};"
        if kind == "encrypt":
            kb = core.pick(rng, self.keyblobs)
            addr = kb["start"] if rng.random() < 0.8 else kb["start"] + 16 * rng.randrange(0, 16)
            if self.sources and rng.random() < 0.7:
                data = core.pick(rng, self.sources)[0]
            elif rng.random() < 0.5:
                data = '"' + core.pick(rng, sorted(FILES)) + '"'
            else:
                data = self.blob(core.pick(rng, [4, 4, 8, 16] if self.long_blobs else [4]))
            return f"encrypt ({self._as_expr(kb['id'])}) {{{self.sep()}load {data} > {self._as_expr(addr)};{self.sep()}}}"
        if kind == "keywrap":
            kb = core.pick(rng, self.keyblobs)
            return (f"keywrap ({self._as_expr(kb['id'])}) {{{self.sep()}load {self.blob(16)} > "
                    f"{self.eg.u32(None, ('and', 0x7FFFFFF0))[0]};{self.sep()}}}")
        raise AssertionError(kind)

    def section(self):
        rng = self.rng
        sid = self._as_expr(rng.randrange(0, 10) if rng.random() < 0.7 else rng.getrandbits(32))
        if rng.random() < 0.03:
            sid += core.pick(rng, [";", " ; "])   # section_options ::= ';' option_list?  with the list left out
        out = f"section ({sid}) {{" + self.sep()
        for _ in range(rng.randrange(1 if self.cli else 0, 9)):
            out += self.statement() + self.sep()
        return out + "}"

    def program(self):
        rng = self.rng
        parts = []
        kinds = ["options"] if rng.random() < 0.93 else []
        for _ in range(rng.randrange(0, 6)):
            kinds.append(core.pick(rng, ["options", "constants", "constants", "sources", "keyblob", "keyblob"]))
        rng.shuffle(kinds)
        first_opt = True
        if rng.random() < 0.3:
            parts.append(self.comment())
        for k in kinds:
            if k == "options":
                parts.append(self.options_block(first_opt))
                first_opt = False
            elif k == "constants":
                parts.append(self.constants_block())
            elif k == "sources":
                parts.append(self.sources_block())
            else:
                parts.append(self.keyblob_block())
            if rng.random() < 0.2:
                parts.append(self.comment())
        for _ in range(rng.randrange(1, 5)):
            parts.append(self.section())
        text = ""
        for p in parts:
            text += p + ("" if p.endswith("\n") else core.pick(rng, ["\n", "\n\n", " "]))
        return text


# ------------------------------------------------------------------------------------------
# observation: SPSDK's outputs in the reference's neutral form


def _values_hex(values):
    """'values' of the configuration as a hex string: the BD parser hands the blob over as hex digits; the schema
    also knows comma separated 32-bit numbers, each stored little-endian."""
    text = str(values).strip().lower()
    if "," in text or text.startswith("0x"):
        try:
            return b"".join(int(x, 16).to_bytes(4, "little") for x in text.split(",")).hex()
        except (ValueError, OverflowError):
            return text
    return text


def _norm_load(v):
    if "file" in v:
        src = ["file", v["file"]]
    elif "values" in v:
        src = ["blob", _values_hex(v["values"])]
    elif "pattern" in v:
        src = ["pattern", v["pattern"]]
    else:
        src = ["?", sorted(v)]
    return {"op": "load", "mem": v.get("load_opt"), "src": src, "addr": v.get("address"), "len": v.get("length")}


def norm_stmt(cmd):
    if not isinstance(cmd, dict) or len(cmd) != 1:
        return {"op": "?", "raw": core.jsonable(cmd)}
    (key, v), = cmd.items()
    if key in ("load", "fill"):
        return _norm_load(v)
    if key == "erase":
        fl = v.get("flags", 0)
        out = {"op": "erase", "mem": v.get("mem_opt"), "addr": v.get("address"), "len": v.get("length"),
               "all": 1 if fl in (1, 2) else 0, "unsecure": 1 if fl == 2 else 0}
        if fl not in (0, 1, 2):
            out["flags"] = fl
        return out
    if key == "enable":
        return {"op": "enable", "mem": v.get("mem_opt"), "addr": v.get("address")}
    if key in ("jump", "call"):
        return {"op": key, "addr": v.get("address"), "arg": v.get("argument"), "sp": v.get("spreg")}
    if key == "reset":
        return {"op": "reset"}
    if key == "version_check":
        return {"op": "version_check", "nsec": v.get("ver_type"), "version": v.get("fw_version")}
    if key in ("keystore_to_nv", "keystore_from_nv"):
        return {"op": key, "mem": v.get("mem_opt"), "addr": v.get("address"), "len": v.get("length")}
    if key in ("encrypt", "keywrap"):
        inner = {k: x for k, x in v.items() if k not in ("keyblob_id", "keyblobs")}
        return {"op": key, "keyblob": v.get("keyblob_id"), "load": _norm_load(inner)}
    return {"op": "?", "raw": core.jsonable(cmd)}


def norm_config(cfg, variables):
    out = {
        "options": dict(cfg.get("options", {})),
        "constants": {n: v for n, t, v in variables if t == "constant"},
        "sources": dict(cfg.get("sources", {})),
        "keyblobs": [{"id": kb.get("keyblob_id"), "options": dict((kb.get("keyblob_content") or [{}])[0])}
                     for kb in cfg.get("keyblobs", [])],
        "sections": [{"id": s.get("section_id"), "statements": [norm_stmt(c) for c in s.get("commands", [])]}
                     for s in cfg.get("sections", [])],
    }
    return out


def norm_ref(prog):
    def st(s):
        s = dict(s)
        if s["op"] == "load":
            s["src"] = list(s["src"][:2])
        if s["op"] in ("encrypt", "keywrap"):
            s["load"] = st(s["load"])
        return s
    return {
        "options": dict(prog["options"]), "constants": dict(prog["constants"]), "sources": dict(prog["sources"]),
        "keyblobs": [{"id": kb["id"], "options": dict(kb["options"])} for kb in prog["keyblobs"]],
        "sections": [{"id": s["id"], "statements": [st(x) for x in s["statements"]]} for s in prog["sections"]],
    }


def short(v):
    """Witness values for the log: an implementation that regroups operands can produce integers of millions of bits."""
    if isinstance(v, int) and not isinstance(v, bool) and v.bit_length() > 256:
        return f"<integer of {v.bit_length()} bits>"
    if isinstance(v, (list, tuple)):
        return [short(x) for x in v]
    if isinstance(v, dict):
        return {k: short(x) for k, x in v.items()}
    return v


def first_diff(a, b, path=""):
    if isinstance(a, dict) and isinstance(b, dict):
        for k in sorted(set(a) | set(b), key=str):
            if k not in a or k not in b:
                return f"{path}/{k}", a.get(k, "<absent>"), b.get(k, "<absent>")
            d = first_diff(a[k], b[k], f"{path}/{k}")
            if d:
                return d
        return None
    if isinstance(a, list) and isinstance(b, list):
        if len(a) != len(b):
            return f"{path}/len", len(a), len(b)
        for i, (x, y) in enumerate(zip(a, b)):
            d = first_diff(x, y, f"{path}[{i}]")
            if d:
                return d
        return None
    if a != b or (isinstance(a, str) != isinstance(b, str)):
        return path, a, b
    return None


def reconcile_blobs(want, got):
    """A blob handed on as 32-bit words is zero-padded to a multiple of 4 (the load is padded to 16 anyway)."""
    for ws, gs in zip(want["sections"], got["sections"]):
        for w, g in zip(ws["statements"], gs["statements"]):
            pairs = [(w, g)]
            if w.get("op") in ("encrypt", "keywrap") and g.get("op") == w.get("op"):
                pairs = [(w["load"], g["load"])]
            for a, b in pairs:
                if a.get("op") == "load" == b.get("op") and a["src"][0] == "blob" == b["src"][0] and a["src"][1] != b["src"][1]:
                    x, y = a["src"][1], str(b["src"][1])
                    if y.startswith(x) and len(y) == (len(x) + 7) // 8 * 8 and set(y[len(x):]) <= {"0"}:
                        b["src"][1] = x


def observe_commands(image):
    """Command objects of a BootImageV21 -> header-word dicts as the reference uses them."""
    secs = []
    for sec in image.boot_sections:
        cmds = []
        for c in sec._commands:
            h = c.header
            d = {"tag": int(h.tag), "flags": int(h.flags), "address": int(h.address), "count": int(h.count),
                 "data": int(h.data), "payload": None}
            if int(h.tag) == bd_ref.TAG["load"]:
                d["payload"] = bytes(c.data)
                d["count"] = len(d["payload"])
            cmds.append(d)
        secs.append({"id": int(sec.uid), "commands": cmds})
    return secs


def diff_commands(expected, got, exact_load_length=True):
    """Compare expected sections/commands with observed ones; returns list of (path, why)."""
    diffs = []
    if len(expected) != len(got):
        return [("sections", f"{len(expected)} sections expected, {len(got)} built")]
    for si, (es, gs) in enumerate(zip(expected, got)):
        if len(es["commands"]) != len(gs["commands"]):
            diffs.append((f"section[{si}]", f"{len(es['commands'])} commands expected, {len(gs['commands'])} built"))
            continue
        for ci, (ec, gc) in enumerate(zip(es["commands"], gs["commands"])):
            where = f"section[{si}].command[{ci}] ({ec['kind']})"
            for d in bd_ref.compare_commands(ec, gc, where):
                diffs.append((where, d))
            if ec["kind"] == "load":
                # data is compared on its own length (compare_commands); the command may carry padding up to the
                # next multiple of 16 (the cipher block: SPSDK pads the count, C04's known finding), never more
                ln = len(ec["payload"])
                glen = len(gc["payload"] or b"")
                if not ln <= glen <= (ln + 15) // 16 * 16 and not any("payload" in d for w_, d in diffs if w_ == where):
                    diffs.append((where, f"load data length {glen}, expected {ln} (padding up to 16 tolerated)"))
            elif ec["kind"] == "encrypt":
                why = bd_ref.judge_encrypt(ec, gc["payload"] or b"") if gc["payload"] is not None else "no data"
                if why:
                    diffs.append((where, "encrypt: " + why))
            elif ec["kind"] == "keywrap":
                why = bd_ref.judge_keywrap(ec, gc["payload"] or b"") if gc["payload"] is not None else "no data"
                if why:
                    diffs.append((where, "keywrap: " + why))
    return diffs


# ------------------------------------------------------------------------------------------
# driving SPSDK


_REUSED = {"parser": None, "calls": 0}


def spsdk_parse(text, extern):
    from spsdk.sbfile.sb2.sly_bd_parser import BDParser

    # every other program goes through ONE long-lived parser object (parse() documents a clean-up "before next parsing"):
    # nothing of an earlier program - identifiers, sources, key blobs, sections - may leak into the next one
    _REUSED["calls"] += 1
    if _REUSED["calls"] % 2:
        parser = BDParser()
    else:
        if _REUSED["parser"] is None:
            _REUSED["parser"] = BDParser()
        parser = _REUSED["parser"]
    cfg = parser.parse(text, list(extern))
    variables = [(v.name, v.t, v.value) for v in parser._variables]
    if parser is _REUSED["parser"]:
        # what the long-lived parser handed out for the PREVIOUS program belongs to its caller: it must still read as it did
        prev = _REUSED.get("prev")
        if prev is not None and core.stable_hash(_plain(prev[0])) != prev[1]:
            _REUSED["changed"] = {"earlier_program": prev[2][:300], "later_program": text[:300]}
        _REUSED["prev"] = (cfg, core.stable_hash(_plain(cfg)), text)
    return cfg, variables


def _plain(o):
    if isinstance(o, dict):
        return sorted((str(k), _plain(v)) for k, v in o.items())
    if isinstance(o, (list, tuple)):
        return [_plain(v) for v in o]
    if isinstance(o, (bytes, bytearray)):
        return bytes(o).hex()
    return o if isinstance(o, (int, str, bool, type(None), float)) else repr(o)


def check_reused_results(ctx):
    ch = _REUSED.pop("changed", None)
    if ch:
        ctx.violation("bd-result-of-an-earlier-parse-changed-by-a-later-parse", ch)


def spsdk_build(cfg, e):
    from spsdk.sbfile.sb2.images import BootImageV21

    return BootImageV21.load_from_config(
        copy.deepcopy(cfg), key_file_path=e["kek_path"], signature_provider=e["sp"],
        signing_certificate_file_paths=[e["cert"]], root_key_certificate_paths=[e["cert"]],
        rkth_out_path=os.path.join(e["workdir"], "hash.bin"), search_paths=[e["workdir"]],
    )


def subsets(items):
    for r in range(1, len(items) + 1):
        yield from itertools.combinations(items, r)


def applicable_parse_quirks(text, prog):
    """Only hypotheses the program can distinguish: the construct concerned occurs in it."""
    ops = prog["ops"]
    lines = text.splitlines()
    out = []
    if "*" in ops:
        out.append("times-is-minus")
    if any(k in ops for k in (".b", ".h", ".w")):
        out.append("int-size-mask-halved")
    if "defined" in ops:
        out.append("defined-always-false")
    if any(ln.count('"') >= 3 for ln in lines):
        out.append("string-literal-greedy")
    if any(ln.count("'") >= 3 for ln in lines):
        out.append("char-literal-greedy")
    if "&&" in ops or "||" in ops:
        out.append("logical-op-returns-operand")
    if ("unary-" in ops or "unary+" in ops) and any(k in ops for k in ("*", "/", "%")):
        out.append("unary-binds-looser-than-multiplicative")
    return out


def classify_config(text, extern, got, prog):
    for qs in subsets(applicable_parse_quirks(text, prog)):
        try:
            alt = norm_ref(bd_ref.parse(text, extern, quirks=qs))
        except (bd_ref.BDError, MemoryError, OverflowError):
            continue
        if len(alt["sections"]) == len(got["sections"]):
            reconcile_blobs(alt, got)
        if first_diff(alt, got) is None:
            return qs
    return None


def classify_commands(prog, read_file, got, applicable):
    for qs in subsets(applicable):
        try:
            alt = bd_ref.commands(prog, read_file, quirks=qs)
        except (bd_ref.BDError, MemoryError, OverflowError):
            continue
        if not diff_commands(alt, got):
            return qs
    return None


def judge_program(ctx, text, extern, *, meta=None, count_programs=True):
    """Run one program through SPSDK and the reference.  Returns the stage reached:
    'ref-rejected' | 'refused-parse' | 'config-mismatch' | 'refused-build' | 'commands-unjudged' | 'commands-mismatch' | 'ok'."""
    e = env(ctx)
    meta = meta or {}
    read_file = read_file_for(e["workdir"])
    try:
        prog = bd_ref.parse(text, extern)
    except bd_ref.BDError as ex:
        ctx.count("generator_rejected_by_reference")
        ctx.note("generator_rejected_by_reference", {"why": f"{type(ex).__name__}: {ex}", "text": text[:400]})
        return "ref-rejected"
    if meta.get("consts") is not None and meta["consts"] != prog["constants"]:
        raise core.Inconclusive("generator bookkeeping differs from the reference interpreter for a constant")
    if count_programs:
        ctx.count("programs")
    sig_base = [sorted(set(meta.get("blocks", []))), sorted(meta.get("kinds", []))]
    witness = {"program": text, "extern": [os.path.basename(x) for x in extern]}

    # ---- stage 1: the parser -------------------------------------------------------------
    try:
        cfg, variables = spsdk_parse(text, extern)
    except Exception as ex:  # pylint: disable=broad-except
        check_reused_results(ctx)
        _refused(ctx, sig_base, "parse", ex, count_programs)
        return "refused-parse"
    check_reused_results(ctx)
    if cfg is None:
        ctx.refused(sig_base + ["parse"], "parse returned None")
        if count_programs:
            ctx.count("programs_refused")
        return "refused-parse"
    want = norm_ref(prog)
    got = norm_config(cfg, variables)
    ctx.count("config_compared")
    if len(want["sections"]) == len(got["sections"]):
        reconcile_blobs(want, got)
    d = first_diff(want, got)
    if d is not None:
        qs = classify_config(text, extern, got, prog)
        detail = dict(witness, differs_at=d[0], expected=short(d[1]), spsdk=short(d[2]))
        if qs:
            for q in qs:
                ctx.violation(MECH[q], dict(detail, reinterpretation=list(qs)))
        else:
            ctx.violation("bd-config-differs:" + _path_class(d[0]), detail)
        if count_programs:
            ctx.count("programs_accepted")
        return "config-mismatch"

    # ---- stage 2: configuration -> command objects -------------------------------------------
    try:
        image = spsdk_build(cfg, e)
    except Exception as ex:  # pylint: disable=broad-except
        _refused(ctx, sig_base, "build", ex, count_programs)
        ctx.ok(sig_base + ["config-equal, build refused"], sample={"program": text[:300]})
        return "refused-build"
    if count_programs:
        ctx.count("programs_accepted")
    for k, v in prog["ops"].items():
        e["ops"][k] = e["ops"].get(k, 0) + v
    try:
        expected = bd_ref.commands(prog, read_file)
    except bd_ref.BDOutOfDomain as ex:
        ctx.count("commands_out_of_domain")
        ctx.ok(sig_base + ["config-equal, commands not judged"], sample={"program": text[:300], "why": str(ex)})
        return "commands-unjudged"
    except bd_ref.BDSemanticError as ex:
        ctx.count("semantic_error_accepted_not_judged")
        ctx.note("semantic_error_accepted", {"why": str(ex), "program": text[:300]})
        return "commands-unjudged"
    got_cmds = observe_commands(image)
    ctx.count("commands_compared", sum(len(s["commands"]) for s in expected) or 1)
    diffs = diff_commands(expected, got_cmds)
    if diffs:
        kinds = {c["kind"] for s in expected for c in s["commands"]}
        applicable = [q for q in CMD_QUIRKS if (q == "fill-range-length-ignored" and "fill" in kinds)
                      or (q == "blob-as-le-word" and kinds & {"load", "encrypt"})
                      or (q == "fuse-blob-by-magnitude" and "prog" in kinds)]
        qs = classify_commands(prog, read_file, got_cmds, applicable)
        detail = dict(witness, first_difference=diffs[0][1][:300], differences=len(diffs))
        if qs:
            for q in qs:
                ctx.violation(MECH[q], dict(detail, reinterpretation=list(qs)))
        else:
            kind = diffs[0][0].rsplit("(", 1)[-1].rstrip(")") if "(" in diffs[0][0] else "structure"
            ctx.violation("bd-command-differs:" + kind, detail)
        return "commands-mismatch"
    ncmd = sum(len(s["commands"]) for s in expected)
    ctx.ok(sig_base + ["commands-equal"], sample={"program": text[:400], "sections": len(expected), "commands": ncmd})
    return "ok"


def _path_class(path):
    for key in ("options", "constants", "sources", "keyblobs", "sections"):
        if path.startswith("/" + key):
            rest = path[len(key) + 1:]
            if key == "sections":
                for f in ("/id", "/src", "/mem", "/addr", "/len", "/arg", "/sp", "/all", "/unsecure", "/nsec", "/version",
                          "/keyblob", "/op", "/len"):
                    if rest.endswith(f) or (f + "[") in rest or rest.endswith(f + "/len"):
                        return key + f.replace("/", "-")
            return key
    return "structure"


def _refused(ctx, sig_base, stage, ex, count_programs=True):
    spsdk_error = core.is_refusal(ex)
    if core.origin_of(ex) != "repo" and not spsdk_error:
        raise ex  # harness bug, not a refusal
    reason = f"{stage}: {type(ex).__name__}: {str(ex).splitlines()[0][:90] if str(ex) else ''}"
    if stage == "parse" and spsdk_error:
        reason = "parse: SPSDKError (bdcompiler syntax / unsupported)"
    ctx.refused(sig_base + [stage], reason)
    if count_programs:
        ctx.count("programs_refused")
    if not spsdk_error:
        ctx.count("refused_with_non_spsdk_exception")
        ctx.note("non_spsdk_exception_types", f"{stage}: {type(ex).__name__}")


# ------------------------------------------------------------------------------------------
# unsupported constructs: must raise

def unsupported_programs(rng, wd, stats):
    """(label, text, extern) - a valid generated program with one unsupported construct spliced in."""
    g = ProgGen(rng, wd, stats, refusable=False, quotes_in_comments=False)
    g.blocks.append("options")
    head = "options { flags = 0x8; }\nconstants { k1 = 0x100; k2 = 2; }\nsources { src1 = \"f0.bin\"; src2 = extern(0); }\n" \
           "keyblob (0) { (start = 0x1000, end = 0x13ff, key = \"00112233445566778899aabbccddeeff\", counter = \"0011223344556677\") }\n"
    g.consts.update({"k1": 0x100, "k2": 2})
    g.names.update({"k1", "k2", "src1", "src2"})
    g.sources = [("src1", "f0.bin"), ("src2", "f2.bin")]
    g.keyblobs = [{"id": 0, "start": 0x1000, "end": 0x13FF, "encrypting": True}]
    extern = [os.path.join(wd, "f2.bin")]

    def body(n=None):
        return " ".join(g.statement() for _ in range(rng.randrange(0, 4) if n is None else n))

    e = g.eg
    items = [
        ("if", f"section (0) {{ {body()} if ({e.bool_expr(2)[0]}) {{ {body()} }} {body()} }}"),
        ("if-else", f"section (0) {{ if {e.bool_expr(1)[0]} {{ {body(1)} }} else {{ {body(1)} }} }}"),
        ("if-else-if", f"section (0) {{ if (k1 > k2) {{ reset; }} else if (k2) {{ {body(1)} }} {body()} }}"),
        ("from", f"section (0) {{ {body()} from src1 {{ load $.text > 0x100; }} }}"),
        ("from-basic", f"section (0) {{ {body()} from src2 {{ reset; erase all; }} {body()} }}"),
        ("from-empty", "section (0) { from src1 { } }"),
        ("mode", f"section (0) {{ {body()} mode {e.u32(1)[0]}; {body()} }}"),
        ("message-info", f"section (0) {{ info \"starting\"; {body()} }}"),
        ("message-warning", f"section (0) {{ {body()} warning \"careful\"; }}"),
        ("message-error", f"section (0) {{ {body()} error \"stop\"; }}"),
        ("section-list", f"section (0) {{ load $.text > {e.u32(1)[0]}; {body()} }}"),
        ("section-list-multi", f"section (0) {{ {body()} load $.data, ~$.bss > 0x2000; }}"),
        ("section-list-from", f"section (0) {{ load $.text from src1 > 0x100; }}"),
        ("section-list-complement", "section (0) { load ~$.bss > 0x100; }"),
        ("sizeof", f"section (0) {{ {body()} load sizeof(k1) > 0x100; }}"),
        ("sizeof-symbol", f"section (0) {{ erase 0x100..0x100 + sizeof(src1?:main); }}"),
        ("symbol-ref-expr", f"section (0) {{ {body()} load 5 > src1?:main; }}"),
        ("symbol-ref-call", f"section (0) {{ jump src1?:entry; {body()} }}"),
        ("call-source-name", f"section (0) {{ {body()} call src1; }}"),
        ("jump-source-name", f"section (0) {{ jump src2 (0); }}"),
        ("load-target-dot", f"section (0) {{ {body()} load src1 > .; }}"),
        ("load-no-target", f"section (0) {{ load src1; {body()} }}"),
        ("section-from-source", "section (0) <= src1;"),
    ]
    # observed, not judged: the document says "section_options is not supported and raises syntax error when used",
    # tests/nxpimage/test_bd_compiler.py::test_section_option_list requires them to parse
    observed_only = [
        ("section-options", f"section (0; alignment = {e.u32(1)[0]}, cleartext = 1) {{ {body()} }}"),
        # valid by the documented grammar; SPSDK's optional memory *name* makes it ambiguous (not generated elsewhere)
        ("identifier-led operand: erase k1 + 4 .. k1 + 0x100", "section (0) { erase k1 + 4 .. k1 + 0x100; }"),
        ("identifier-led operand: load k1 > 0x100", "section (0) { load k1 > 0x100; }"),
        ("program without options block", None),
    ]
    out = [(label, head + text + "\n", extern) for label, text in items]
    out += [("observed:" + label, (head + text + "\n") if text else "section (0) { erase all; }\n", extern)
            for label, text in observed_only]
    out.append(("source-attributes", head.replace('"f0.bin";', '"f0.bin" (x = 1, y = "z");') + "section (0) { }\n", extern))
    out.append(("source-attribute", head.replace("extern(0);", "extern(0) (x = 1);") + "section (0) { }\n", extern))
    out.append(("source-attributes-empty", head.replace("extern(0);", "extern(0) ();") + "section (0) { }\n", extern))
    out.append(("keyblob-empty-list", head + "keyblob (1) { () }\nsection (0) { }\n", extern))
    out.append(("keyblob-no-list", head + "keyblob (1) { }\nsection (0) { }\n", extern))
    out.append(("keyblob-two-lists",
                head + "keyblob (1) { (start = 0x2000, end = 0x23ff) (key = \"00112233445566778899aabbccddeeff\", counter = \"0011223344556677\") }\n"
                "section (0) { }\n", extern))
    out.append(("ident-source-name", head + "constants { z = exists(src1); }\nsection (0) { }\n", extern))
    return out


# ------------------------------------------------------------------------------------------
# directed witnesses (deterministic; each mechanism of DESIGN.md section 3 is re-found in every run)

_HEAD = "options { flags = 0x8; }\n"
DIRECTED = [
    ("times", _HEAD + "constants { a = 6 * 7; }\nsection (0) { load 0x11223344 > a; }\n"),
    ("int-size", _HEAD + "constants { b = 0x1234ab.b; h = 0x1234ab.h; w = 0x9912345678.w; }\nsection (0) { load 0x55.b > 0x100..0x110; }\n"),
    ("defined", _HEAD + "constants { a = 1; d = defined(a); n = defined(zz9); }\nsection (0) { version_check sec d + 1; }\n"),
    ("two-strings-one-line", 'options { flags = 0x8; s1 = "first"; s2 = "second"; }\nsection (0) { }\n'),
    ("string-then-quoted-comment", 'options { flags = 0x8; }\nsources { a = "f0.bin"; // the "boot" image\n }\nsection (0) { load a > 0x100; }\n'),
    ("two-char-literals-one-line", _HEAD + "constants { c = 'a' + 'b'; }\nsection (0) { }\n"),
    ("logical-operands", _HEAD + "constants { p = (3 && 5) == 1; q = 0 || 7; r = 2 && 1; }\nsection (0) { }\n"),
    ("unary-minus", _HEAD + "constants { x = -(2 - 5) % 4; y = 10 - -(1 - 8) / 2; }\nsection (0) { }\n"),
    ("fill-range", _HEAD + "section (0) { load 0x5a5a5a5a > 0x2000..0x3000; }\n"),
    ("blob-4", _HEAD + "section (0) { load {{01 02 03 04}} > 0x100; }\n"),
    ("blob-mem", _HEAD + "section (0) { load @288 {{aa bb cc dd}} > 0x08000188; load sdcard {{aa bb cc dd}} > 0x08000188; }\n"),
    ("blob-8", _HEAD + "section (0) { load {{ ff 2e 90 07 77 5f 1d 20 }} > 0xa0000000; }\n"),
    ("blob-2", _HEAD + "section (0) { load {{aa bb}} > 0x100; }\n"),
    ("blob-encrypt", _HEAD + 'keyblob (0) { (start = 0x1000, end = 0x13ff, key = "00112233445566778899aabbccddeeff",\n counter = "0011223344556677") }\n'
     "section (0) { encrypt (0) { load {{01 02 03 04}} > 0x1000; } }\n"),
    ("fuse-blob-leading-zero", _HEAD + "section (0) { load fuse {{00 00 00 00 11 22 33 44}} > 0x01000188; }\n"),
    ("fuse-blob-8", _HEAD + "section (0) { load fuse {{88 99 aa bb cc dd ee ff}} > 0x01000188; load ifr {{aa bb cc dd}} > 0x20; load @4 0xaabb > 0x24; }\n"),
    ("keyblob-order", _HEAD + 'keyblob (3) { (start = 0x1000, end = 0x13ff, key = "000102030405060708090a0b0c0d0e0f",\n counter = "0011223344556677") }\n'
     'keyblob (0) { (start = 0x2000, end = 0x23ff, key = "101112131415161718191a1b1c1d1e1f",\n counter = "8899aabbccddeeff") }\n'
     "sources { s = \"f0.bin\"; }\n"
     "section (7) { encrypt (0) { load s > 0x2000; } keywrap (3) { load {{000102030405060708090a0b0c0d0e0f}} > 0x40; } keywrap (0) { load {{ffeeddccbbaa99887766554433221100}} > 0x80; } }\n"),
    ("statements", _HEAD + "constants { a = 0x100; }\nsection (1) { erase all; erase unsecure all; erase @8 all; erase sdcard 0x1000..0x2000; enable @9 a; "
     "jump 0x1000; jump 0x1000 (7); jump_sp 0x20000e00 0x1000 (0x5a5a5a5a); version_check nsec 3; keystore_to_nv @9 0x800; keystore_from_nv @9 0x800; }\n"
     "section (2) { }\nsection (3) { load \"f1.bin\" > a; }\n"),
    ("precedence", _HEAD + "constants { a = 1 | 2 & 3; b = 1 + 2 << 3; c = 100 / 10 / 5; d = 2 - 3 - 4; e = 1 ^ 3 & 2; f = 7 % 4 + 1; g = -2 + 3; "
     "h = 1 < 2 == 1; i = 1 || 0 && 0; j = !0 + 1; k = 256 >> 4 >> 2; l = (1 + 2) - 3 < 4 & 1; }\nsection (0) { }\n"),
    ("call-reset", _HEAD + "section (0) { call 0x1000 (3); reset; }\n"),
]


# ------------------------------------------------------------------------------------------
# CLI


def run_cli(ctx, text, extern, label):
    from click.testing import CliRunner

    from spsdk.apps import nxpimage

    e = env(ctx)
    wd = e["workdir"]
    bd = os.path.join(wd, f"cli_{label}.bd")
    out = os.path.join(wd, f"cli_{label}.sb")
    with open(bd, "w", encoding="utf-8") as f:
        f.write(text)
    if os.path.exists(out):
        os.remove(out)
    args = ["sb21", "export", "-c", bd, "-o", out, "-k", e["kek_path"], "-s", e["key"], "-S", e["cert"], "-R", e["cert"],
            "-h", os.path.join(wd, "hash_cli.bin")] + list(extern)
    cwd = os.getcwd()
    os.chdir(wd)
    try:
        res = CliRunner().invoke(nxpimage.main, args, catch_exceptions=True)
    finally:
        os.chdir(cwd)
    data = None
    if res.exit_code == 0 and os.path.exists(out):
        with open(out, "rb") as f:
            data = f.read()
    for p in (bd, out):
        if os.path.exists(p):
            os.remove(p)
    return res, data


def judge_cli(ctx, text, extern, label, meta):
    e = env(ctx)
    read_file = read_file_for(e["workdir"])
    try:
        prog = bd_ref.parse(text, extern)
        expected = bd_ref.commands(prog, read_file)
    except bd_ref.BDError:
        return "skipped"
    # the API path first (reports its own findings under their own keys); the command line is judged for programs
    # on which the API path agrees with the reference or refuses, so that a CLI finding is specific to the CLI
    stage = judge_program(ctx, text, extern, meta=meta, count_programs=False)
    if stage in ("config-mismatch", "commands-mismatch", "commands-unjudged", "ref-rejected"):
        ctx.count("cli_skipped_api_path_differs")
        return "skipped-api"
    api = "ok" if stage == "ok" else "refused"
    res, data = run_cli(ctx, text, extern, label)
    ctx.count("cli_runs")
    sig = ["cli", sorted(meta.get("kinds", []))]
    if res.exit_code != 0 or data is None:
        exc = res.exception
        ctx.refused(sig + ["refused"], f"cli: exit {res.exit_code} {type(exc).__name__ if exc else ''}")
        if api == "ok":
            ctx.note("cli_refused_but_api_accepted", {"program": text[:300], "exception": core.exc_brief(exc) if exc else None})
        return "refused"
    if api == "refused":
        ctx.violation("bd-cli-accepts-what-api-refuses", {"program": text})
        return "mismatch"
    try:
        _, sections = bd_ref.decode_sb21(data, e["kek"])
    except ValueError as ex:
        ctx.violation("bd-cli-output-undecodable", {"program": text, "why": str(ex)})
        return "mismatch"
    ctx.count("cli_files_decoded")
    diffs = diff_commands(expected, sections, exact_load_length=False)
    if diffs:
        kinds = {c["kind"] for s in expected for c in s["commands"]}
        applicable = applicable_parse_quirks(text, prog) + [
            q for q in CMD_QUIRKS if (q == "fill-range-length-ignored" and "fill" in kinds)
            or (q == "blob-as-le-word" and kinds & {"load", "encrypt"})
            or (q == "fuse-blob-by-magnitude" and "prog" in kinds)]
        qs = None
        for cand in itertools.islice(subsets(applicable), 300):
            try:
                pq = [q for q in cand if q in PARSE_QUIRKS]
                alt_prog = bd_ref.parse(text, extern, quirks=pq) if pq else prog
                alt = bd_ref.commands(alt_prog, read_file, quirks=[q for q in cand if q in CMD_QUIRKS])
            except (bd_ref.BDError, MemoryError, OverflowError):
                continue
            if not diff_commands(alt, sections, exact_load_length=False):
                qs = cand
                break
        detail = {"program": text, "first_difference": diffs[0][1][:300], "via": "nxpimage sb21 export + reference SB2.1 decoder"}
        if qs:
            for q in qs:
                ctx.violation(MECH[q], dict(detail, reinterpretation=list(qs)))
        else:
            ctx.violation("bd-cli-command-differs", detail)
        return "mismatch"
    ctx.ok(sig + ["file decoded, commands equal"],
           sample={"program": text[:300], "file_bytes": len(data), "commands": sum(len(s["commands"]) for s in sections)})
    return "ok"


# ------------------------------------------------------------------------------------------


def run_case(case, ctx):  # noqa: C901
    kind = case["kind"]
    rng = ctx.rng
    e = env(ctx)
    wd = e["workdir"]
    stats: dict = {}

    if kind == "gen":
        for _ in range(case["n"]):
            g = ProgGen(rng, wd, stats)
            text = g.program()
            judge_program(ctx, text, g.extern, meta={"blocks": g.blocks, "kinds": g.kinds, "consts": g.consts})
        for k, v in stats.items():
            ctx.count(k, v)
        return

    if kind == "expr":
        # many expressions, one constant each: precise witnesses for operator semantics
        n_ok = 0
        for _ in range(case["n"] // 10):
            consts: dict = {}
            eg = ExprGen(rng, consts, stats)
            lines = []
            for i in range(10):
                name = f"k{i}"
                if rng.random() < 0.35:
                    t, v = eg.bool_expr(core.pick(rng, [1, 2, 3, 4, 5]))
                else:
                    t, v = eg.int_expr(core.pick(rng, [1, 2, 3, 4, 5, 5]))
                lines.append(f"{name} = {t};")
                consts[name] = v
            text = "options { flags = 0x8; }\nconstants {\n  " + "\n  ".join(lines) + "\n}\nsection (0) { }\n"
            st = judge_program(ctx, text, [], meta={"blocks": ["options", "constants"], "kinds": ["expressions"]}, count_programs=False)
            ctx.count("expression_programs")
            n_ok += st == "ok"
        ctx.count("expressions", case["n"])
        return

    if kind == "directed":
        for label, text in DIRECTED:
            st = judge_program(ctx, text, [], meta={"blocks": ["directed"], "kinds": [label]}, count_programs=False)
            ctx.count("directed")
            ctx.note("directed_outcomes", f"{label}: {st}")
        return

    if kind == "unsupported":
        for _ in range(case["n"]):
            for label, text, extern in unsupported_programs(rng, wd, stats):
                if label.startswith("observed:"):
                    stage = "parse"
                    try:
                        cfg, _ = spsdk_parse(text, extern)
                        stage = "build"
                        spsdk_build(cfg, e)
                        ctx.note("observed_not_judged", f"{label[9:]}: accepted; parser output {core.jsonable(cfg.get('sections'))}"[:400])
                    except Exception as ex:  # pylint: disable=broad-except
                        if core.origin_of(ex) != "repo" and not core.is_refusal(ex):
                            raise
                        ctx.note("observed_not_judged", f"{label[9:]}: refused at {stage} ({type(ex).__name__})")
                    continue
                ctx.count("unsupported_tried")
                try:
                    bd_ref.parse(text, extern)
                    raise core.Inconclusive(f"reference accepts the unsupported construct {label}")
                except bd_ref.BDUnsupported:
                    pass
                except bd_ref.BDError as ex:
                    raise core.Inconclusive(f"reference: {label}: {type(ex).__name__}: {ex}") from ex
                try:
                    cfg, _ = spsdk_parse(text, extern)
                    if cfg is None:
                        raise core.RefReject("parse returned None")
                    stage = "parse"
                    spsdk_build(cfg, e)
                    stage = "build"
                except core.RefReject:
                    ctx.ok(["unsupported", label, "refused"])
                    continue
                except Exception as ex:  # pylint: disable=broad-except
                    if core.origin_of(ex) != "repo" and not core.is_refusal(ex):
                        raise
                    ctx.ok(["unsupported", label, "refused"], sample={"construct": label, "error": core.exc_brief(ex)[:160]})
                    if not core.is_refusal(ex):
                        ctx.note("non_spsdk_exception_types", f"unsupported/{label}: {type(ex).__name__}")
                    continue
                ctx.violation("bd-unsupported-construct-accepted:" + label.split("-")[0],
                              {"construct": label, "program": text, "stage_completed": stage})
        return

    if kind == "cli":
        done = 0
        tries = 0
        while done < case["n"] and tries < 40:
            tries += 1
            g = ProgGen(rng, wd, stats, refusable=False, cli=True)
            g.long_blobs = False
            text = g.program()
            if "flags" not in text:
                continue
            st = judge_cli(ctx, text, g.extern, f"{case['k']}_{done}", {"kinds": g.kinds, "blocks": g.blocks})
            if st not in ("skipped", "skipped-api"):
                done += 1
        if case["k"] == 0:
            for label, text in DIRECTED:
                if label in ("statements", "keyblob-order", "fuse-blob-8", "blob-mem", "fill-range"):
                    judge_cli(ctx, text, [], "d_" + label.replace("-", "_"), {"kinds": [label], "blocks": ["directed"]})
        return

    raise core.Inconclusive(f"unknown case kind {kind}")
