"""C02 - Master Boot Image: signatures, CRC, HMAC and encryption pass the ROM checks.

Runtime monitoring: every protected image type of every family is exported by the real builder and handed to the
independent ROM model ``vf.refs.mbi_rom`` together with trust anchors computed from the key pool's raw numbers.
Monitors: M-SIGN (the exact bytes given to the signature provider / private key must be the authenticated region the
model derives from the image) and the single-bit-flip coverage sweep over every region of the exported image.
"""
from __future__ import annotations

import os
import re
import shutil
import struct

from vf import core, pki
from vf.props import mbi_gen as G
from vf.refs import mbi_rom

ID = "C02"
ROTATING_PKI = 0.3  # fraction of the key / certificate paths that are rotating slots (vf/pki.py)
DECOY_CWD = True  # the worker runs in a directory that holds other bytes under every input file name (vf/worker.py)
LEVEL = "exploration"
TECHNIQUE = ("runtime monitoring: independent ROM acceptance model (pure-Python RSA/ECDSA/AES/CRC) on exported bytes + "
             "M-SIGN hook on the signature provider + single-bit-flip coverage sweep")
RULE = (
    "the C01 generator restricted to protected classes (CRC, signed, NXP-signed, encrypted+signed; BCA-CRC and Vx classes of "
    "the DSC parts) of every family in get_families('mbi'); key matrix RSA-2048/3072/4096 x chain depth 1..3 x 1..4 roots x "
    "every used index, P-256/P-384 x 1..4 roots x every used index x with/without ISK (same or other curve) x ISK user data "
    "0..limit; TrustZone default/custom, key store, relocation table, manifest digest. For each accepted image single-bit "
    "flips at sampled offsets of EVERY region the model finds (quick: 8 per region incl. both edges; thorough: up to 400 per "
    "image, evenly spaced + edges). Signature = (image class, cert/key signature, option signature); non-trivial = the model "
    "reached its verdict on the exported bytes."
)
ASSUMPTIONS = [
    "the ROM model is the format description of DESIGN.md Appendix A; it is self-tested on 63 elftosb/NXP-made golden images "
    "of the repository (CRC, RSA 2048/3072/4096, several roots, chains, HMAC, key store, encrypted, BCA-CRC, Vx) and on the "
    "v2.1 goldens, including one flipped bit in every protected region",
    "regions the format leaves unauthenticated are not judged by the flip sweep: key store, Vx flash-configuration field, "
    "ISK-hash/WPC/DUK area, everything before 0xC00 except the BCA CRC words in the BCA-CRC class",
    "a manifest digest algorithm other than the one implied by the signing key is not generated (SPSDK itself logs "
    "'image won't boot')",
    "device state that is not in the image (OTP vs key-store key source) follows the image: key store present => user key "
    "is used directly, otherwise the OTP derivation",
]
REQUIRED_COUNTERS = ["rom_accept_evaluations", "msign_compared", "flips_judged", "rkth_compared"]
CASE_TIMEOUT_S = 300
WATCHDOG_S = {"quick": 900, "thorough": 6000}

_SIGN_LOG: list = []     # (level, data bytes, key fingerprint / provider info)


# ------------------------------------------------------------------------------------ selftest
def selftest(ctx):
    from vf.props import c01

    return c01.selftest(ctx)


# ------------------------------------------------------------------------------------ monitors
def install_monitors(ctx):
    """M-SIGN: record the exact bytes handed to the signature provider and to the private keys."""
    if not os.environ.get(core.GUARD):
        return
    from spsdk.crypto import keys as spsdk_keys
    from spsdk.crypto.signature_provider import SignatureProvider

    def wrap(level, fn):
        def wrapper(self, data, *a, **kw):
            _SIGN_LOG.append((level, bytes(data), type(self).__name__))
            return fn(self, data, *a, **kw)

        wrapper.__wrapped__ = fn
        wrapper.__name__ = fn.__name__
        wrapper.__doc__ = fn.__doc__
        return wrapper

    n = 0
    if not hasattr(SignatureProvider.get_signature, "__wrapped__"):
        SignatureProvider.get_signature = wrap("provider", SignatureProvider.get_signature)
        n += 1
    for cname in ("PrivateKeyRsa", "PrivateKeyEcc"):
        cls = getattr(spsdk_keys, cname, None)
        if cls is not None and "sign" in cls.__dict__ and not hasattr(cls.__dict__["sign"], "__wrapped__"):
            setattr(cls, "sign", wrap("key", cls.__dict__["sign"]))
            n += 1
    ctx.count("msign_hooks_installed", n)


# --------------------------------------------------------------------------------------- cases
WITNESSES = [
    {"kind": "witness", "name": "hmac-signed-0x38", "family": "mimxrt685s", "target": "load_to_ram", "auth": "signed",
     "want": {"payload_class": "0x38", "content": "random", "tz": "disabled", "kind": "rsa2048", "depth": 1, "reloc": 0}},
    {"kind": "witness", "name": "enc-0x40", "family": "mimxrt533s", "target": "load_to_ram", "auth": "encrypted",
     "want": {"payload_class": "0x40", "content": "random", "tz": "disabled", "kind": "rsa2048", "depth": 1, "reloc": 0}},
    {"kind": "witness", "name": "enc-0x44-tz-ks", "family": "mimxrt595s", "target": "load_to_ram", "auth": "encrypted",
     "want": {"payload_class": "0x44", "content": "random", "tz": "custom", "kind": "rsa3072", "depth": 3, "reloc": 2, "key_store": True}},
    {"kind": "witness", "name": "v1-4096-depth3", "family": "lpc55s69", "target": "xip", "auth": "signed",
     "want": {"payload_class": "0x201", "content": "random", "tz": "custom", "kind": "rsa4096", "depth": 3, "nroots": 4, "used": 3}},
    {"kind": "witness", "name": "v21-p384-isk-p256-ud", "family": "mcxn947", "target": "xip", "auth": "signed",
     "want": {"payload_class": "0x201", "content": "random", "tz": "custom", "curve": "p384", "isk": True, "isk_curve": "p256",
              "user_data_len": 96, "nroots": 4, "used": 3}},
    {"kind": "witness", "name": "v21-digest", "family": "rw612", "target": "load_to_ram", "auth": "signed",
     "want": {"payload_class": "0x1FF", "content": "random", "tz": "enabled", "curve": "p256", "isk": False, "digest": "add", "nroots": 1}},
    {"kind": "witness", "name": "v1-mixed-chain", "family": "mimxrt595s", "target": "xip", "auth": "signed",
     "want": {"payload_class": "0x200", "content": "random", "tz": "enabled", "kind": "rsa4096", "depth": 3, "mixed": True, "leaf_kind": "rsa2048"}},
    {"kind": "witness", "name": "dsc-short-app", "family": "mwct2012", "target": "xip", "auth": "crc",
     "want": {"payload_class": "0x400", "content": "random"}},
    {"kind": "witness", "name": "vx", "family": "mc56f81868", "target": "xip", "auth": "signed",
     "want": {"payload_class": "0xE00", "content": "random", "add_hash": True}},
    {"kind": "witness", "name": "bca-crc", "family": "mc56f81768", "target": "xip", "auth": "crc",
     "want": {"payload_class": "0xE00", "content": "random"}},
]


def _protected(family):
    return [i for i in G.images(family) if i["auth"] in G.PROTECTED_AUTH]


def cases(tier, seed):  # noqa: ARG001
    for w in WITNESSES:
        yield dict(w)
    reps = set(G.representative_families())
    per_rep, per_other = (12, 3) if tier == "quick" else (60, 30)
    for fam in G.families():
        draws = per_rep if fam in reps else per_other
        for info in _protected(fam):
            # CRC images have one mechanism: fewer draws; signed / encrypted carry the key matrix
            d = draws if info["auth"] != "crc" else max(1, draws // 3)
            if info["auth"] == "encrypted":
                d *= 4
            elif G.m(info["mixins"], "MixinHmacMandatory"):
                d *= 2
            if tier == "quick" and fam not in reps and info["auth"] == "crc" and not G.m(info["mixins"], "ExportMixinCrcSignBca"):
                continue
            for k in range(d):
                yield {"kind": "gen", "family": fam, "target": info["target"], "auth": info["auth"], "k": k}
    # revisions whose image classes (or TrustZone register set) differ from the latest revision of the family
    for fam, rev in sorted(set(G.mbi_revisions()) | set(G.tz_revisions())):
        for info in G.images(fam, rev):
            if info["auth"] not in G.PROTECTED_AUTH:
                continue
            for k in range(3 if tier == "quick" else 30):
                yield {"kind": "gen", "family": fam, "target": info["target"], "auth": info["auth"], "k": k, "rev": rev,
                       "want": {"revision": rev}}


def _info(family, target, auth, revision="latest"):
    for i in G.images(family, revision):
        if i["target"] == target and i["auth"] == auth:
            return i
    raise core.Inconclusive(f"{family}/{revision}: no image ({target}, {auth}) in the database under test")


# ----------------------------------------------------------------------------------- helpers
def pad4(bts):
    return bts + bytes(-len(bts) % 4)


def slug(reason: str) -> str:
    s = re.sub(r"0x[0-9a-fA-F]+|\d+", "#", reason)
    s = re.sub(r"[^A-Za-z#]+", "-", s).strip("-").lower()
    return s[:70]


def hmac_offset_conflict(b):
    if not (b.has("MixinHmacMandatory") or b.has("MixinHmac")):
        return False
    n = len(pad4(b.app)) + _reloc_len(b.opts)
    return n <= 0x40 if b.has("ExportMixinAppTrustZoneCertBlockEncrypt") else n < 0x40


def _reloc_len(o):
    if not o.get("reloc"):
        return 0
    return sum(len(pad4(i)) for _d, i, _l in o["reloc"]) + 16 * len(o["reloc"]) + 16


def flip_offsets(rng, regions, tier, total_len):
    """[(region name, kind, offset, bit)] - every region is hit, both edges included."""
    out = []
    if tier == "quick":
        per = 8
        for name, s, e, kind in regions:
            offs = {s, e - 1}
            while len(offs) < min(per, e - s):
                offs.add(rng.randrange(s, e))
            out += [(name, kind, o, rng.randrange(8)) for o in sorted(offs)]
        return out
    budget = 400
    nreg = max(1, len(regions))
    for name, s, e, kind in regions:
        offs = {s, e - 1}
        share = max(8, (budget * (e - s)) // max(1, total_len), budget // (2 * nreg))
        step = max(8, (e - s) // max(1, share))
        offs.update(range(s, e, step))
        while len(offs) < min(8, e - s):
            offs.add(rng.randrange(s, e))
        out += [(name, kind, o, rng.randrange(8)) for o in sorted(offs)]
    if len(out) > 2 * budget:
        keep = set(rng.sample(range(len(out)), 2 * budget))
        edges = {i for i, (n_, k_, o_, b_) in enumerate(out) if any(o_ in (s, e - 1) for _n, s, e, _k in regions)}
        out = [x for i, x in enumerate(out) if i in keep or i in edges]
    return out


# ------------------------------------------------------------------------------------ run_case
def run_case(case, ctx):
    from spsdk.exceptions import SPSDKError

    family = case["family"]
    info = _info(family, case["target"], case["auth"], (case.get("want") or {}).get("revision", "latest"))
    os.makedirs(ctx.workdir, exist_ok=True)
    want = dict(case.get("want") or {})
    if case["kind"] == "gen" and "payload_class" not in want and ctx.rng.random() < 0.8:
        # the flip sweep re-verifies the whole image ~40..400 times: keep most payloads small
        plens = [p[0] for p in G.payload_lengths(info) if "64K" not in p[0] and "16K" not in p[0]]
        want["payload_class"] = ctx.rng.choice(plens)
    b = G.build(family, info, ctx.rng, ctx.workdir, tier=ctx.tier, want=want)
    try:
        _run(case, ctx, b, SPSDKError)
    finally:
        shutil.rmtree(b.dir, ignore_errors=True)


def _run(case, ctx, b, SPSDKError):  # noqa: C901
    family, info, o = b.family, b.info, b.opts
    viol0 = ctx._viol_in_case

    def viol(key, **detail):
        d = {"config": b.describe()}
        d.update(detail)
        ctx.violation(key, d)

    # DSC classes keep vectors, BCA, FCF and certificates in the first 0xC00 bytes of the APPLICATION itself
    dsc_short = b.has("MixinBcaTable") and len(b.app) < 0xC00
    del _SIGN_LOG[:]
    try:
        obj, data = G.export(b)
    except SPSDKError as e:
        ctx.count("export_refused")
        ctx.refused([info["cls"], b.payload_class.split("/")[0]], core.exc_brief(e))
        return
    except struct.error as e:
        if dsc_short and core.origin_of(e) == "repo":
            # not validated: the negative length word escapes as struct.error instead of a refusal
            viol("mbi-dsc-app-shorter-than-header-area", exception=core.exc_brief(e))
            return
        raise
    sign_log = list(_SIGN_LOG)
    del _SIGN_LOG[:]
    ctx.count("export_ok")
    prof = G.rom_profile(family, info, b.revision)
    an = G.anchors(b)
    kw = {"rkth": an.get("rkth"), "root_xy": an.get("root_xy"), "user_key": o.get("user_key")}

    # ---- 1. acceptance by the ROM model -------------------------------------------------------
    ctx.count("rom_accept_evaluations")
    try:
        rep = mbi_rom.accept(data, prof, **kw)
    except core.RefReject as e:
        reason = e.args[0]
        if hmac_offset_conflict(b):
            key = "mbi-encrypted-app-not-beyond-hmac-offset"
        elif dsc_short:
            key = "mbi-dsc-app-shorter-than-header-area"
        elif (b.cert and b.cert.get("v") == "v1" and b.cert.get("mixed") and reason.startswith("length word")
              and struct.unpack_from("<I", data, 0x20)[0] - len(data) == int(b.cert["kind"][3:]) // 8 - int(b.cert["leaf_kind"][3:]) // 8):
            # mechanism: signature size taken from the ROOT certificate, the signature is made by the LAST one
            key = "certv1-signature-size-from-root-certificate"
        else:
            key = f"rom-reject:{slug(reason)}"
        extra = {}
        if "signature does not verify" in reason:
            # localise with M-SIGN: was a different range handed to the signer than the one the format authenticates?
            try:
                lay = mbi_rom.walk(data, prof)
                prov = [d for lvl, d, _k in sign_log if lvl == "provider"]
                if lay.signed is not None and prov:
                    img_call = prov[-1] if not (b.cert and b.cert["v"] == "vx") else max(prov, key=len)
                    ctx.count("msign_compared")
                    if img_call != lay.signed:
                        key = "msign-signed-bytes-differ-from-authenticated-region"
                        extra = {"signed_len": len(img_call), "authenticated_len": len(lay.signed),
                                 "first_diff": next((hex(i) for i, (x, y) in enumerate(zip(img_call, lay.signed)) if x != y), "length")}
            except core.RefReject:
                pass
        viol(key, model=reason, file_len=len(data), header=core.hx(data[0x20:0x38]), **extra)
        return
    hdr = rep.header

    # ---- 1b. the same object gets another user key and is exported again (one image per device, one object): HMAC and
    #          encryption of the second image follow the key the object holds NOW
    if o.get("user_key") and getattr(obj, "hmac_key", None) and ctx.rng.random() < 0.5:
        new_key = core.rand_bytes(ctx.rng, len(o["user_key"]))
        ctx.count("user_key_changed_on_the_object")
        try:
            obj.hmac_key = new_key if ctx.rng.random() < 0.5 else new_key.hex()
            data2 = bytes(obj.export())
            mbi_rom.accept(data2, prof, **dict(kw, user_key=new_key))
        except core.RefReject as e:
            viol("second-export-after-user-key-change:" + slug(e.args[0]), model=e.args[0], file_len=len(data2))
            return
        except SPSDKError as e:
            viol("second-export-after-user-key-change-refused", exception=core.exc_brief(e))
            return
        finally:
            del _SIGN_LOG[:]

    # ---- 2. what was authenticated is what was asked for ----------------------------------------
    if hdr is not None and hdr["type"] != info["image_type"]:
        viol("image-type-bits", observed=hdr["type"], expected=info["image_type"])
    c = b.cert
    if c and c["v"] in ("v1", "v21"):
        ctx.count("rkth_compared")
        got = obj.rkth
        if got is None or bytes(got) != an["rkth"]:
            viol("rkth-property-differs-from-anchor", spsdk=core.hx(got or b""), independent=core.hx(an["rkth"]))
    if c and c["v"] == "v1":
        cb = rep.info["cert"]
        if rep.info.get("root_slot") != c["used"]:
            viol("v1-root-hash-at-wrong-slot", slot=rep.info.get("root_slot"), used=c["used"])
        if cb["count"] != c["depth"]:
            viol("v1-certificate-count", observed=cb["count"], expected=c["depth"])
        if cb["build"] != c["build"]:
            viol("v1-build-number", observed=cb["build"], expected=c["build"])
        lp, ll = cb["certs"][-1]
        n_, e_ = mbi_rom.x509_parts(rep.info["img"][lp:lp + ll])[4]
        nums = pki.numbers(b.sign_key)
        if (n_, e_) != (nums["n"], nums["e"]):
            viol("v1-last-certificate-is-not-the-signing-key")
        if rep.sig_len != (nums["n"].bit_length() + 7) // 8:
            viol("v1-signature-length", observed=rep.sig_len)
    if c and c["v"] == "v21":
        cb = rep.info["cert"]
        root = pki.numbers(c["roots"][c["used"]])
        size = root["size"]
        if cb["root_xy"] != root["x"].to_bytes(size, "big") + root["y"].to_bytes(size, "big"):
            viol("v21-root-public-key-not-the-selected-root")
        if cb["count"] != len(c["roots"]) or cb["used"] != c["used"]:
            viol("v21-root-record-count-or-index", observed=(cb["count"], cb["used"]), expected=(len(c["roots"]), c["used"]))
        if bool(cb["isk"]) != bool(c["isk"]) or cb["ca"] != (not c["isk"]):
            viol("v21-isk-presence-or-ca-flag", isk=bool(cb["isk"]), ca=cb["ca"])
        if cb["isk"] and c["isk"]:
            ik = pki.numbers(c["isk"])
            if cb["isk"]["xy"] != ik["x"].to_bytes(ik["size"], "big") + ik["y"].to_bytes(ik["size"], "big"):
                viol("v21-isk-public-key")
            if cb["isk"]["user_data"] != c["user_data"]:
                viol("v21-isk-user-data", observed=core.hx(cb["isk"]["user_data"]), expected=core.hx(c["user_data"]))
            if cb["isk"]["constraints"] != c["constraints"] & 0xFFFFFFFF:
                viol("v21-isk-constraints", observed=cb["isk"]["constraints"], expected=c["constraints"])
        if "fw_version" in o and rep.info["fw_version"] != o["fw_version"]:
            viol("manifest-firmware-version", observed=rep.info["fw_version"], expected=o["fw_version"])
        if "digest" in o and rep.info["digest_alg"] != o["digest"]:
            viol("manifest-digest-presence", observed=rep.info["digest_alg"], expected=o["digest"])
        if o.get("tz") == "custom" and rep.info["tz_off"] is not None:
            t0 = rep.info["tz_off"]
            if rep.info["img"][t0:t0 + len(o["tz_bytes"])] != o["tz_bytes"]:
                viol("manifest-trustzone-bytes")
    if c and c["v"] == "vx":
        if "fw_version" in o and rep.info["fw_version"] != o["fw_version"]:
            viol("vx-bca-firmware-version", observed=rep.info["fw_version"], expected=o["fw_version"])
        if rep.info["constraints"] != int(c["self_signed"]):
            viol("vx-isk-constraints", observed=rep.info["constraints"], expected=int(c["self_signed"]))
        ik = pki.numbers(c["isk"])
        if data[0x418:0x458] != ik["x"].to_bytes(32, "big") + ik["y"].to_bytes(32, "big"):
            viol("vx-isk-public-key")
        if o.get("add_hash") and not rep.info["isk_hash_ok"]:
            viol("vx-certificate-hash-missing", observed=core.hx(data[0x4A0:0x4B0]), expected=core.hx(rep.info["isk_hash"]))
    if prof.hmac_types and hdr is not None:
        ks = o.get("key_store")
        if bool(ks) != hdr["key_store"]:
            viol("key-store-flag", observed=hdr["key_store"], expected=bool(ks))
        elif ks and data[0x60:0x60 + len(ks)] != ks:
            viol("key-store-bytes")
    if rep.plaintext is not None:
        # the plaintext the model decrypts must be the image assembled from the INPUTS
        app = bytearray(pad4(b.app))
        for w in mbi_rom.RESERVED_WORDS:
            app[w:w + 4] = data[w:w + 4]
        expect = bytes(app)
        if o.get("reloc"):
            expect += mbi_rom.build_reloc(len(expect), [(d, i) for d, i, _l in o["reloc"]])
        if o.get("tz") == "custom":
            expect += o["tz_bytes"]
        ctx.count("decrypted_compared")
        if rep.plaintext != expect:
            viol("encrypted-image-does-not-decrypt-to-plaintext", got_len=len(rep.plaintext), want_len=len(expect),
                 first_diff=next((hex(i) for i, (x, y) in enumerate(zip(rep.plaintext, expect)) if x != y), "length"))
        if o.get("iv") is not None and rep.info["iv"] != o["iv"]:
            viol("encrypted-image-iv-not-the-configured-one", observed=core.hx(rep.info["iv"]), expected=core.hx(o["iv"]))

    # ---- 3. M-SIGN: the bytes handed to the signer are the authenticated region ------------------------
    if rep.signed is not None:
        prov = [d for lvl, d, _k in sign_log if lvl == "provider"]
        keyl = [d for lvl, d, _k in sign_log if lvl == "key"]
        ctx.count("msign_compared")
        if not prov:
            viol("msign-no-signature-provider-call")
        else:
            # the image signature is the LAST request, except in the Vx class (the ISK certificate is signed after it)
            img_call = prov[-1] if not (c and c["v"] == "vx") else max(prov, key=len)
            if img_call != rep.signed:
                viol("msign-signed-bytes-differ-from-authenticated-region", signed_len=len(img_call), authenticated_len=len(rep.signed),
                     calls=[len(x) for x in prov],
                     first_diff=next((hex(i) for i, (x, y) in enumerate(zip(img_call, rep.signed)) if x != y), "length"))
            if keyl and sorted(keyl) != sorted(prov):
                viol("msign-provider-and-key-data-differ", provider=[len(x) for x in prov], key=[len(x) for x in keyl])
            if c and c["v"] == "v21" and c["isk"]:
                cb = rep.info["cert"]
                img = rep.info["img"]
                tbs = img[cb["rec_off"]:cb["rec_end"]] + img[cb["isk"]["off"]:cb["isk"]["sig_off"]]
                if tbs not in prov[:-1]:
                    viol("msign-isk-certificate-tbs-differs", calls=len(prov))
            if c and c["v"] == "vx" and data[0x410:0x410 + 72] not in prov:
                viol("msign-vx-isk-certificate-tbs-differs", calls=len(prov))

    if ctx._viol_in_case != viol0:
        return

    # ---- 4. single-bit-flip coverage sweep ---------------------------------------------------------
    flips = flip_offsets(ctx.rng, rep.regions, ctx.tier, len(data))
    judged = accepted_free = 0
    per_region: dict = {}
    for name, kind, off, bit in flips:
        mod = bytearray(data)
        mod[off] ^= 1 << bit
        rejected = False
        r2 = None
        try:
            r2 = mbi_rom.accept(bytes(mod), prof, **kw)
        except core.RefReject:
            rejected = True
        except Exception as exc:  # pylint: disable=broad-except  (malformed DER deep inside asn1crypto etc.)
            rejected = True       # a structure the model cannot even walk is not bootable
            ctx.count("flip_model_exception")
            ctx.note("flip_model_exception", f"{name}: {core.exc_brief(exc)}")
        if kind == "isk_hash":
            if not o.get("add_hash"):
                kind = "free"
            else:
                rejected = rejected or not r2.info["isk_hash_ok"]
                kind = "field"
        if not rejected and hdr is not None and r2.header["type"] != hdr["type"]:
            # the flip hit the type bits: the image is now judged as ANOTHER (e.g. plain, unprotected) type -
            # it no longer passes as the protected type it was built as
            rejected = True
            ctx.count("flips_changing_the_image_type")
        if kind == "free":
            accepted_free += not rejected
            continue
        judged += 1
        per_region[name] = per_region.get(name, 0) + 1
        if not rejected:
            viol(f"flip-accepted:{slug(name)}", region=name, kind=kind, offset=hex(off), bit=bit, file_len=len(data))
            break
    ctx.count("flips_judged", judged)
    ctx.count("flips_in_unauthenticated_regions_accepted", accepted_free)
    if ctx._viol_in_case == viol0:
        sig = ["*" if case["kind"] == "gen" else family, info["cls"], info["image_type"], b.sig, sorted(per_region)]
        ctx.ok(sig, n=1 + judged, sample={"config": b.describe(), "file_len": len(data), "regions": [(n, hex(s), hex(e), k) for n, s, e, k in rep.regions],
                                          "flips_judged": judged})
