"""C09 - ciphers, MACs, hashes, CRCs and KDFs match their standards and invert.

Runtime monitoring: every public function of spsdk.crypto.{symmetric,hash,spsdk_hmac,cmac,hkdf,crc},
``Counter``, ``KeyStore.derive_*`` and the SB3.1 key derivation is driven with keys of every legal
size, every message length 0..80 plus sampled lengths up to 8 KiB, random and edge IVs / nonces /
tweaks / AAD / tag lengths, and each observed result is compared with a pure-Python reference
(vf.refs.{aes,modes,sm4,kdf,crcs} + SM3 / HMAC / SB3.1 KDF written out below) and with its inverse.
``install_monitors`` additionally wraps the real functions with inverse-law postconditions (plain
wrappers) so that they are judged under any workload - including the repository's own tests, which
one case runs in a pytest child process with this very module loaded as a plugin (``-p vf.props.c09``).

Nothing at module level imports spsdk (the reference part must stay independent of it).
"""
from __future__ import annotations

import binascii
import functools
import hashlib
import inspect
import json
import os
import subprocess
import sys
import zlib

from vf import core
from vf.refs import aes as ref_aes
from vf.refs import crcs as ref_crcs
from vf.refs import kdf as ref_kdf
from vf.refs import modes as ref_modes
from vf.refs import sm4 as ref_sm4

ID = "C09"
LEVEL = "exploration"
TECHNIQUE = (
    "runtime monitoring: differential oracle (pure-Python references) + inverse-law postconditions wrapped "
    "around the real functions, also under the repository's own crypto tests"
)
RULE = (
    "per algorithm and legal key size: every message length 0..80 (step 16 / 8 where the mode has no padding) plus "
    "boundary and random lengths up to 8192; IV/nonce/tweak random, all-zero, all-ones and left at the default on "
    "both sides; CCM nonce 7..13 x tag 4..16 x AAD 0..64 grid; tampered CCM / key-wrap inputs; hashes/HMAC for every "
    "EnumHashAlgorithm member; CRC for the three named algorithms; HKDF lengths 0..8160; key-store and SB3.1 KDF on "
    "random keys; Counter start values near 2^32 with increments 0..2^33 in both byte orders. A signature is "
    "(algorithm, key size, length class, option class); non-trivial = the real function returned a value that was "
    "compared with the reference and/or its inverse."
)
ASSUMPTIONS = [
    "AES-CTR is SP 800-38A with the standard incrementing function over the whole 128-bit block (big endian, wrapping)",
    "CBC wrappers pad with zero bytes to the block size (align_block): the inverse law demanded is "
    "decrypt(encrypt(m)) == m || 0^(-len(m) mod 16); with the IV defaulted on both sides the ciphertext must equal "
    "the reference under the IV recovered from its first block (no particular default value is demanded)",
    "an input refused with SPSDKError / ValueError / InvalidTag / InvalidUnwrap / UnsupportedAlgorithm is 'not accepted' "
    "and is counted, not judged; any other exception type escaping is a finding",
    "a tampered CCM / wrapped input counts as wrongly accepted only if the reference rejects it",
    "hash references: hashlib (system OpenSSL) and the interpreter's built-in HACL* modules, SM3 in pure Python",
    "SB3.1 KDF reference = CMAC counter mode over the derivation data of DESIGN.md appendix A, self-tested with the "
    "vectors of tests/sbfile/sb31/test_functions.py",
    "CrcAlg.CRC32_MPEG and CrcAlg.CRC16_XMODEM sharing tag 1 is reported as an observation, not judged",
]
REQUIRED_COUNTERS = [
    "cipher_vs_reference", "cipher_roundtrip", "default_param_roundtrip", "tamper_judged",
    "hash", "hash_incremental", "hmac", "hmac_validate", "cmac", "cmac_validate", "hkdf", "crc",
    "counter", "keystore_kdf", "sb31_kdf", "monitor_inverse_law", "repo_tests_monitor_evaluations",
]
CASE_TIMEOUT_S = 900
WATCHDOG_S = {"quick": 1500, "thorough": 5400}
MAX_JOBS = 16

MASK32 = 0xFFFFFFFF
K_CBC_DEFAULT_IV = "{alg}-cbc-decrypt-default-iv-rejected"
K_COUNTER_OVERFLOW = "counter-value-overflow-past-2^32"


# ==========================================================================================
# references that are not in vf/refs: SM3, HMAC (RFC 2104), hashes, SB3.1 KDF, key-store constants
# ==========================================================================================
def _rol32(x, n):
    n %= 32
    return ((x << n) | (x >> (32 - n))) & MASK32 if n else x


def sm3(data) -> bytes:
    """SM3 (GB/T 32905-2016) straight from the definition."""
    data = bytes(data)
    v = [0x7380166F, 0x4914B2B9, 0x172442D7, 0xDA8A0600, 0xA96F30BC, 0x163138AA, 0xE38DEE4D, 0xB0FB0E4E]
    msg = data + b"\x80" + bytes((55 - len(data)) % 64) + (8 * len(data)).to_bytes(8, "big")
    for off in range(0, len(msg), 64):
        w = [int.from_bytes(msg[off + 4 * i:off + 4 * i + 4], "big") for i in range(16)]
        for j in range(16, 68):
            x = w[j - 16] ^ w[j - 9] ^ _rol32(w[j - 3], 15)
            w.append(x ^ _rol32(x, 15) ^ _rol32(x, 23) ^ _rol32(w[j - 13], 7) ^ w[j - 6])
        a, b, c, d, e, f, g, h = v
        for j in range(64):
            t = 0x79CC4519 if j < 16 else 0x7A879D8A
            a12 = _rol32(a, 12)
            ss1 = _rol32((a12 + e + _rol32(t, j)) & MASK32, 7)
            ss2 = ss1 ^ a12
            if j < 16:
                ff = a ^ b ^ c
                gg = e ^ f ^ g
            else:
                ff = (a & b) | (a & c) | (b & c)
                gg = (e & f) | (~e & MASK32 & g)
            tt1 = (ff + d + ss2 + (w[j] ^ w[j + 4])) & MASK32
            tt2 = (gg + h + ss1 + w[j]) & MASK32
            d, c, b, a = c, _rol32(b, 9), a, tt1
            h, g, f = g, _rol32(f, 19), e
            e = tt2 ^ _rol32(tt2, 9) ^ _rol32(tt2, 17)
        v = [x ^ y for x, y in zip(v, (a, b, c, d, e, f, g, h))]
    return b"".join(x.to_bytes(4, "big") for x in v)


def _builtin_hash(label):
    """The interpreter's own (HACL*) implementation, independent of any OpenSSL; None if absent."""
    try:
        if label == "sha1":
            import _sha1
            return _sha1.sha1
        if label == "md5":
            import _md5
            return _md5.md5
        if label in ("sha256", "sha384", "sha512"):
            import _sha2
            return getattr(_sha2, label)
    except ImportError:
        return None
    return None


HASH_BLOCK = {"sha1": 64, "sha256": 64, "md5": 64, "sm3": 64, "sha384": 128, "sha512": 128}
HASH_LEN = {"sha1": 20, "sha256": 32, "md5": 16, "sm3": 32, "sha384": 48, "sha512": 64}


def ref_hash(label: str, data) -> bytes:
    data = bytes(data)
    if label == "sm3":
        return sm3(data)
    d = hashlib.new(label, data).digest()
    b = _builtin_hash(label)
    if b is not None and b(data).digest() != d:
        raise core.Inconclusive(f"reference hashes disagree with each other for {label}")
    return d


def ref_hmac(label: str, key, data) -> bytes:
    """RFC 2104 written out over ref_hash."""
    bs = HASH_BLOCK[label]
    key = bytes(key)
    if len(key) > bs:
        key = ref_hash(label, key)
    key = key.ljust(bs, b"\0")
    inner = ref_hash(label, bytes(k ^ 0x36 for k in key) + bytes(data))
    return ref_hash(label, bytes(k ^ 0x5C for k in key) + inner)


def sb31_kdf_data(constant: int, rights: int, mode: str, bits: int, iteration: int) -> bytes:
    """Derivation data of the SB3.1 KDF (DESIGN.md appendix A 'SB 3.1'); mode 'KDK' or 'BLK'."""
    return (
        constant.to_bytes(12, "little") + bytes(8) + bytes([(rights << 6) & 0xFF])
        + (b"\x01" if mode == "KDK" else b"\x10") + b"\x00" + (b"\x20" if bits == 128 else b"\x21")
        + bits.to_bytes(4, "big") + iteration.to_bytes(4, "big")
    )


def sb31_derive(key, constant: int, rights: int, mode: str, bits: int) -> bytes:
    """CMAC counter-mode KDF: K(1) [|| K(2) for 256 bit], K(i) = CMAC(key, data(i))."""
    return b"".join(ref_modes.cmac(key, sb31_kdf_data(constant, rights, mode, bits, i)) for i in range(1, bits // 128 + 1))


KEYSTORE_CONST = {
    "derive_hmac_key": bytes(16),
    "derive_enc_image_key": b"\x01" + bytes(15) + b"\x02" + bytes(15),
    "derive_sb_kek_key": b"\x03" + bytes(15) + b"\x04" + bytes(15),
}

_ABC = {
    "md5": "900150983cd24fb0d6963f7d28e17f72",
    "sha1": "a9993e364706816aba3e25717850c26c9cd0d89d",
    "sha256": "ba7816bf8f01cfea414140de5dae2223b00361a396177a9cb410ff61f20015ad",
    "sha384": "cb00753f45a35e8bb5a03d699ac65007272c32ab0eded1631a8b605a43ff5bed8086072ba1e7cc2358baeca134c825a7",
    "sha512": "ddaf35a193617abacc417349ae20413112e6fa4e89a97ea20a9eeee64b55d39a"
              "2192992a274fc1a836ba3c23a3feebbd454d4423643ce80e2a9ac94fa54ca49f",
    "sm3": "66c7f0f462eeedd9d1f2d46bdc10e4e24167c4875cf2f7a2297da02b8f4ba8e0",
}


def selftest(ctx):
    """Known-answer tests of every reference used here (ground truth SPSDK did not compute)."""
    import hmac as std_hmac

    out = {
        "aes": ref_aes.selftest(), "modes": ref_modes.selftest(), "sm4": ref_sm4.selftest(),
        "kdf": ref_kdf.selftest(), "crcs": ref_crcs.selftest(),
    }
    n = 0
    # SM3: GB/T 32905 appendix A examples 1 and 2 (+ hashlib's OpenSSL SM3 where present)
    assert sm3(b"abc").hex() == _ABC["sm3"], "SM3 example 1"
    assert sm3(b"abcd" * 16).hex() == "debe9ff92275b8a138604889c18e5a4d6fdb70e5387e5765293dcba39c0c5732", "SM3 example 2"
    n += 2
    if "sm3" in hashlib.algorithms_available:
        for ln in (0, 1, 55, 56, 63, 64, 65, 119, 120, 128, 1000):
            d = bytes((7 * i + ln) & 0xFF for i in range(ln))
            assert sm3(d) == hashlib.new("sm3", d).digest(), f"SM3 vs hashlib len {ln}"
            n += 1
    for label, hexd in _ABC.items():
        assert ref_hash(label, b"abc").hex() == hexd, f"{label}('abc')"
        assert len(ref_hash(label, b"")) == HASH_LEN[label]
        n += 2
    # HMAC: RFC 2202 / RFC 4231 test case 2 + stdlib hmac as a second opinion
    jefe, what = b"Jefe", b"what do ya want for nothing?"
    assert ref_hmac("md5", jefe, what).hex() == "750c783e6ab0b503eaa86e310a5db738", "RFC2202 HMAC-MD5 tc2"
    assert ref_hmac("sha1", jefe, what).hex() == "effcdf6ae5eb2fa2d27416d5f184df9c259a7c79", "RFC2202 HMAC-SHA1 tc2"
    assert ref_hmac("sha256", jefe, what).hex() == "5bdcc146bf60754e6a042426089575c75a003f089d2739839dec58b964ec3843", "RFC4231 tc2"
    n += 3
    for label in ("md5", "sha1", "sha256", "sha384", "sha512"):
        for kl in (0, 1, 64, 65, 128, 129, 200):
            k = bytes((3 * i + kl) & 0xFF for i in range(kl))
            assert ref_hmac(label, k, what) == std_hmac.new(k, what, label).digest(), f"HMAC-{label} key {kl}"
            n += 1
    # SB3.1 KDF: the vectors of tests/sbfile/sb31/test_functions.py
    h = bytes.fromhex
    assert sb31_kdf_data(15, 3, "BLK", 256, 1) == h("0F00000000000000000000000000000000000000c01000210000010000000001")
    assert sb31_kdf_data(15, 3, "BLK", 256, 2) == h("0F00000000000000000000000000000000000000c01000210000010000000002")
    assert sb31_kdf_data(0x27C0E97C, 3, "KDK", 256, 1) == h("7ce9c02700000000000000000000000000000000c00100210000010000000001")
    pck = h("24e517d4ac417737235b6efc9afced8224e517d4ac417737235b6efc9afced82")
    kdk = sb31_derive(pck, 0x27C0E97C, 3, "KDK", 128)
    assert kdk == h("751d0802bc9eb9adb42b68d40880aa6e"), "SB3.1 KDK vector"
    assert sb31_derive(kdk, 10, 3, "BLK", 128) == h("40902f79dd0ec371307f7069590ad07a"), "SB3.1 block key 10"
    assert sb31_derive(kdk, 13, 3, "BLK", 128) == h("69362b5634b99b689a7c43df76f15b63"), "SB3.1 block key 13"
    assert sb31_derive(kdk, 6, 3, "BLK", 128) == h("4c28803b5de193c21f31e6fa10c76b03"), "SB3.1 block key 6"
    n += 7
    # CRC second opinions from the standard library
    assert ref_crcs.crc32(b"123456789") == zlib.crc32(b"123456789")
    assert ref_crcs.crc16_xmodem(b"123456789") == binascii.crc_hqx(b"123456789", 0)
    n += 2
    out["c09_local"] = n
    return out


# ==========================================================================================
# case generation
# ==========================================================================================
HASH_LABELS = ["sha1", "sha256", "sha384", "sha512", "md5", "sm3", "none"]
CRC_LABELS = ["crc32", "crc32-mpeg", "crc16-xmodem"]


def cases(tier, seed):
    reps = 12 if tier == "thorough" else 1
    for k in range(reps):
        for ks in (16, 24, 32):
            yield {"kind": "ecb", "ks": ks, "k": k}
            yield {"kind": "cbc", "alg": "aes", "ks": ks, "k": k}
            yield {"kind": "ctr", "ks": ks, "k": k}
            yield {"kind": "ccm", "ks": ks, "k": k}
            yield {"kind": "ccm_grid", "ks": ks, "k": k}
            yield {"kind": "keywrap", "ks": ks, "k": k}
            yield {"kind": "cmac", "ks": ks, "k": k}
        yield {"kind": "cbc", "alg": "sm4", "ks": 16, "k": k}
        for ks in (32, 64):
            yield {"kind": "xts", "ks": ks, "k": k}
        for label in HASH_LABELS:
            yield {"kind": "hash", "alg": label, "k": k}
            yield {"kind": "hmac", "alg": label, "k": k}
        for label in CRC_LABELS:
            yield {"kind": "crc", "alg": label, "k": k}
        for j in range(2):
            yield {"kind": "hkdf", "k": 2 * k + j}
            yield {"kind": "sb31kdf", "k": 2 * k + j}
            yield {"kind": "counter", "k": 2 * k + j}
        yield {"kind": "keystore", "k": k}
    yield {"kind": "counter_directed"}
    yield {"kind": "rng"}
    yield {"kind": "enums"}
    yield {"kind": "repo_tests"}


# ==========================================================================================
# helpers
# ==========================================================================================
rb = core.rand_bytes


@functools.lru_cache(maxsize=1)
def _refusal_types():
    from cryptography.exceptions import InvalidTag, UnsupportedAlgorithm
    from cryptography.hazmat.primitives.keywrap import InvalidUnwrap
    from spsdk.exceptions import SPSDKError

    return (SPSDKError, ValueError, InvalidTag, InvalidUnwrap, UnsupportedAlgorithm)


def _try(fn, *a, **kw):
    """(True, result) or (False, exc) for the documented refusal families; anything else propagates."""
    try:
        return True, fn(*a, **kw)
    except Exception as e:  # pylint: disable=broad-except
        if isinstance(e, _refusal_types()):
            return False, e
        raise


def _brief(e) -> str:
    return f"{type(e).__name__}: {str(e)[:70]}"


def _lenclass(n):
    if n <= 80:
        return n
    for hi, name in ((255, "81-255"), (1023, "256-1023"), (4095, "1024-4095")):
        if n <= hi:
            return name
    return "4096-8192"


def _long_lengths(rng, tier, step=1, few=False):
    """Boundary + random lengths in 81..8192 (multiples of ``step``)."""
    fixed = [81, 100, 255, 256, 257, 1023, 1024, 4095, 4096, 4097, 8191, 8192]
    n_rand = (24 if tier == "thorough" else 8) // (3 if few else 1)
    if few:
        fixed = [255, 256, 1024, 8192]
    out = list(fixed)
    for _ in range(n_rand):
        lo, hi = core.pick(rng, [(81, 255), (256, 1023), (1024, 4095), (4096, 8192)])
        out.append(rng.randrange(lo, hi + 1))
    return sorted({max(step, ln - ln % step) for ln in out})


def _flip(data: bytes, rng) -> bytes:
    i = rng.randrange(len(data))
    return data[:i] + bytes([data[i] ^ (1 << rng.randrange(8))]) + data[i + 1:]


def _xor(a, b):
    return bytes(x ^ y for x, y in zip(a, b))


class Tally:
    """Accumulates judged-and-agreed executions per signature; flushed once per case."""

    def __init__(self, ctx):
        self.ctx = ctx
        self.acc: dict = {}
        self.sample = None

    def ok(self, *sig):
        self.acc[sig] = self.acc.get(sig, 0) + 1

    def flush(self):
        first = True
        for sig, n in self.acc.items():
            self.ctx.ok(list(sig), n=n, nontrivial=sig[-1] != "trivial", sample=self.sample if first else None)
            first = False


def _refused_std(ctx, sig, e, what):
    """A standard-defined input was refused: counted, and made visible in the evidence (not judged)."""
    ctx.refused(sig, _brief(e))
    ctx.note("refused_standard_input", {"sig": sig, "why": _brief(e), "what": what})


def _invalid_key_sizes(ctx, name, fn, sizes):
    """Keys no standard defines must not yield output (cannot equal any reference)."""
    for bad in sizes:
        ok, r = _try(fn, bytes(range(bad)))
        if ok:
            ctx.violation(f"{name}-accepts-invalid-key-size", {"key_size": bad, "out": r})
        else:
            ctx.refused([name, "invalid-key-size", bad], _brief(r))


# ==========================================================================================
# symmetric ciphers
# ==========================================================================================
def _case_ecb(case, ctx, S):
    rng, ks, t = ctx.rng, case["ks"], Tally(ctx)
    n_ref = n_rt = 0
    for ln in list(range(0, 81)) + _long_lengths(rng, ctx.tier, step=16) + [8191, 100]:
        key, m = rb(rng, ks), rb(rng, ln)
        ok, c = _try(S.aes_ecb_encrypt, key, m)
        if ln % 16:
            if not ok:
                ctx.refused(["aes-ecb", ks, "partial-block"], _brief(c))
                continue
            ok2, p = _try(S.aes_ecb_decrypt, key, c)  # no padding is defined: only inversion can be judged
            if not ok2 or bytes(p)[:ln] != m:
                ctx.violation("aes-ecb-partial-block-not-invertible", {"key": key, "msg": m, "ct": c})
            else:
                t.ok("aes-ecb", ks, "partial-block-accepted")
            continue
        sig = ["aes-ecb", ks, _lenclass(ln)]
        if not ok:
            _refused_std(ctx, sig, c, "encrypt")
            continue
        det = {"key": key, "msg": m, "got": c}
        if bytes(c) != ref_modes.ecb_encrypt(key, m):
            ctx.violation("aes-ecb-ciphertext-differs-from-reference", dict(det, want=ref_modes.ecb_encrypt(key, m)))
            continue
        n_ref += 1
        ok2, p = _try(S.aes_ecb_decrypt, key, c)
        if not ok2:
            ctx.violation("aes-ecb-decrypt-raises-after-encrypt-accepted", dict(det, exc=_brief(p)))
            continue
        if bytes(p) != m:
            ctx.violation("aes-ecb-roundtrip-mismatch", dict(det, back=p))
            continue
        n_rt += 1
        x = rb(rng, ln)
        ok3, q = _try(S.aes_ecb_decrypt, key, x)
        if ok3 and bytes(q) != ref_modes.ecb_decrypt(key, x):
            ctx.violation("aes-ecb-decrypt-differs-from-reference", {"key": key, "ct": x, "got": q})
            continue
        n_ref += ok3
        t.ok("aes-ecb", ks, _lenclass(ln) if ln else "trivial")
    _invalid_key_sizes(ctx, "aes-ecb", lambda k: S.aes_ecb_encrypt(k, bytes(16)), (0, 8, 15, 17, 31, 33, 64))
    ctx.count("cipher_vs_reference", n_ref)
    ctx.count("cipher_roundtrip", n_rt)
    t.sample = {"alg": "aes-ecb", "key_size": ks, "compared": n_ref, "round_trips": n_rt}
    t.flush()


IV_MODES = ["random", "zeros", "ones", "default-both"]


def _case_cbc(case, ctx, S):
    rng, alg, ks, t = ctx.rng, case["alg"], case["ks"], Tally(ctx)
    name = f"{alg}-cbc"
    if alg == "aes":
        enc, dec = S.aes_cbc_encrypt, S.aes_cbc_decrypt
        r_enc, r_dec = ref_modes.cbc_encrypt, ref_modes.cbc_decrypt
        blk_dec = lambda k, b: ref_aes.get_aes(k).decrypt_block(b)  # noqa: E731
    else:
        enc, dec = S.sm4_cbc_encrypt, S.sm4_cbc_decrypt
        r_enc, r_dec = ref_sm4.sm4_cbc_encrypt, ref_sm4.sm4_cbc_decrypt
        blk_dec = ref_sm4.sm4_decrypt_block
    n_ref = n_rt = n_def = 0
    default_ivs = set()
    for ln in list(range(0, 81)) + _long_lengths(rng, ctx.tier):
        for ivmode in IV_MODES:
            key, m = rb(rng, ks), rb(rng, ln)
            padded = m + bytes(-ln % 16)
            iv = {"random": rb(rng, 16), "zeros": bytes(16), "ones": b"\xff" * 16}.get(ivmode)
            args = (iv,) if iv is not None else ()
            sig = [name, ks, _lenclass(ln), ivmode]
            det = {"key": key, "msg": m, "iv": iv if iv is not None else "default (omitted) on both sides"}
            ok, c = _try(enc, key, m, *args)
            if not ok:
                _refused_std(ctx, sig, c, "encrypt")
                continue
            c = bytes(c)
            det["ct"] = c
            if len(c) != len(padded):
                ctx.violation(f"{name}-ciphertext-length", dict(det, want_len=len(padded)))
                continue
            eff_iv = iv
            if iv is None and c:  # no default value is demanded: recover the IV that was used
                eff_iv = _xor(blk_dec(key, c[:16]), padded[:16])
                default_ivs.add(eff_iv.hex())
            if c:
                want = r_enc(key, eff_iv, padded)
                if c != want:
                    back = r_dec(key, eff_iv, c)
                    if back[:ln] == m and back[ln:] != bytes(len(back) - ln):
                        ctx.violation(f"{name}-padding-not-zero-fill", dict(det, padding=back[ln:]))
                    else:
                        ctx.violation(f"{name}-ciphertext-differs-from-reference", dict(det, want=want))
                    continue
                n_ref += 1
            ok2, p = _try(dec, key, c, *args)
            if not ok2:
                if iv is None and "initial vector length" in str(p).lower():
                    ctx.violation(K_CBC_DEFAULT_IV.format(alg=alg), dict(det, exc=_brief(p)))
                else:
                    ctx.violation(f"{name}-decrypt-raises-after-encrypt-accepted", dict(det, exc=_brief(p)))
                continue
            if bytes(p) != padded:
                ctx.violation(f"{name}-roundtrip-mismatch", dict(det, back=p))
                continue
            n_rt += 1
            n_def += iv is None
            if iv is not None and ln and ln % 16 == 0:  # decrypt direction on independent data
                x = rb(rng, ln)
                ok3, q = _try(dec, key, x, iv)
                if ok3 and bytes(q) != r_dec(key, iv, x):
                    ctx.violation(f"{name}-decrypt-differs-from-reference", {"key": key, "iv": iv, "ct": x, "got": q})
                    continue
                n_ref += ok3
            t.ok(name, ks, _lenclass(ln), ivmode if ln else "trivial")
    # documented refusals (":raises SPSDKError: Invalid Key or IV") - counted only
    for bad_iv in (1, 8, 15, 17, 32, 128):
        ok, r = _try(enc, bytes(ks), b"x" * 16, bytes(bad_iv))
        if ok:
            ctx.violation(f"{name}-accepts-invalid-iv-length", {"iv_len": bad_iv, "out": r})
        else:
            ctx.refused([name, "invalid-iv-length", bad_iv], _brief(r))
    bad_keys = (0, 8, 15, 17, 31, 33, 64) if alg == "aes" else (0, 8, 15, 17, 24, 32)
    _invalid_key_sizes(ctx, name, lambda k: enc(k, bytes(16), bytes(16)), bad_keys)
    if default_ivs:
        ctx.note(f"{name}_default_iv_observed", sorted(default_ivs)[:3])
    ctx.count("cipher_vs_reference", n_ref)
    ctx.count("cipher_roundtrip", n_rt)
    ctx.count("default_param_roundtrip", n_def)
    t.sample = {"alg": name, "key_size": ks, "compared": n_ref, "round_trips": n_rt, "default_iv_round_trips": n_def}
    t.flush()


def _case_ctr(case, ctx, S):
    rng, ks, t = ctx.rng, case["ks"], Tally(ctx)
    n_ref = n_rt = 0
    kinds = ["random", "zeros", "all-ones(128-bit wrap)", "tail-ffffffff(carry)", "tail-near-wrap"]
    for ln in list(range(0, 81)) + _long_lengths(rng, ctx.tier):
        for nk in kinds:
            key, m = rb(rng, ks), rb(rng, ln)
            nonce = {
                "random": rb(rng, 16), "zeros": bytes(16), "all-ones(128-bit wrap)": b"\xff" * 16,
                "tail-ffffffff(carry)": rb(rng, 12) + b"\xff" * 4,
                "tail-near-wrap": b"\xff" * 12 + (MASK32 - rng.randrange(0, 4)).to_bytes(4, "big"),
            }[nk]
            sig = ["aes-ctr", ks, _lenclass(ln), nk]
            det = {"key": key, "msg": m, "nonce": nonce}
            ok, c = _try(S.aes_ctr_encrypt, key, m, nonce)
            if not ok:
                _refused_std(ctx, sig, c, "encrypt")
                continue
            want = ref_modes.ctr_crypt(key, nonce, m)
            if bytes(c) != want:
                ctx.violation("aes-ctr-ciphertext-differs-from-reference", dict(det, got=c, want=want))
                continue
            n_ref += 1
            ok2, p = _try(S.aes_ctr_decrypt, key, c, nonce)
            if not ok2:
                ctx.violation("aes-ctr-decrypt-raises-after-encrypt-accepted", dict(det, exc=_brief(p)))
                continue
            if bytes(p) != m:
                ctx.violation("aes-ctr-roundtrip-mismatch", dict(det, back=p))
                continue
            n_rt += 1
            t.ok("aes-ctr", ks, _lenclass(ln), nk if ln else "trivial")
    for bad in (0, 8, 12, 15, 17):
        ok, r = _try(S.aes_ctr_encrypt, bytes(ks), b"abc", bytes(bad))
        if ok:
            ctx.violation("aes-ctr-accepts-invalid-counter-block-length", {"len": bad, "out": r})
        else:
            ctx.refused(["aes-ctr", "invalid-nonce-length", bad], _brief(r))
    _invalid_key_sizes(ctx, "aes-ctr", lambda k: S.aes_ctr_encrypt(k, bytes(16), bytes(16)), (0, 15, 17, 33, 64))
    ctx.count("cipher_vs_reference", n_ref)
    ctx.count("cipher_roundtrip", n_rt)
    t.sample = {"alg": "aes-ctr", "key_size": ks, "compared": n_ref, "round_trips": n_rt}
    t.flush()


def _case_xts(case, ctx, S):
    rng, ks, t = ctx.rng, case["ks"], Tally(ctx)
    n_ref = n_rt = 0
    for ln in list(range(0, 81)) + _long_lengths(rng, ctx.tier):
        for tk in ("random", "zeros", "ones", "sector-le"):
            key = rb(rng, ks)
            while key[: ks // 2] == key[ks // 2:]:
                key = rb(rng, ks)
            m = rb(rng, ln)
            tweak = {"random": rb(rng, 16), "zeros": bytes(16), "ones": b"\xff" * 16,
                     "sector-le": rng.randrange(1 << 40).to_bytes(16, "little")}[tk]
            sig = ["aes-xts", ks, _lenclass(ln), tk]
            det = {"key": key, "msg": m, "tweak": tweak}
            ok, c = _try(S.aes_xts_encrypt, key, m, tweak)
            if ln < 16:  # IEEE 1619 defines no data unit shorter than one block
                if not ok:
                    ctx.refused(["aes-xts", ks, "shorter-than-a-block"], _brief(c))
                else:
                    ok2, p = _try(S.aes_xts_decrypt, key, c, tweak)
                    if not ok2 or bytes(p) != m:
                        ctx.violation("aes-xts-short-unit-not-invertible", dict(det, ct=c))
                    else:
                        t.ok("aes-xts", ks, "short-unit-accepted", "trivial")
                continue
            if not ok:
                _refused_std(ctx, sig, c, "encrypt")
                continue
            want = ref_modes.xts_encrypt(key, tweak, m)
            if bytes(c) != want:
                mech = "aes-xts-ciphertext-stealing-differs-from-reference" if ln % 16 and bytes(c)[: ln - ln % 16 - 16] == want[: ln - ln % 16 - 16] \
                    else "aes-xts-ciphertext-differs-from-reference"
                ctx.violation(mech, dict(det, got=c, want=want))
                continue
            n_ref += 1
            ok2, p = _try(S.aes_xts_decrypt, key, c, tweak)
            if not ok2:
                ctx.violation("aes-xts-decrypt-raises-after-encrypt-accepted", dict(det, exc=_brief(p)))
                continue
            if bytes(p) != m:
                ctx.violation("aes-xts-roundtrip-mismatch", dict(det, back=p))
                continue
            n_rt += 1
            x = rb(rng, ln)
            ok3, q = _try(S.aes_xts_decrypt, key, x, tweak)
            if ok3 and bytes(q) != ref_modes.xts_decrypt(key, tweak, x):
                ctx.violation("aes-xts-decrypt-differs-from-reference", {"key": key, "tweak": tweak, "ct": x, "got": q})
                continue
            n_ref += ok3
            t.ok("aes-xts", ks, _lenclass(ln), tk)
    half = rb(rng, ks // 2)
    ok, r = _try(S.aes_xts_encrypt, half + half, bytes(32), bytes(16))
    if ok:
        if bytes(r) != ref_modes.xts_encrypt(half + half, bytes(16), bytes(32)):
            ctx.violation("aes-xts-ciphertext-differs-from-reference", {"key": half + half, "equal_halves": True})
        else:
            t.ok("aes-xts", ks, "equal-halves-accepted", "compared")
    else:
        ctx.refused(["aes-xts", ks, "equal key halves"], _brief(r))
    for bad in (0, 8, 15, 17):
        ok, r = _try(S.aes_xts_encrypt, bytes(range(ks)), bytes(32), bytes(bad))
        if ok:
            ctx.violation("aes-xts-accepts-invalid-tweak-length", {"len": bad, "out": r})
        else:
            ctx.refused(["aes-xts", "invalid-tweak-length", bad], _brief(r))
    _invalid_key_sizes(ctx, "aes-xts", lambda k: S.aes_xts_encrypt(k, bytes(32), bytes(16)), (0, 16, 24, 31, 33, 48, 63, 65))
    ctx.count("cipher_vs_reference", n_ref)
    ctx.count("cipher_roundtrip", n_rt)
    t.sample = {"alg": "aes-xts", "key_size": ks, "compared": n_ref, "round_trips": n_rt}
    t.flush()


def _ccm_judge(ctx, S, t, key, m, nonce, aad, tag, defaults, rng, tamper):
    """One CCM evaluation; returns (compared, round_trips, default_round_trips, tampers_judged)."""
    ks, ln = len(key), len(m)
    optcls = "defaults" if defaults else f"nonce{len(nonce)}-tag{tag}-aad{'0' if not aad else ('1-15' if len(aad) < 16 else '16-64')}"
    sig = ["aes-ccm", ks, _lenclass(ln), optcls]
    det = {"key": key, "msg": m, "nonce": nonce, "aad": aad, "tag_len": tag, "defaults": defaults}
    if defaults:
        ok, c = _try(S.aes_ccm_encrypt, key, m, nonce)
    else:
        ok, c = _try(S.aes_ccm_encrypt, key, m, nonce, aad, tag)
    if not ok:
        _refused_std(ctx, sig, c, "encrypt")
        return 0, 0, 0, 0
    c = bytes(c)
    want = ref_modes.ccm_encrypt(key, nonce, m, aad, tag)
    if c != want:
        if len(c) - ln != tag:
            ctx.violation("aes-ccm-tag-length-not-honoured", dict(det, got_tag_len=len(c) - ln))
        elif c[:ln] == want[:ln]:
            ctx.violation("aes-ccm-tag-differs-from-reference", dict(det, got=c, want=want))
        else:
            ctx.violation("aes-ccm-ciphertext-differs-from-reference", dict(det, got=c, want=want))
        return 0, 0, 0, 0
    if defaults:
        ok2, p = _try(S.aes_ccm_decrypt, key, c, nonce, b"")  # associated_data has no default on the decrypt side
    else:
        ok2, p = _try(S.aes_ccm_decrypt, key, c, nonce, aad, tag)
    if not ok2:
        ctx.violation("aes-ccm-decrypt-raises-after-encrypt-accepted", dict(det, exc=_brief(p)))
        return 1, 0, 0, 0
    if bytes(p) != m:
        ctx.violation("aes-ccm-roundtrip-mismatch", dict(det, back=p))
        return 1, 0, 0, 0
    judged = 0
    if tamper:
        t_c, t_n, t_a, t_tag = c, nonce, aad, tag
        if tamper == "ciphertext" and ln:
            t_c = _flip(c[:ln], rng) + c[ln:]
        elif tamper == "aad":
            t_a = _flip(aad, rng) if aad else b"\x00"
        elif tamper == "nonce":
            t_n = _flip(nonce, rng)
        elif tamper == "tag-length":
            t_tag = tag - 2 if tag > 4 else tag + 2
        elif tamper == "truncated":
            t_c = c[:-1]
        else:
            tamper = "tag"
            t_c = c[:ln] + _flip(c[ln:], rng)
        ok3, q = _try(S.aes_ccm_decrypt, key, t_c, t_n, t_a, t_tag)
        if ok3:
            try:  # wrongly accepted only if the reference rejects it (a 32-bit tag can collide)
                ref_modes.ccm_decrypt(key, t_n, t_c, t_a, t_tag)
            except ValueError:
                ctx.violation(f"aes-ccm-accepts-tampered-{tamper}", dict(det, tampered={"ct": t_c, "nonce": t_n, "aad": t_a, "tag_len": t_tag}, out=q))
                return 1, 1, int(defaults), 0
        judged = 1
    t.ok("aes-ccm", ks, _lenclass(ln), optcls)
    return 1, 1, int(defaults), judged


TAMPERS = ["ciphertext", "tag", "aad", "nonce", "tag-length", "truncated"]


def _case_ccm(case, ctx, S):
    rng, ks, t = ctx.rng, case["ks"], Tally(ctx)
    tot = [0, 0, 0, 0]
    i = 0
    for ln in list(range(0, 81)) + _long_lengths(rng, ctx.tier):
        for variant in range(3):
            key, m = rb(rng, ks), rb(rng, ln)
            nonce = rb(rng, rng.randrange(7, 14))
            defaults = variant == 2
            aad = b"" if defaults else rb(rng, core.pick(rng, [0, 0, 1, 13, 14, 15, 16, 17, 32, 63, 64, rng.randrange(0, 65)]))
            tag = 16 if defaults else core.pick(rng, [4, 6, 8, 10, 12, 14, 16])
            r = _ccm_judge(ctx, S, t, key, m, nonce, aad, tag, defaults, rng, TAMPERS[i % len(TAMPERS)])
            i += 1
            tot = [a + b for a, b in zip(tot, r)]
    _invalid_key_sizes(ctx, "aes-ccm", lambda k: S.aes_ccm_encrypt(k, b"abc", bytes(12)), (0, 8, 15, 17, 31, 33, 64))
    ctx.count("cipher_vs_reference", tot[0])
    ctx.count("cipher_roundtrip", tot[1])
    ctx.count("default_param_roundtrip", tot[2])
    ctx.count("tamper_judged", tot[3])
    t.sample = {"alg": "aes-ccm", "key_size": ks, "compared": tot[0], "round_trips": tot[1], "defaults": tot[2], "tampers": tot[3]}
    t.flush()


def _case_ccm_grid(case, ctx, S):
    """Every nonce length x every tag length x AAD classes, for a few message lengths."""
    rng, ks, t = ctx.rng, case["ks"], Tally(ctx)
    tot = [0, 0, 0, 0]
    i = 0
    for ln in (0, 5, 16, 33):
        for nl in range(7, 14):
            for tag in (4, 6, 8, 10, 12, 14, 16):
                for al in (0, 1, 14, 64):
                    r = _ccm_judge(ctx, S, t, rb(rng, ks), rb(rng, ln), rb(rng, nl), rb(rng, al), tag, False, rng,
                                   TAMPERS[i % len(TAMPERS)] if i % 3 == 0 else None)
                    i += 1
                    tot = [a + b for a, b in zip(tot, r)]
    key = rb(rng, ks)
    for bad_tag in (0, 1, 2, 3, 5, 7, 9, 15, 17, 18, 32):  # RFC 3610: M in {4, 6, .., 16}
        ok, r = _try(S.aes_ccm_encrypt, key, b"hello", bytes(12), b"", bad_tag)
        if ok:
            ctx.violation("aes-ccm-accepts-invalid-tag-length", {"tag_len": bad_tag, "out": r})
        else:
            ctx.refused(["aes-ccm", "invalid-tag-length", bad_tag], _brief(r))
    for bad_nl in (0, 1, 6, 14, 15, 16):  # RFC 3610: L in 2..8 => nonce 7..13 bytes
        ok, r = _try(S.aes_ccm_encrypt, key, b"hello", bytes(bad_nl))
        if ok:
            ctx.violation("aes-ccm-accepts-invalid-nonce-length", {"nonce_len": bad_nl, "out": r})
        else:
            ctx.refused(["aes-ccm", "invalid-nonce-length", bad_nl], _brief(r))
    ctx.count("cipher_vs_reference", tot[0])
    ctx.count("cipher_roundtrip", tot[1])
    ctx.count("tamper_judged", tot[3])
    t.sample = {"alg": "aes-ccm grid", "key_size": ks, "compared": tot[0], "round_trips": tot[1], "tampers": tot[3]}
    t.flush()


def _case_keywrap(case, ctx, S):
    rng, ks, t = ctx.rng, case["ks"], Tally(ctx)
    n_ref = n_rt = n_t = 0
    for ln in list(range(16, 81, 8)) + _long_lengths(rng, ctx.tier, step=8, few=True):
        for _rep in range(3 if ln <= 80 else 1):
            kek, m = rb(rng, ks), rb(rng, ln)
            sig = ["aes-key-wrap", ks, _lenclass(ln)]
            det = {"kek": kek, "key_to_wrap": m}
            ok, w = _try(S.aes_key_wrap, kek, m)
            if not ok:
                _refused_std(ctx, sig, w, "wrap")
                continue
            w = bytes(w)
            want = ref_modes.key_wrap(kek, m)
            if w != want:
                ctx.violation("aes-key-wrap-differs-from-reference", dict(det, got=w, want=want))
                continue
            n_ref += 1
            ok2, p = _try(S.aes_key_unwrap, kek, w)
            if not ok2:
                ctx.violation("aes-key-unwrap-raises-after-wrap-accepted", dict(det, exc=_brief(p)))
                continue
            if bytes(p) != m:
                ctx.violation("aes-key-wrap-roundtrip-mismatch", dict(det, back=p))
                continue
            n_rt += 1
            for what in ("bit", "kek") if ln <= 80 else ("bit",):
                bad_w, bad_k = (_flip(w, rng), kek) if what == "bit" else (w, _flip(kek, rng))
                ok3, q = _try(S.aes_key_unwrap, bad_k, bad_w)
                if ok3:
                    try:
                        ref_modes.key_unwrap(bad_k, bad_w)
                    except ValueError:
                        ctx.violation(f"aes-key-unwrap-accepts-tampered-{what}", dict(det, wrapped=bad_w, kek_used=bad_k, out=q))
                        continue
                n_t += 1
            t.ok("aes-key-wrap", ks, _lenclass(ln))
    kek = rb(rng, ks)
    for bad in (0, 1, 8, 15, 17, 20, 23, 33):  # RFC 3394: n >= 2 blocks of 64 bits
        ok, r = _try(S.aes_key_wrap, kek, bytes(bad))
        if ok:
            ctx.violation("aes-key-wrap-accepts-invalid-length", {"len": bad, "out": r})
        else:
            ctx.refused(["aes-key-wrap", "invalid-length", bad], _brief(r))
    for bad in (0, 8, 16, 23, 25, 33):
        ok, r = _try(S.aes_key_unwrap, kek, rb(rng, bad))
        if ok:
            ctx.violation("aes-key-unwrap-accepts-invalid-length", {"len": bad, "out": r})
        else:
            ctx.refused(["aes-key-unwrap", "invalid-length", bad], _brief(r))
    _invalid_key_sizes(ctx, "aes-key-wrap", lambda k: S.aes_key_wrap(k, bytes(16)), (0, 8, 15, 17, 31, 33, 64))
    ctx.count("cipher_vs_reference", n_ref)
    ctx.count("cipher_roundtrip", n_rt)
    ctx.count("tamper_judged", n_t)
    t.sample = {"alg": "aes-key-wrap", "kek_size": ks, "compared": n_ref, "round_trips": n_rt, "tampers": n_t}
    t.flush()


# ==========================================================================================
# MACs, hashes, KDFs, CRCs
# ==========================================================================================
def _case_cmac(case, ctx):
    from spsdk.crypto import cmac as M

    rng, ks, t = ctx.rng, case["ks"], Tally(ctx)
    n = nv = 0
    for ln in list(range(0, 81)) + _long_lengths(rng, ctx.tier):
        key, m = rb(rng, ks), rb(rng, ln)
        sig = ["cmac", ks, _lenclass(ln)]
        ok, mac = _try(M.cmac, key, m)
        if not ok:
            _refused_std(ctx, sig, mac, "cmac")
            continue
        want = ref_modes.cmac(key, m)
        if bytes(mac) != want:
            ctx.violation("cmac-differs-from-reference", {"key": key, "msg": m, "got": mac, "want": want})
            continue
        n += 1
        # validate: the answer must be exactly "signature == reference CMAC of (key, data)"
        trials = [("genuine", key, m, want), ("bit-flipped-mac", key, m, _flip(want, rng)), ("truncated-mac", key, m, want[:15]),
                  ("extended-mac", key, m, want + b"\0"), ("empty-mac", key, m, b""), ("other-key", _flip(key, rng), m, want),
                  ("other-data", key, m + b"\0", want)]
        bad = False
        for what, k2, m2, s2 in trials:
            got = M.cmac_validate(k2, m2, s2)
            exp = s2 == ref_modes.cmac(k2, m2)
            if got is not exp:
                ctx.violation("cmac-validate-wrong-answer", {"trial": what, "key": k2, "msg": m2, "signature": s2, "got": got, "want": exp})
                bad = True
            nv += 1
        if not bad:
            t.ok("cmac", ks, _lenclass(ln))
    _invalid_key_sizes(ctx, "cmac", lambda k: M.cmac(k, b"abc"), (0, 8, 15, 17, 31, 33, 64))
    ctx.count("cmac", n)
    ctx.count("cmac_validate", nv)
    t.sample = {"alg": "cmac", "key_size": ks, "compared": n, "validate_calls": nv}
    t.flush()


def _hash_enum(label):
    from spsdk.crypto.hash import EnumHashAlgorithm

    return EnumHashAlgorithm.from_label(label)


def _case_hash(case, ctx):
    from spsdk.crypto import hash as H

    rng, label, t = ctx.rng, case["alg"], Tally(ctx)
    alg = _hash_enum(label)
    if label == "none":
        for fn, args in ((H.get_hash, (b"abc", alg)), (H.get_hash_length, (alg,)), (H.get_hash_algorithm, (alg,)), (H.Hash, (alg,))):
            ok, r = _try(fn, *args)
            if ok:
                ctx.violation("hash-none-yields-a-value", {"fn": fn.__name__, "out": repr(r)[:80]})
            else:
                ctx.refused(["hash", "none", fn.__name__], _brief(r))
        return
    ok, r = _try(H.get_hash, b"abc", alg)
    if not ok:  # e.g. SM3 missing from the installed cryptography: refuse-only
        ctx.refused(["hash", label, "unsupported"], _brief(r))
        return
    n = ni = 0
    lengths = list(range(0, 81)) + list(range(100, 140)) + _long_lengths(rng, ctx.tier)
    for ln in lengths:
        d = rb(rng, ln)
        want = ref_hash(label, d)
        got = H.get_hash(d, alg)
        if bytes(got) != want:
            ctx.violation(f"hash-{label}-differs-from-reference", {"data": d, "got": got, "want": want})
            continue
        n += 1
        if label == "sha256":
            if bytes(H.get_hash(d)) != want:
                ctx.violation("hash-default-algorithm-not-sha256", {"data": d})
                continue
            n += 1
        # incremental == one shot, random split points (incl. empty pieces)
        cuts = sorted(rng.randrange(0, ln + 1) for _ in range(rng.randrange(0, 5)))
        h = H.Hash(alg) if (label != "sha256" or rng.random() < 0.5) else H.Hash()
        prev = 0
        for c in cuts + [ln]:
            h.update(d[prev:c])
            prev = c
        fin = h.finalize()
        if bytes(fin) != want:
            ctx.violation(f"hash-{label}-incremental-differs-from-one-shot", {"data": d, "cuts": cuts, "got": fin, "want": want})
            continue
        ni += 1
        t.ok("hash", label, _lenclass(ln))
    # update_int: "integer value as is" = minimal big-endian encoding of a non-negative integer
    for bits in (1, 7, 8, 9, 16, 31, 32, 33, 64, 255, 256, 257, 521, 2048):
        v = rng.getrandbits(bits) | (1 << (bits - 1))
        prefix = rb(rng, rng.randrange(0, 20))
        h = H.Hash(alg)
        h.update(prefix)
        h.update_int(v)
        want = ref_hash(label, prefix + v.to_bytes((bits + 7) // 8, "big"))
        if bytes(h.finalize()) != want:
            ctx.violation(f"hash-{label}-update_int-differs", {"value": v, "prefix": prefix})
        else:
            ni += 1
            t.ok("hash", label, "update_int")
    if H.get_hash_length(alg) != HASH_LEN[label]:
        ctx.violation(f"hash-{label}-length", {"got": H.get_hash_length(alg), "want": HASH_LEN[label]})
    else:
        t.ok("hash", label, "get_hash_length")
    a = H.get_hash_algorithm(alg)
    if a.digest_size != HASH_LEN[label] or a.name != label:
        ctx.violation(f"hash-{label}-algorithm-object", {"name": a.name, "digest_size": a.digest_size})
    ctx.count("hash", n)
    ctx.count("hash_incremental", ni)
    t.sample = {"alg": label, "compared": n, "incremental": ni, "abc": H.get_hash(b"abc", alg)}
    t.flush()


def _case_hmac(case, ctx):
    from spsdk.crypto import spsdk_hmac as M

    rng, label, t = ctx.rng, case["alg"], Tally(ctx)
    alg = _hash_enum(label)
    ok, r = _try(M.hmac, b"key", b"abc", alg)
    if not ok:
        ctx.refused(["hmac", label, "unsupported"], _brief(r))
        ok2, r2 = _try(M.hmac_validate, b"key", b"abc", bytes(32), alg)
        if label == "none" and (ok or ok2):
            ctx.violation("hmac-none-yields-a-value", {"out": repr(r2)[:80]})
        return
    if label == "none":
        ctx.violation("hmac-none-yields-a-value", {"out": r})
        return
    bs = HASH_BLOCK[label]
    n = nv = 0
    key_lens = [0, 1, 16, 20, 32, bs - 1, bs, bs + 1, 2 * bs, 200]
    for ln in list(range(0, 81)) + _long_lengths(rng, ctx.tier):
        kl = core.pick(rng, key_lens)
        key, m = rb(rng, kl), rb(rng, ln)
        kcls = "empty" if kl == 0 else ("<block" if kl < bs else ("=block" if kl == bs else ">block"))
        ok, mac = _try(M.hmac, key, m, alg)
        if not ok:
            _refused_std(ctx, ["hmac", label, kcls], mac, "hmac")
            continue
        want = ref_hmac(label, key, m)
        if bytes(mac) != want:
            ctx.violation(f"hmac-{label}-differs-from-reference", {"key": key, "msg": m, "got": mac, "want": want})
            continue
        n += 1
        if label == "sha256" and bytes(M.hmac(key, m)) != want:
            ctx.violation("hmac-default-algorithm-not-sha256", {"key": key, "msg": m})
            continue
        trials = [("genuine", key, m, want), ("bit-flipped-mac", key, m, _flip(want, rng)), ("truncated-mac", key, m, want[:-1]),
                  ("extended-mac", key, m, want + b"\0"), ("empty-mac", key, m, b""), ("other-key", key + b"\x01", m, want),
                  ("other-data", key, m + b"\0", want)]
        bad = False
        for what, k2, m2, s2 in trials:
            got = M.hmac_validate(k2, m2, s2, alg)
            exp = s2 == ref_hmac(label, k2, m2)
            if got is not exp:
                ctx.violation("hmac-validate-wrong-answer", {"alg": label, "trial": what, "key": k2, "msg": m2, "signature": s2, "got": got, "want": exp})
                bad = True
            nv += 1
        if not bad:
            t.ok("hmac", label, kcls, _lenclass(ln))
    ctx.count("hmac", n)
    ctx.count("hmac_validate", nv)
    t.sample = {"alg": "hmac-" + label, "compared": n, "validate_calls": nv}
    t.flush()


def _case_hkdf(case, ctx):
    from spsdk.crypto import hkdf as M

    rng, t = ctx.rng, Tally(ctx)
    n = 0
    lens = [0, 1, 16, 31, 32, 33, 42, 64, 82, 255, 256, 1024, 8159, 8160]
    for i in range(400 if ctx.tier == "thorough" else 150):
        salt = rb(rng, core.pick(rng, [0, 0, 1, 13, 32, 64, 65, 80, rng.randrange(0, 81)]))
        ikm = rb(rng, core.pick(rng, [0, 1, 16, 22, 32, 64, 80, rng.randrange(0, 81)]))
        info = rb(rng, core.pick(rng, [0, 0, 1, 10, 32, 80, rng.randrange(0, 81)]))
        length = lens[i] if i < len(lens) else core.pick(rng, lens + [rng.randrange(0, 8161)] * 6)
        lcls = length if length <= 64 else ("65-255" if length < 256 else ("256-8159" if length < 8160 else "8160(max)"))
        sig = ["hkdf-sha256", "salt0" if not salt else "salt", "info0" if not info else "info", lcls]
        ok, out = _try(M.hkdf, salt, ikm, info, length)
        if not ok:
            _refused_std(ctx, sig, out, "hkdf")
            continue
        want = ref_kdf.hkdf(salt, ikm, info, length)
        if bytes(out) != want:
            mech = "hkdf-output-length" if len(out) != length else "hkdf-differs-from-reference"
            ctx.violation(mech, {"salt": salt, "ikm": ikm, "info": info, "length": length, "got": out, "want": want})
            continue
        n += 1
        t.ok(*sig)
    for too_long in (8161, 8192, 10000, 1 << 20):  # RFC 5869: L <= 255 * HashLen
        ok, out = _try(M.hkdf, b"salt", b"ikm", b"", too_long)
        if ok:
            ctx.violation("hkdf-accepts-length-beyond-255-blocks", {"length": too_long, "got_len": len(out)})
        else:
            ctx.refused(["hkdf-sha256", "length>8160"], _brief(out))
    ctx.count("hkdf", n)
    t.sample = {"alg": "hkdf-sha256", "compared": n, "rfc5869_a1": M.hkdf(bytes.fromhex("000102030405060708090a0b0c"), b"\x0b" * 22, bytes.fromhex("f0f1f2f3f4f5f6f7f8f9"), 42)}
    t.flush()


def _case_crc(case, ctx):
    from spsdk.crypto import crc as M

    rng, label, t = ctx.rng, case["alg"], Tally(ctx)
    fast = {"crc32": ref_crcs.crc32, "crc32-mpeg": ref_crcs.crc32_mpeg2, "crc16-xmodem": ref_crcs.crc16_xmodem}[label]
    params = {"crc32": (32, 0x04C11DB7, 0xFFFFFFFF, True, True, 0xFFFFFFFF), "crc32-mpeg": (32, 0x04C11DB7, 0xFFFFFFFF, False, False, 0),
              "crc16-xmodem": (16, 0x1021, 0, False, False, 0)}[label]
    enum = M.CrcAlg.from_label(label)
    objs = {"enum": M.from_crc_algorithm(enum), "label": M.from_crc_algorithm(label), "LABEL": M.from_crc_algorithm(label.upper()),
            "table": M.Crc(M.CRC_ALGORITHMS[enum])}
    n = 0
    for ln in list(range(0, 81)) + _long_lengths(rng, ctx.tier):
        d = rb(rng, ln)
        want = fast(d)
        if ln <= 300 and ref_crcs.crc(d, *params) != want:
            raise core.Inconclusive("CRC references disagree")
        if label == "crc32" and zlib.crc32(d) != want or label == "crc16-xmodem" and binascii.crc_hqx(d, 0) != want:
            raise core.Inconclusive("CRC reference disagrees with the standard library")
        bad = False
        for how, o in objs.items():
            got = o.calculate(d)
            if got != want:
                ctx.violation(f"crc-{label}-wrong-value", {"via": how, "data": d, "got": got, "want": want})
                bad = True
                continue
            n += 1
        o = objs["enum"]
        other = want ^ (1 << rng.randrange(params[0]))
        for what, d2, c2 in (("genuine", d, want), ("other-crc", d, other), ("other-data", d + b"\0", want)):
            got = o.verify(d2, c2)
            exp = fast(d2) == c2
            if bool(got) is not exp:
                ctx.violation(f"crc-{label}-verify-wrong-answer", {"trial": what, "data": d2, "crc": c2, "got": got, "want": exp})
                bad = True
            n += 1
        if o.calculate(bytearray(d)) != want:
            ctx.violation(f"crc-{label}-wrong-value", {"via": "bytearray", "data": d})
            bad = True
        if not bad:
            t.ok("crc", label, _lenclass(ln))
    for bogus in ("crc8", "", "crc32 "):
        ok, r = _try(M.from_crc_algorithm, bogus)
        if ok:
            ctx.violation("crc-unknown-name-accepted", {"name": bogus})
        else:
            ctx.refused(["crc", "unknown-name"], _brief(r))
    ctx.count("crc", n)
    t.sample = {"alg": label, "judged": n, "check('123456789')": hex(objs["enum"].calculate(b"123456789"))}
    t.flush()


def _case_keystore(case, ctx):
    from spsdk.exceptions import SPSDKError
    from spsdk.image.keystore import KeyStore

    rng, t = ctx.rng, Tally(ctx)
    n = 0
    for i in range(400 if ctx.tier == "thorough" else 200):
        key = [bytes(32), b"\xff" * 32, bytes(range(32))][i] if i < 3 else rb(rng, 32)
        for fn, const in KEYSTORE_CONST.items():
            got = getattr(KeyStore, fn)(key)
            want = ref_modes.ecb_encrypt(key, const)
            if bytes(got) != want:
                ctx.violation(f"keystore-{fn}-differs-from-definition", {"key": key, "got": got, "want": want})
                continue
            n += 1
            t.ok("keystore", fn)
        inp = rb(rng, 16)
        got = KeyStore.derive_otfad_kek_key(key, inp)
        if bytes(got) != ref_modes.ecb_encrypt(key, inp):
            ctx.violation("keystore-derive_otfad_kek_key-differs-from-definition", {"key": key, "input": inp, "got": got})
        else:
            n += 1
            t.ok("keystore", "derive_otfad_kek_key")
    for fn in list(KEYSTORE_CONST) + ["derive_otfad_kek_key"]:
        for bad in (0, 16, 24, 31, 33, 64):
            args = (bytes(bad),) if fn != "derive_otfad_kek_key" else (bytes(bad), bytes(16))
            try:
                r = getattr(KeyStore, fn)(*args)
                ctx.violation(f"keystore-{fn}-accepts-invalid-key-length", {"len": bad, "out": r})
            except SPSDKError as e:
                ctx.refused(["keystore", fn, "invalid-key-length"], _brief(e))
    # the same derivation as the user meets it: `nxpimage sb21 get-sbkek` prints the keys and stores them; the text file is the
    # one `sb21 export -k` reads, so it holds the SBKEK itself
    import os

    from click.testing import CliRunner

    from spsdk.apps import nxpimage

    for j in range(3):
        key = rb(rng, 32)
        outdir = os.path.join(ctx.workdir, f"sbkek_{case['k']}_{j}")
        res = CliRunner().invoke(nxpimage.main, ["sb21", "get-sbkek", "-k", key.hex(), "-o", outdir], catch_exceptions=True)
        if res.exit_code != 0:
            if res.exception is not None and not isinstance(res.exception, (SPSDKError, SystemExit)):
                raise res.exception
            ctx.violation("cli-get-sbkek-fails", {"exit": res.exit_code, "output": (res.output or "")[-200:]})
            continue
        want = ref_modes.ecb_encrypt(key, KEYSTORE_CONST["derive_sb_kek_key"])
        printed = [ln.split(":", 1)[1].strip() for ln in res.output.splitlines() if ln.startswith("SBKEK:")]
        stored = None
        try:
            with open(os.path.join(outdir, "sbkek.txt"), encoding="utf-8") as f:
                stored = f.read().strip()
        except OSError:
            pass
        if printed != [want.hex()]:
            ctx.violation("cli-get-sbkek-printed-key-differs-from-definition", {"master": key, "printed": printed, "want": want})
        elif stored is None or bytes.fromhex(stored) != want:
            ctx.violation("cli-get-sbkek-stored-text-key-differs-from-definition", {"master": key, "stored": stored, "want": want})
        else:
            n += 1
            t.ok("keystore", "cli-get-sbkek")
    ctx.count("keystore_kdf", n)
    t.sample = {"keystore": "derive_*", "compared": n}
    t.flush()


def _case_sb31kdf(case, ctx):
    from spsdk.exceptions import SPSDKError
    from spsdk.sbfile.sb31 import functions as F

    rng, t = ctx.rng, Tally(ctx)
    n = 0
    consts = [0, 1, 15, 0x27C0E97C, MASK32, 1 << 32, (1 << 64) - 1, (1 << 96) - 1]
    for i in range(600 if ctx.tier == "thorough" else 250):
        rights = rng.randrange(4)
        bits = core.pick(rng, [128, 256])
        const = consts[i] if i < len(consts) else core.pick(rng, consts + [rng.getrandbits(core.pick(rng, [8, 32, 64, 96]))] * 4)
        ccls = "<2^32" if const <= MASK32 else ("<2^64" if const < 1 << 64 else "<2^96")
        ks = core.pick(rng, [16, 24, 32])
        key = rb(rng, ks)
        for mode in ("KDK", "BLK"):
            menum = F.KeyDerivationMode.from_label(mode)
            bad = False
            for it in (1, 2, rng.randrange(1, 1 << 32)):
                got = F._get_key_derivation_data(const, rights, menum, bits, it)  # pylint: disable=protected-access
                want = sb31_kdf_data(const, rights, mode, bits, it)
                if bytes(got) != want:
                    ctx.violation("sb31-kdf-derivation-data-differs", {"constant": const, "rights": rights, "mode": mode, "bits": bits,
                                                                       "iteration": it, "got": got, "want": want})
                    bad = True
                n += 1
            fn = F.derive_kdk if mode == "KDK" else F.derive_block_key
            got = fn(key, const, bits, rights)
            want = sb31_derive(key, const, rights, mode, bits)
            if bytes(got) != want:
                mech = "sb31-kdf-derived-key-length" if len(got) != bits // 8 else "sb31-kdf-derived-key-differs"
                ctx.violation(mech, {"fn": fn.__name__, "key": key, "constant": const, "rights": rights, "bits": bits, "got": got, "want": want})
                bad = True
            n += 1
            if not bad:
                t.ok("sb31-kdf", mode, bits, rights, ks, ccls)
        # the engine: PCK -> KDK -> block keys
        kd = F.KeyDerivator(pck=key, timestamp=const, key_length=bits, kdk_access_rights=rights)
        kdk = sb31_derive(key, const, rights, "KDK", bits)
        blk = rng.randrange(0, 1 << core.pick(rng, [4, 16, 32]))
        if bytes(kd.kdk) != kdk or bytes(kd.get_block_key(blk)) != sb31_derive(kdk, blk, rights, "BLK", bits):
            ctx.violation("sb31-kdf-keyderivator-chain-differs", {"pck": key, "timestamp": const, "bits": bits, "rights": rights, "block": blk})
        else:
            n += 2
            t.ok("sb31-kdf", "KeyDerivator", bits, rights, ks)
    for rights, bits in ((4, 128), (-1, 128), (6, 256), (0, 192), (0, 0), (0, 5), (3, 512)):
        try:
            r = F.derive_block_key(bytes(32), 1, bits, rights)
            ctx.violation("sb31-kdf-accepts-invalid-parameter", {"rights": rights, "bits": bits, "out": r})
        except SPSDKError as e:
            ctx.refused(["sb31-kdf", "invalid-parameter"], _brief(e))
    ctx.count("sb31_kdf", n)
    t.sample = {"sb31": "kdf", "judged": n}
    t.flush()


def _counter_check(ctx, S, t, nonce, ctr_value, incs, order_name, use_default_inc=False):
    """Drive one Counter; judge .value after construction and after every increment."""
    from spsdk.utils.misc import Endianness

    order = Endianness.BIG if order_name == "big" else Endianness.LITTLE
    kw = {} if order_name == "little-default" else {"ctr_byteorder_encoding": order}
    bo = "big" if order_name == "big" else "little"
    c = S.Counter(nonce, ctr_value, **kw) if ctr_value is not None else S.Counter(nonce, **kw)
    total = int.from_bytes(nonce[12:], bo) + (ctr_value or 0)
    steps = [None] + list(incs)
    judged = 0
    for k, inc in enumerate(steps):
        if inc is not None:
            if use_default_inc and inc == 1:
                c.increment()
            else:
                c.increment(inc)
            total += inc
        want = nonce[:12] + (total & MASK32).to_bytes(4, bo)
        det = {"nonce": nonce, "ctr_value": ctr_value, "byteorder": order_name, "increments": steps[1:k + 1],
               "blocks_from_zero": total, "want": want}
        try:
            got = c.value
        except OverflowError as e:
            if total > MASK32:
                ctx.violation(K_COUNTER_OVERFLOW, dict(det, exc=_brief(e)))
            else:
                ctx.violation("counter-value-raises-below-2^32", dict(det, exc=_brief(e)))
            return judged
        if bytes(got) != want:
            ctx.violation("counter-wrong-value-after-wrap" if total > MASK32 else "counter-wrong-value", dict(det, got=got))
            return judged
        judged += 1
        wrapcls = "wrapped" if total > MASK32 else "no-wrap"
        t.ok("counter", order_name, "ctr_value" if ctr_value is not None else "no-ctr_value",
             "start" if inc is None else ("inc0" if inc == 0 else ("inc<2^32" if inc <= MASK32 else "inc>=2^32")), wrapcls)
    return judged


def _case_counter_directed(case, ctx, S):
    """Deterministic witnesses: start values at the 32-bit edge, the increments the property names."""
    t = Tally(ctx)
    n = 0
    base = bytes(range(0xA0, 0xAC))
    for order in ("big", "little", "little-default"):
        bo = "big" if order == "big" else "little"
        for start in (0, 1, 0x7FFFFFFF, 0xFFFFFFF0, MASK32 - 1, MASK32):
            nonce = base + start.to_bytes(4, bo)
            for ctr_value in (None, 0, 1, 16, MASK32, 1 << 32, (1 << 32) + 5, 1 << 33):
                n += _counter_check(ctx, S, t, nonce, ctr_value, [], order)
            for incs in ([0], [1], [1, 1, 1], [15, 1], [16], [MASK32], [1 << 32], [(1 << 32) + 1], [1 << 33], [0x80000000, 0x80000000],
                         [1, 0, MASK32, 1 << 33]):
                n += _counter_check(ctx, S, t, nonce, None, incs, order, use_default_inc=True)
    ctx.count("counter", n)
    t.sample = {"counter": "directed", "judged": n}
    t.flush()


def _case_counter(case, ctx, S):
    from spsdk.exceptions import SPSDKError
    from spsdk.utils.misc import Endianness

    rng, t = ctx.rng, Tally(ctx)
    n = 0
    pool = [0, 1, 2, 16, 255, 256, 0x7FFFFFFF, 0x80000000, MASK32 - 1, MASK32, 1 << 32, (1 << 32) + 1, (1 << 33) - 1, 1 << 33]
    for _ in range(1500 if ctx.tier == "thorough" else 500):
        order = core.pick(rng, ["big", "little", "little-default"])
        bo = "big" if order == "big" else "little"
        start = core.pick(rng, [MASK32 - rng.randrange(0, 64), rng.getrandbits(32), rng.randrange(0, 64), MASK32])
        nonce = rb(rng, 12) + start.to_bytes(4, bo)
        ctr_value = core.pick(rng, [None, None, 0, core.pick(rng, pool), rng.randrange(0, (1 << 33) + 1)])
        incs = [core.pick(rng, pool + [rng.randrange(0, (1 << 33) + 1)] * 6) for _ in range(rng.randrange(0, 5))]
        n += _counter_check(ctx, S, t, nonce, ctr_value, incs, order, use_default_inc=rng.random() < 0.5)
    # positioning an AES-CTR keystream: a message encrypted in two pieces, the second one at the counter advanced by the
    # number of blocks of the first, equals the one-shot ciphertext (big-endian counter, no 32-bit wrap inside the message)
    for _ in range(60):
        key = rb(rng, core.pick(rng, [16, 24, 32]))
        nblocks = rng.randrange(2, 12)
        m = rb(rng, 16 * nblocks - rng.randrange(0, 16))
        cut = rng.randrange(1, nblocks)
        start = rng.randrange(0, MASK32 - 16)
        nonce = rb(rng, 12) + start.to_bytes(4, "big")
        c = S.Counter(nonce, ctr_byteorder_encoding=Endianness.BIG)
        whole = S.aes_ctr_encrypt(key, m, c.value)
        first = S.aes_ctr_encrypt(key, m[: 16 * cut], c.value)
        c.increment(cut)
        second = S.aes_ctr_encrypt(key, m[16 * cut:], c.value)
        if first + second != whole or whole != ref_modes.ctr_crypt(key, nonce, m):
            ctx.violation("counter-does-not-position-ctr-keystream", {"key": key, "nonce": nonce, "blocks_first_piece": cut, "len": len(m)})
        else:
            n += 1
            t.ok("counter", "positions aes-ctr keystream", "big")
    for bad in (b"", bytes(12), bytes(15), bytes(17), bytearray(16), "0123456789abcdef"):
        try:
            S.Counter(bad)  # type: ignore[arg-type]
            ctx.violation("counter-accepts-invalid-nonce", {"nonce": repr(bad)})
        except SPSDKError as e:
            ctx.refused(["counter", "invalid-nonce"], _brief(e))
    ctx.count("counter", n)
    t.sample = {"counter": "random", "judged": n}
    t.flush()


def _case_rng(case, ctx):
    from spsdk.crypto import rng as R

    n = 0
    for ln in list(range(0, 66)) + [128, 1024, 8192]:
        b = R.random_bytes(ln)
        h = R.random_hex(ln)
        if not isinstance(b, bytes) or len(b) != ln:
            ctx.violation("rng-random_bytes-length", {"asked": ln, "got": len(b)})
        if not isinstance(h, str) or len(h) != 2 * ln or (ln and bytes.fromhex(h) is None):
            ctx.violation("rng-random_hex-length", {"asked": ln, "got": len(h)})
        n += 2
    if len({R.random_bytes(16) for _ in range(64)}) != 64 or len({R.random_hex(16) for _ in range(64)}) != 64:
        ctx.violation("rng-repeats-128-bit-values", {})
    for ub in (1, 2, 3, 10, 256, 1 << 32, (1 << 64) + 1):
        vals = [R.rand_below(ub) for _ in range(200)]
        if not all(isinstance(v, int) and 0 <= v < ub for v in vals):
            ctx.violation("rng-rand_below-out-of-range", {"upper_bound": ub, "bad": [v for v in vals if not 0 <= v < ub][:3]})
        if ub >= 10 and len(set(vals)) < 5:
            ctx.violation("rng-rand_below-not-varying", {"upper_bound": ub})
        n += len(vals)
    ctx.count("rng", n)
    ctx.ok(["rng", "sanity"], n=n, sample={"rng": "lengths, ranges, 64 distinct 128-bit draws"})


def _case_enums(case, ctx):
    from spsdk.crypto import crc as C
    from spsdk.crypto import hash as H

    labels = sorted(m.label for m in H.EnumHashAlgorithm)
    missing = sorted(set(labels) - set(HASH_LABELS))
    if missing:  # a new member would silently escape the per-algorithm cases
        raise core.Inconclusive(f"EnumHashAlgorithm has members this check does not drive: {missing}")
    crcs = sorted(m.label for m in C.CrcAlg)
    if sorted(CRC_LABELS) != crcs or {a.label for a in C.CRC_ALGORITHMS} != set(CRC_LABELS):
        raise core.Inconclusive(f"CrcAlg / CRC_ALGORITHMS differ from the three named algorithms: {crcs}")
    shared = [f"{a.name}/{b.name} tag {a.tag}" for a in C.CrcAlg for b in C.CrcAlg if a.name < b.name and a.tag == b.tag]
    ctx.note("crcalg_members_sharing_a_tag (observation, not judged)", shared)
    supported = []
    for lb in labels:
        ok, _ = _try(H.get_hash, b"", H.EnumHashAlgorithm.from_label(lb))
        supported.append(f"{lb}:{'yes' if ok else 'refused'}")
    ctx.note("hash_algorithms_supported", supported)
    ctx.ok(["enums", "coverage of EnumHashAlgorithm and CrcAlg"], n=len(labels) + len(crcs), sample={"hashes": supported, "crcs": crcs})


# ==========================================================================================
# inverse-law postconditions wrapped around the real functions (plain wrappers, never raise)
# ==========================================================================================
_REF_LIMIT = 1024  # reference comparison inside the wrappers only for inputs up to this many bytes
_INSTALLED = {"done": False}


def _install_wrappers(rec):  # noqa: C901
    """Wrap the real functions; ``rec`` needs .violation(mech, detail) and .count(name).

    Postconditions use the *unwrapped* originals, are evaluated after a normal return only, swallow nothing of the
    wrapped call (its result / exception passes through untouched) and never raise themselves."""
    if _INSTALLED["done"] or not os.environ.get(core.GUARD):
        return
    _INSTALLED["done"] = True
    from spsdk.crypto import cmac as MC
    from spsdk.crypto import spsdk_hmac as MH
    from spsdk.crypto import symmetric as S

    refusals = _refusal_types()
    o = {n: getattr(S, n) for n in (
        "aes_key_wrap", "aes_key_unwrap", "aes_ecb_encrypt", "aes_ecb_decrypt", "aes_cbc_encrypt", "aes_cbc_decrypt",
        "aes_ctr_encrypt", "aes_ctr_decrypt", "aes_xts_encrypt", "aes_xts_decrypt", "aes_ccm_encrypt", "aes_ccm_decrypt",
        "sm4_cbc_encrypt", "sm4_cbc_decrypt")}
    o_hmac, o_hmac_v, o_cmac, o_cmac_v = MH.hmac, MH.hmac_validate, MC.cmac, MC.cmac_validate

    def pad16(b):
        return b + bytes(-len(b) % 16)

    def law(name, inverse, want_of, ref=None, default_iv_alg=None):
        """name: wrapped function; inverse(args, out) -> value that must equal want_of(args, out)."""
        orig = o[name]
        sig = inspect.signature(orig)

        @functools.wraps(orig)
        def wrapper(*a, **kw):
            out = orig(*a, **kw)
            try:
                args = sig.bind(*a, **kw)
                args.apply_defaults()
                args = args.arguments
                rec.count("monitor_inverse_law")
                rec.count("mon_" + name)
                det = {"fn": name, "args": {k: (bytes(v) if isinstance(v, (bytes, bytearray, memoryview)) else v) for k, v in args.items()}}
                try:
                    back = inverse(args, out)
                except refusals as e:
                    if default_iv_alg and not args.get("iv_data") and "initial vector length" in str(e).lower():
                        rec.violation(K_CBC_DEFAULT_IV.format(alg=default_iv_alg), dict(det, exc=_brief(e), seen_by="postcondition"))
                    else:
                        rec.violation(f"monitor:{name}-inverse-raises", dict(det, exc=_brief(e)))
                    return out
                if bytes(back) != bytes(want_of(args, out)):
                    rec.violation(f"monitor:{name}-inverse-law", dict(det, out=bytes(out), back=bytes(back)))
                elif ref is not None and len(bytes(out)) <= _REF_LIMIT:
                    want = ref(args, out)
                    if want is not None:
                        rec.count("monitor_reference")
                        if bytes(out) != want:
                            rec.violation(f"monitor:{name}-differs-from-reference", dict(det, out=bytes(out), want=want))
            except Exception as e:  # pylint: disable=broad-except
                rec.violation("monitor:postcondition-crashed", {"fn": name, "exc": core.exc_brief(e)})
            return out

        wrapper.__c09_orig__ = orig
        return wrapper

    def b(x):
        return bytes(x)

    def safe(fn):  # a reference that cannot handle the input simply does not judge it
        def g(args, out):
            try:
                return fn(args, out)
            except (ValueError, TypeError):
                return None
        return g

    new = {
        "aes_ecb_encrypt": law("aes_ecb_encrypt", lambda a, r: o["aes_ecb_decrypt"](a["key"], r), lambda a, r: a["plain_data"],
                               safe(lambda a, r: ref_modes.ecb_encrypt(a["key"], a["plain_data"]))),
        "aes_ecb_decrypt": law("aes_ecb_decrypt", lambda a, r: o["aes_ecb_encrypt"](a["key"], r), lambda a, r: a["encrypted_data"],
                               safe(lambda a, r: ref_modes.ecb_decrypt(a["key"], a["encrypted_data"]))),
        # same IV argument on both sides: left out on encrypt => left out on decrypt
        "aes_cbc_encrypt": law("aes_cbc_encrypt", lambda a, r: o["aes_cbc_decrypt"](a["key"], r, a["iv_data"]), lambda a, r: pad16(b(a["plain_data"])),
                               safe(lambda a, r: ref_modes.cbc_encrypt(a["key"], a["iv_data"], pad16(b(a["plain_data"]))) if a["iv_data"] else None), "aes"),
        "aes_cbc_decrypt": law("aes_cbc_decrypt", lambda a, r: o["aes_cbc_encrypt"](a["key"], r, a["iv_data"]), lambda a, r: a["encrypted_data"],
                               safe(lambda a, r: ref_modes.cbc_decrypt(a["key"], a["iv_data"], a["encrypted_data"]) if a["iv_data"] else None)),
        "sm4_cbc_encrypt": law("sm4_cbc_encrypt", lambda a, r: o["sm4_cbc_decrypt"](a["key"], r, a["iv_data"]), lambda a, r: pad16(b(a["plain_data"])),
                               safe(lambda a, r: ref_sm4.sm4_cbc_encrypt(a["key"], a["iv_data"], pad16(b(a["plain_data"]))) if a["iv_data"] else None), "sm4"),
        "sm4_cbc_decrypt": law("sm4_cbc_decrypt", lambda a, r: o["sm4_cbc_encrypt"](a["key"], r, a["iv_data"]), lambda a, r: a["encrypted_data"],
                               safe(lambda a, r: ref_sm4.sm4_cbc_decrypt(a["key"], a["iv_data"], a["encrypted_data"]) if a["iv_data"] else None)),
        "aes_ctr_encrypt": law("aes_ctr_encrypt", lambda a, r: o["aes_ctr_decrypt"](a["key"], r, a["nonce"]), lambda a, r: a["plain_data"],
                               safe(lambda a, r: ref_modes.ctr_crypt(a["key"], a["nonce"], a["plain_data"]))),
        "aes_ctr_decrypt": law("aes_ctr_decrypt", lambda a, r: o["aes_ctr_encrypt"](a["key"], r, a["nonce"]), lambda a, r: a["encrypted_data"],
                               safe(lambda a, r: ref_modes.ctr_crypt(a["key"], a["nonce"], a["encrypted_data"]))),
        "aes_xts_encrypt": law("aes_xts_encrypt", lambda a, r: o["aes_xts_decrypt"](a["key"], r, a["tweak"]), lambda a, r: a["plain_data"],
                               safe(lambda a, r: ref_modes.xts_encrypt(a["key"], a["tweak"], a["plain_data"]))),
        "aes_xts_decrypt": law("aes_xts_decrypt", lambda a, r: o["aes_xts_encrypt"](a["key"], r, a["tweak"]), lambda a, r: a["encrypted_data"],
                               safe(lambda a, r: ref_modes.xts_decrypt(a["key"], a["tweak"], a["encrypted_data"]))),
        "aes_ccm_encrypt": law("aes_ccm_encrypt", lambda a, r: o["aes_ccm_decrypt"](a["key"], r, a["nonce"], a["associated_data"], a["tag_len"]),
                               lambda a, r: a["plain_data"],
                               safe(lambda a, r: ref_modes.ccm_encrypt(a["key"], a["nonce"], a["plain_data"], a["associated_data"] or b"", a["tag_len"]))),
        "aes_ccm_decrypt": law("aes_ccm_decrypt", lambda a, r: o["aes_ccm_encrypt"](a["key"], r, a["nonce"], a["associated_data"], a["tag_len"]),
                               lambda a, r: a["encrypted_data"],
                               safe(lambda a, r: ref_modes.ccm_decrypt(a["key"], a["nonce"], a["encrypted_data"], a["associated_data"] or b"", a["tag_len"]))),
        "aes_key_wrap": law("aes_key_wrap", lambda a, r: o["aes_key_unwrap"](a["kek"], r), lambda a, r: a["key_to_wrap"],
                            safe(lambda a, r: ref_modes.key_wrap(a["kek"], a["key_to_wrap"]))),
        "aes_key_unwrap": law("aes_key_unwrap", lambda a, r: o["aes_key_wrap"](a["kek"], r), lambda a, r: a["wrapped_key"],
                              safe(lambda a, r: ref_modes.key_unwrap(a["kek"], a["wrapped_key"]))),
    }

    def mac_law(name, orig, validate, reffn):
        sig = inspect.signature(orig)

        @functools.wraps(orig)
        def wrapper(*a, **kw):
            out = orig(*a, **kw)
            try:
                args = sig.bind(*a, **kw)
                args.apply_defaults()
                args = args.arguments
                rec.count("monitor_inverse_law")
                rec.count("mon_" + name)
                extra = (args["algorithm"],) if "algorithm" in args else ()
                if validate(args["key"], args["data"], out, *extra) is not True:
                    rec.violation(f"monitor:{name}-not-accepted-by-{name}_validate", {"key": b(args["key"]), "data": b(args["data"]), "mac": b(out)})
                elif len(args["data"]) <= _REF_LIMIT:
                    want = reffn(args)
                    if want is not None:
                        rec.count("monitor_reference")
                        if bytes(out) != want:
                            rec.violation(f"monitor:{name}-differs-from-reference", {"key": b(args["key"]), "data": b(args["data"]), "mac": b(out), "want": want})
            except Exception as e:  # pylint: disable=broad-except
                rec.violation("monitor:postcondition-crashed", {"fn": name, "exc": core.exc_brief(e)})
            return out

        wrapper.__c09_orig__ = orig
        return wrapper

    def validate_law(name, orig, mac):
        sig = inspect.signature(orig)

        @functools.wraps(orig)
        def wrapper(*a, **kw):
            out = orig(*a, **kw)
            try:
                args = sig.bind(*a, **kw)
                args.apply_defaults()
                args = args.arguments
                rec.count("monitor_inverse_law")
                rec.count("mon_" + name)
                extra = (args["algorithm"],) if "algorithm" in args else ()
                exp = bytes(mac(args["key"], args["data"], *extra)) == bytes(args["signature"])
                if out is not exp:
                    rec.violation(f"monitor:{name}-answer-differs-from-recomputation", {"key": b(args["key"]), "data": b(args["data"]),
                                                                                       "signature": b(args["signature"]), "got": out})
            except Exception as e:  # pylint: disable=broad-except
                rec.violation("monitor:postcondition-crashed", {"fn": name, "exc": core.exc_brief(e)})
            return out

        wrapper.__c09_orig__ = orig
        return wrapper

    def hmac_ref(args):
        label = getattr(args["algorithm"], "label", None)
        return ref_hmac(label, args["key"], args["data"]) if label in HASH_BLOCK else None

    def cmac_ref(args):
        try:
            return ref_modes.cmac(args["key"], args["data"])
        except ValueError:
            return None

    replaced = {}  # original function object -> wrapper
    for n, w in new.items():
        replaced[o[n]] = w
        setattr(S, n, w)
    for mod, n, w in ((MH, "hmac", mac_law("hmac", o_hmac, o_hmac_v, hmac_ref)), (MH, "hmac_validate", validate_law("hmac_validate", o_hmac_v, o_hmac)),
                      (MC, "cmac", mac_law("cmac", o_cmac, o_cmac_v, cmac_ref)), (MC, "cmac_validate", validate_law("cmac_validate", o_cmac_v, o_cmac))):
        replaced[getattr(mod, n)] = w
        setattr(mod, n, w)
    # names already bound elsewhere by "from ... import ..."
    for mname, mod in list(sys.modules.items()):
        if not mname.startswith("spsdk") or mod is None:
            continue
        for attr, val in list(vars(mod).items()):
            try:
                w = replaced.get(val)
            except TypeError:
                continue
            if w is not None:
                setattr(mod, attr, w)

    # Counter: increment adds exactly what was stated; value = nonce || (counter mod 2^32)
    o_inc = S.Counter.increment
    o_val = S.Counter.value.fget

    def increment(self, value=1):
        before = getattr(self, "_ctr", None)
        o_inc(self, value)
        try:
            rec.count("monitor_inverse_law")
            rec.count("mon_Counter.increment")
            after = getattr(self, "_ctr", None)
            if isinstance(before, int) and isinstance(after, int) and isinstance(value, int) and (after - before) & MASK32 != value & MASK32:
                rec.violation("monitor:counter-increment-not-exact", {"before": before, "value": value, "after": after})
        except Exception as e:  # pylint: disable=broad-except
            rec.violation("monitor:postcondition-crashed", {"fn": "Counter.increment", "exc": core.exc_brief(e)})

    def value(self):
        try:
            out = o_val(self)
        except OverflowError as e:
            ctr = getattr(self, "_ctr", None)
            if isinstance(ctr, int) and ctr > MASK32:
                rec.violation(K_COUNTER_OVERFLOW, {"counter": ctr, "exc": _brief(e), "seen_by": "postcondition"})
            raise
        try:
            rec.count("monitor_inverse_law")
            rec.count("mon_Counter.value")
            ctr, nonce, order = getattr(self, "_ctr", None), getattr(self, "_nonce", None), getattr(self, "_ctr_byteorder_encoding", None)
            if isinstance(ctr, int) and isinstance(nonce, bytes) and order is not None and ctr >= 0:
                want = nonce + (ctr & MASK32).to_bytes(4, order.value)
                if bytes(out) != want:
                    rec.violation("monitor:counter-value-not-nonce-plus-counter", {"counter": ctr, "nonce": nonce, "got": bytes(out), "want": want})
        except Exception as e:  # pylint: disable=broad-except
            rec.violation("monitor:postcondition-crashed", {"fn": "Counter.value", "exc": core.exc_brief(e)})
        return out

    increment.__doc__, value.__doc__ = o_inc.__doc__, o_val.__doc__
    S.Counter.increment = increment
    S.Counter.value = property(value)


def install_monitors(ctx):
    _install_wrappers(ctx)


# ==========================================================================================
# the repository's own tests as an extra workload (this module doubles as the pytest plugin)
# ==========================================================================================
class _FileRec:
    """Recorder used inside the pytest child process: JSON lines appended to C09_MONITOR_LOG."""

    def __init__(self, path):
        self.fd = os.open(path, os.O_WRONLY | os.O_APPEND | os.O_CREAT, 0o644)
        self.counts: dict = {}
        self.nviol = 0

    def emit(self, rec):
        os.write(self.fd, (json.dumps(rec, default=str) + "\n").encode())

    def violation(self, mech, detail=None):
        self.nviol += 1
        if self.nviol <= 40:
            test = os.environ.get("PYTEST_CURRENT_TEST", "")
            self.emit({"t": "viol", "mech": mech, "detail": core.jsonable(detail), "test": test})

    def count(self, name, n=1):
        self.counts[name] = self.counts.get(name, 0) + n
        self.ticks = getattr(self, "ticks", 0) + 1
        if self.ticks % 500 == 0:  # snapshots: the last record of a process wins (survives a killed child)
            self.emit({"t": "counters", "pid": os.getpid(), "v": self.counts, "violations": self.nviol})


_PLUGIN = {"rec": None}


def pytest_configure(config):  # noqa: ARG001  (pytest hook; only active in the child started by the repo_tests case)
    path = os.environ.get("C09_MONITOR_LOG")
    if not path or not os.environ.get(core.GUARD) or _PLUGIN["rec"] is not None:
        return
    import spsdk

    rec = _PLUGIN["rec"] = _FileRec(path)
    rec.emit({"t": "start", "pid": os.getpid(), "spsdk": os.path.abspath(spsdk.__file__)})
    _install_wrappers(rec)


def pytest_sessionfinish(session, exitstatus):  # noqa: ARG001
    rec = _PLUGIN["rec"]
    if rec is not None:
        rec.emit({"t": "counters", "pid": os.getpid(), "v": rec.counts, "violations": rec.nviol, "exit": int(exitstatus)})


REPO_TEST_PATHS = {
    "quick": ["tests/crypto", "tests/sbfile/sb31", "tests/sbfile/test_crypto.py", "tests/utils/crypto"],
    "thorough": ["tests/crypto", "tests/sbfile", "tests/utils/crypto", "tests/nxpimage/test_nxpimage_sb31.py",
                 "tests/nxpimage/test_nxpimage_sb21.py", "tests/nxpimage/test_nxpimage_otfad.py", "tests/nxpimage/test_nxpimage_iee.py",
                 "tests/nxpimage/test_nxpimage_bee.py"],
}


def _case_repo_tests(case, ctx):
    repo = core.repo_root()
    os.makedirs(ctx.workdir, exist_ok=True)
    log = os.path.join(ctx.workdir, "c09_repo_tests.jsonl")
    if os.path.exists(log):
        os.remove(log)
    paths = [p for p in REPO_TEST_PATHS[ctx.tier] if os.path.exists(os.path.join(repo, p))]
    env = dict(os.environ)
    env.update({"PYTHONPATH": f"{repo}:{core.VERIF_ROOT}", "C09_MONITOR_LOG": log, "PYTHONDONTWRITEBYTECODE": "1", core.GUARD: "1"})
    cmd = [sys.executable, "-m", "pytest", "-q", "--no-header", "-p", "no:cacheprovider", "-p", "vf.props.c09",
           "--continue-on-collection-errors", "-n", "8" if ctx.tier == "thorough" else "4", "--basetemp", os.path.join(ctx.workdir, "pytest-tmp")] + paths
    try:
        r = subprocess.run(cmd, cwd=repo, env=env, capture_output=True, text=True, timeout=CASE_TIMEOUT_S - 240, check=False)
        rc, tail = r.returncode, (r.stdout or "")[-300:].replace("\n", " | ")
    except subprocess.TimeoutExpired:
        rc, tail = None, "pytest child exceeded the wall-clock limit"
    per_pid: dict = {}
    started = []
    nviol = 0
    if os.path.exists(log):
        with open(log, encoding="utf-8") as f:
            for line in f:
                try:
                    ev = json.loads(line)
                except json.JSONDecodeError:
                    continue
                if ev["t"] == "start":
                    started.append(ev["spsdk"])
                elif ev["t"] == "counters":
                    per_pid[ev.get("pid")] = ev["v"]
                elif ev["t"] == "viol":
                    nviol += 1
                    ctx.violation(ev["mech"], {"under": "repository tests", "test": ev.get("test"), "detail": ev.get("detail")})
    counts: dict = {}
    for v in per_pid.values():
        for k, x in v.items():
            counts[k] = counts.get(k, 0) + x
    if any(not s.startswith(repo + os.sep) for s in started):
        raise core.Inconclusive(f"pytest child imported spsdk from {started[:2]}, not from {repo}")
    for k, v in counts.items():
        if k.startswith("mon_"):
            ctx.count("repo_tests_" + k, v)
    ctx.note("repo_tests", {"paths": paths, "pytest_exit_code (not a verdict)": rc, "tail": tail, "monitor_counts": counts,
                            "processes": len(started)})
    evals = counts.get("monitor_inverse_law", 0)
    ctx.count("repo_tests_monitor_evaluations", evals)
    ctx.count("repo_tests_monitor_reference", counts.get("monitor_reference", 0))
    if evals:
        ctx.ok(["repo-tests", "inverse-law postconditions under the repository's tests"], n=evals,
               sample={"paths": paths, "postconditions_evaluated": evals, "reference_comparisons": counts.get("monitor_reference", 0),
                       "monitor_firings": nviol})


# ==========================================================================================
def run_case(case, ctx):
    kind = case["kind"]
    if kind == "repo_tests":
        return _case_repo_tests(case, ctx)
    from spsdk.crypto import symmetric as S

    if kind in ("ecb", "cbc", "ctr", "xts", "ccm", "ccm_grid", "keywrap", "counter", "counter_directed"):
        return globals()["_case_" + kind](case, ctx, S)
    if kind in ("cmac", "hash", "hmac", "hkdf", "crc", "keystore", "sb31kdf", "rng", "enums"):
        return globals()["_case_" + kind](case, ctx)
    raise core.Inconclusive(f"unknown case kind {kind}")
