"""C04 - Secure Binary 2.x: the ROM decodes exactly the command list that was given.

Runtime monitoring: the real builders (``BootImageV20`` / ``BootImageV21`` objects, ``BootImageV21.load_from_config``,
``nxpimage sb21 export``) are driven with generated section / command lists, keys, nonces and certificate chains;
every exported file is handed to the independent ROM model ``vf.refs.sb2_rom`` (same KEK) whose decoded header
values, sections and commands are compared field by field with what was supplied; SPSDK's own ``parse`` is compared
with what the ROM model read from the same bytes; then the file is re-read (model and SPSDK parser) with a wrong KEK, with
a single-byte corruption in every region and with a checksum-preserving swap of two command-header bytes (CTR malleability:
only the MACs can notice).  One case = one file.

Mechanism keys: sb2-load-count-padded (known finding, directed witness), sb2-header-component-version-from-product-version,
sb21-sha-flag-{certblock-image-length,first-boot-tag-block,image-blocks}-omits-digest, sb21-parse-only-first-section,
sb21-parse-flags-from-constructor-default, sb2-ctr-counter-word-overflow (all repaired in /repo, witnesses stay as regression
cases); everything else is keyed by what disagreed: rom-reject:<model code>, rom-issue:<code>, rom-header-mismatch:<field>,
rom-command-mismatch:<kind>:<fields>, rom-load-mismatch:<field>, parse-*, parse-accepts-corruption:<region>, cli-*.
"""
from __future__ import annotations

import hashlib
import os
import re
from datetime import datetime

from vf import core, pki
from vf.refs import sb2_rom

ID = "C04"
DECOY_CWD = True  # the worker runs in a directory that holds other bytes under every input file name (vf/worker.py)
LEVEL = "exploration"
TECHNIQUE = "runtime monitoring: independent ROM model (pure-Python AES-CTR/RFC 3394/HMAC/RSA/CRC) over exported files + differential parse + byte-corruption sweep"
RULE = (
    "one case = one SB 2.0 (signed / unsigned) or SB 2.1 file: 1..4 sections with arbitrary 32-bit ids, 1..12 commands each "
    "drawn over all 13 command classes (load lengths 16q+r with every residue r, fill patterns of 1/2/3/4 bytes, memory ids "
    "with and without group ids, jump with/without SP, erase flags, 4/8-byte program, version checks, key-store commands), "
    "HMAC-table sizes 1..12, product != component versions, build numbers, flags 0x0008 / 0x8008, timestamps, random and edge "
    "DEK/MAC/nonce/KEK (nonce counter word within a few blocks of 2^32), RSA-2048/3072/4096 chains of depth 1..3 with 1..4 root "
    "key hashes and any used slot; API path, configuration path (YAML -> load_from_config) and CLI path (nxpimage sb21 export / "
    "parse under CliRunner).  Each file is re-read ~30 times: wrong KEK, one corrupted byte per region (header fields, header MAC, key blob, "
    "certificate block parts, digest, signature, every section's tag header / HMACs / cipher text) and one checksum-preserving byte swap per "
    "section.  Non-trivial = the file was exported and the ROM model was run on it.  Signature = (path, version, "
    "sections, chain depth, key size, SHA flag, command kinds)."
)
ASSUMPTIONS = [
    "the SB 2.x layout is the one in vf/refs/sb2_rom.py, validated against the five elftosb-made SB 2.1 files of the repository's test data (exact load counts, group memory ids, jump with SP, 8-byte program)",
    "all sections carry the LAST flag in SPSDK and elftosb files; the model decodes every section up to image_blocks and does not judge that flag",
    "the data-HMAC slicing for n > 1 (first n-1 slices of count//n blocks) and the SB 2.0 'sign' section have no third-party ground truth here; "
    "the model follows the format description (Appendix A); the certificate block's image_length is judged for SB 2.1 only",
    "load data is compared on the given length; count == align16(len) with the given bytes as prefix is the known finding sb2-load-count-padded",
    "CmdFill(length=None) means 4 bytes; a pattern < 0x100 is a byte, < 0x10000 a half-word (replicated into the 32-bit pattern word)",
    "configuration path: section ids are positions (the builder numbers sections itself, see C19); options.buildNumber and imageBuildNumber are given the same value",
    "a corrupted byte that SPSDK's parser does not notice is tolerated when the parsed content equals the content parsed from the pristine file",
]
REQUIRED_COUNTERS = [
    "files_exported", "rom_decoded", "rom_commands_compared", "rom_loads_compared", "parse_compared",
    "neg_wrong_kek", "neg_model_rejected", "neg_spsdk_judged", "cfg_exports", "cli_exports", "witness_load_count",
    "second_exports_judged", "kek_given_by_argument",
]
CASE_TIMEOUT_S = 300
WATCHDOG_S = {"quick": 1200, "thorough": 7200}

EPOCH_2000 = 946684800
MEM_IDS = [0, 0, 0, 1, 4, 8, 9, 0xA, 0xB, 0x10, 0x100, 0x101, 0x110, 0x111, 0x120, 0x121]
KEYSTORE_IDS = [1, 4, 8, 9, 10, 11, 16]
KINDS = ["load", "load", "load", "fill", "jump", "call", "erase", "reset", "enable", "prog", "version_check",
         "keystore_to_nv", "keystore_from_nv", "nop", "tag"]
CFG_KINDS = ["load", "load", "fill", "jump", "erase", "enable", "prog", "version_check", "keystore_to_nv", "keystore_from_nv"]


def install_monitors(ctx):
    """No wrappers are needed (everything is observed on exported bytes); pin the time zone so that the
    naive local datetimes SPSDK's API takes map one-to-one to the epoch seconds the oracle computes with."""
    import time

    os.environ["TZ"] = "UTC"
    time.tzset()


def selftest(ctx):
    from vf.refs import aes, crcs, modes, rsa

    out = {"aes": aes.selftest(), "modes": modes.selftest(), "crcs": crcs.selftest(), "rsa": rsa.selftest()}
    out["sb2_rom"] = sb2_rom.selftest(core.repo_root())
    return out


def cases(tier, seed):
    yield {"kind": "witness", "what": "load-count"}
    yield {"kind": "witness", "what": "component-version"}
    yield {"kind": "witness", "what": "two-sections-parse"}
    yield {"kind": "witness", "what": "sha-flag"}
    yield {"kind": "witness", "what": "parse-flags"}
    yield {"kind": "witness", "what": "counter-wrap"}
    n_api = 12000 if tier == "thorough" else 900  # measured: ~0.2 s CPU per file incl. ~30 corrupted re-reads
    n_cfg = 700 if tier == "thorough" else 48
    n_cli = 400 if tier == "thorough" else 24
    for k in range(n_api):
        ver = ("2.1", "2.1", "2.1", "2.0s", "2.0u", "2.1", "2.0s", "2.1")[k % 8]
        yield {"kind": "api", "k": k, "ver": ver}
    for k in range(n_cfg):
        yield {"kind": "cfg", "k": k}
    for k in range(n_cli):
        yield {"kind": "cli", "k": k}


# ------------------------------------------------------------------------------------------------
# generators
def _u32(rng):
    r = rng.random()
    if r < 0.25:
        return core.pick(rng, [0, 1, 4, 0x10, 0xFF, 0x100, 0xFFFF, 0x10000, 0x7FFFFFFF, 0x80000000, 0xFFFFFFF0, 0xFFFFFFFC, 0xFFFFFFFF])
    if r < 0.5:
        return rng.getrandbits(core.pick(rng, [8, 12, 16, 20, 24, 28]))
    return rng.getrandbits(32)


def _mem_id(rng):
    if rng.random() < 0.25:
        return (rng.randrange(16) << 8) | rng.randrange(256)
    return core.pick(rng, MEM_IDS)


def _key32(rng, n=32):
    r = rng.random()
    if r < 0.06:
        return bytes(n)
    if r < 0.12:
        return b"\xff" * n
    if r < 0.16:
        return bytes(range(n))
    return core.rand_bytes(rng, n)


def _version(rng):
    def part():
        nd = core.pick(rng, [1, 1, 1, 2, 2, 3, 4])
        s = "".join(rng.choice("0123456789") for _ in range(nd))
        if rng.random() < 0.7:
            s = s.lstrip("0") or "0"
        return s
    return ".".join(part() for _ in range(3))


def _ver_words(text):
    return tuple(int(p, 16) for p in text.split("."))


def _gen_cmd(rng, kind, resid, small=False):
    if kind == "load":
        q = core.pick(rng, [0, 0, 0, 0, 1, 1, 1, 2, 3, 5]) if small else core.pick(rng, [0, 0, 0, 1, 1, 1, 2, 2, 3, 4, 7, 15, 16, 31, 63, 64, 127, 255])
        ln = 16 * q + resid
        return {"k": "load", "address": _u32(rng), "mem_id": _mem_id(rng), "data": core.rand_bytes(rng, ln), "zero": rng.random() < 0.4}
    if kind == "fill":
        cls = core.pick(rng, [1, 2, 3, 4])
        pat = {1: rng.randrange(0x100), 2: rng.randrange(0x100, 0x10000), 3: rng.randrange(0x10000, 0x1000000),
               4: rng.randrange(0x1000000, 1 << 32)}[cls]
        if rng.random() < 0.1:
            pat = core.pick(rng, [0, 0xFF, 0xFFFF, 0xFFFFFFFF, 0x100, 0x10000])
        ln = None if rng.random() < 0.3 else 4 * core.pick(rng, [1, 1, 2, 3, 4, 64, 0x100, 0x3FFFFFFF, rng.randrange(1, 1 << 30)])
        return {"k": "fill", "address": _u32(rng), "pattern": pat, "length": ln}
    if kind == "jump":
        return {"k": "jump", "address": _u32(rng), "argument": _u32(rng), "sp": None if rng.random() < 0.5 else _u32(rng)}
    if kind == "call":
        return {"k": "call", "address": _u32(rng), "argument": _u32(rng)}
    if kind == "erase":
        fl = core.pick(rng, [0, 0, 0, 1, 2])
        return {"k": "erase", "address": 0 if fl and rng.random() < 0.7 else _u32(rng), "length": 0 if fl and rng.random() < 0.7 else _u32(rng),
                "flags": fl, "mem_id": _mem_id(rng)}
    if kind == "enable":
        return {"k": "enable", "address": _u32(rng), "size": _u32(rng), "mem_id": _mem_id(rng)}
    if kind == "prog":
        return {"k": "prog", "address": _u32(rng), "mem_id": core.pick(rng, [4, 4, 4, 0, 1, 9, 0xFF, rng.randrange(256)]),
                "w1": _u32(rng), "w2": 0 if rng.random() < 0.5 else (_u32(rng) or 1)}
    if kind == "version_check":
        return {"k": "version_check", "type": rng.randrange(2), "version": _u32(rng)}
    if kind in ("keystore_to_nv", "keystore_from_nv"):
        return {"k": kind, "address": _u32(rng), "mem_id": core.pick(rng, KEYSTORE_IDS)}
    return {"k": kind}  # nop, reset, tag


def _fill_word(pattern):
    if pattern < 0x100:
        return pattern * 0x01010101
    if pattern < 0x10000:
        return pattern * 0x00010001
    return pattern


def expected_tuple(c):
    k = c["k"]
    if k == "load":
        return ("load", c["address"], c["mem_id"], len(c["data"]), bytes(c["data"]))
    if k == "fill":
        return ("fill", c["address"], _fill_word(c["pattern"]), c["length"] or 4)
    if k == "jump":
        return ("jump", c["address"], c["argument"], c["sp"])
    if k == "call":
        return ("call", c["address"], c["argument"])
    if k == "erase":
        return ("erase", c["address"], c["length"], c["mem_id"], c["flags"])
    if k == "enable":
        return ("enable", c["address"], c["size"], c["mem_id"])
    if k == "prog":
        return ("prog", c["address"], c["mem_id"], c["w1"], c["w2"], 1 if c["w2"] else 0)
    if k == "version_check":
        return ("version_check", c["type"], c["version"])
    if k in ("keystore_to_nv", "keystore_from_nv"):
        return (k, c["address"], c["mem_id"])
    if k == "tag":
        return ("tag", 0, 0, 0, 0)
    return (k,)  # nop, reset


def build_cmd(c):
    from spsdk.mboot.memories import ExtMemId
    from spsdk.sbfile.sb2 import commands as C

    k = c["k"]
    if k == "load":
        return C.CmdLoad(c["address"], c["data"], c["mem_id"], zero_filling=c.get("zero", False))
    if k == "fill":
        return C.CmdFill(c["address"], c["pattern"], c["length"])
    if k == "jump":
        return C.CmdJump(c["address"], c["argument"], c["sp"])
    if k == "call":
        return C.CmdCall(c["address"], c["argument"])
    if k == "erase":
        return C.CmdErase(c["address"], c["length"], c["flags"], c["mem_id"])
    if k == "enable":
        return C.CmdMemEnable(c["address"], c["size"], c["mem_id"])
    if k == "prog":
        return C.CmdProg(c["address"], c["mem_id"], c["w1"], c["w2"])
    if k == "version_check":
        return C.CmdVersionCheck(C.VersionCheckType.from_tag(c["type"]), c["version"])
    if k == "keystore_to_nv":  # tag 12: restore the key store to non-volatile memory
        return C.CmdKeyStoreRestore(c["address"], ExtMemId.from_tag(c["mem_id"]))
    if k == "keystore_from_nv":  # tag 13
        return C.CmdKeyStoreBackup(c["address"], ExtMemId.from_tag(c["mem_id"]))
    return {"nop": C.CmdNop, "reset": C.CmdReset, "tag": C.CmdTag}[k]()


def spsdk_tuple(cmd):
    """Content of a parsed SPSDK command object in the ROM model's tuple form (load: data as parsed)."""
    n = type(cmd).__name__
    h = cmd.header
    if n == "CmdLoad":
        return ("load", cmd.address, cmd.mem_id, len(cmd.data), bytes(cmd.data))
    if n == "CmdFill":
        return ("fill", cmd.address, int.from_bytes(cmd.pattern, "big"), h.count)
    if n == "CmdJump":
        return ("jump", cmd.address, cmd.argument, cmd.spreg)
    if n == "CmdCall":
        return ("call", cmd.address, cmd.argument)
    if n == "CmdErase":
        return ("erase", cmd.address, cmd.length, cmd.mem_id, cmd.flags & 0xF)
    if n == "CmdMemEnable":
        return ("enable", cmd.address, cmd.size, cmd.mem_id)
    if n == "CmdProg":
        return ("prog", cmd.address, cmd.mem_id, cmd.data_word1, cmd.data_word2, cmd.is_eight_byte)
    if n == "CmdVersionCheck":
        return ("version_check", cmd.type.tag, cmd.version)
    if n == "CmdKeyStoreRestore":
        return ("keystore_to_nv", cmd.address, cmd.controller_id)
    if n == "CmdKeyStoreBackup":
        return ("keystore_from_nv", cmd.address, cmd.controller_id)
    if n == "CmdTag":
        return ("tag", h.flags, h.address, h.count, h.data)
    if n == "CmdNop":
        return ("nop",)
    if n == "CmdReset":
        return ("reset",)
    return ("?" + n,)


def gen_spec(rng, ver, k, cfg_path=False):
    """Everything that is 'given to the builder' for one file."""
    nsec = core.pick(rng, [1, 1, 2, 2, 3, 4])
    small = nsec > 2 or rng.random() < 0.5
    sections = []
    uids = set()
    resid = k  # walk the residues mod 16 deterministically across loads and cases
    for si in range(nsec):
        if cfg_path:
            uid = si
        else:
            uid = core.pick(rng, [si, _u32(rng), _u32(rng)])
            while uid in uids and (ver != "2.1" or rng.random() < 0.8):
                uid = rng.getrandbits(32)
        uids.add(uid)
        ncmd = core.pick(rng, [1, 2, 3, 4, 5, 6, 8, 12]) if not small else core.pick(rng, [1, 2, 3, 4, 6])
        cmds = []
        for _ in range(ncmd):
            kind = core.pick(rng, CFG_KINDS if cfg_path else KINDS)
            c = _gen_cmd(rng, kind, resid % 16, small=small)
            if kind == "load":
                resid += 7  # coprime with 16: every residue is reached
            cmds.append(c)
        sections.append({"uid": uid, "hmac_count": core.pick(rng, [1, 1, 2, 3, 4, 4, 7, 12]), "zero": rng.random() < 0.3, "commands": cmds})
    nonce = core.rand_bytes(rng, 16)
    r = rng.random()
    if r < 0.07:
        nonce = nonce[:12] + ((1 << 32) - core.pick(rng, [1, 2, 3, 5, 13, 14, 20, 40, 100, 300])).to_bytes(4, "little")
    elif r < 0.10:
        nonce = bytes(16)
    elif r < 0.13:
        nonce = b"\xff" * 12 + core.rand_bytes(rng, 3) + b"\x7f"
    ts = core.pick(rng, [EPOCH_2000, EPOCH_2000 + 1, 1580428800, rng.randrange(EPOCH_2000, 4102444800), rng.randrange(EPOCH_2000, 2000000000)])
    kind = core.pick(rng, ["rsa2048", "rsa2048", "rsa2048", "rsa2048", "rsa3072", "rsa4096"])
    root = rng.randrange(4)
    n_rkh = rng.randrange(1, 5)
    slot = rng.randrange(n_rkh)
    pv = _version(rng)
    cv = _version(rng) if rng.random() < 0.85 else pv
    return {
        "ver": ver, "kek": _key32(rng), "dek": _key32(rng), "mac": _key32(rng), "nonce": nonce, "timestamp": ts,
        "padding": None if rng.random() < 0.4 else (bytes(8) if rng.random() < 0.3 else core.rand_bytes(rng, 8)),
        "product_version": pv, "component_version": cv, "build_number": _u32(rng),
        "flags": (0x0008 if rng.random() < 0.5 else 0x8008) if ver == "2.1" else (0x8 if ver == "2.0s" else 0x4),
        "chain": {"kind": kind, "root": root, "depth": core.pick(rng, [1, 1, 2, 3]), "n_rkh": n_rkh, "slot": slot},
        "sections": sections,
    }


# ------------------------------------------------------------------------------------------------
# certificates
def chain_files(ch):
    """-> (list of DER certificate paths root first, signing key name, list of 4 root-certificate paths or None)."""
    names = pki.names(ch["kind"])
    root = names[ch["root"]]
    if ch["depth"] == 1:
        certs, signer = [pki.path(root, "nonca", "der")], root
    else:
        c = pki.chain(root, ch["depth"])
        certs, signer = list(c["certs"]), c["keys"][-1]
    others = [n for n in names if n != root]
    table = []
    for i in range(4):
        if i == ch["slot"]:
            table.append(certs[0])
        elif i < ch["n_rkh"]:
            table.append(pki.path(others.pop(0), "cert", "der"))
        else:
            table.append(None)
    return certs, signer, table


def expected_rkh_table(ch):
    certs, _signer, table = chain_files(ch)
    names = pki.names(ch["kind"])
    out = []
    for p in table:
        if p is None:
            out.append(bytes(32))
            continue
        base = os.path.basename(p)
        name = next(n for n in names if base.startswith(n + "."))
        n, e = pki.rsa_pub_bytes(name)
        out.append(hashlib.sha256(n + e).digest())
    return out


def make_cert_block(ch, build_number=0):
    from spsdk.crypto.certificate import Certificate
    from spsdk.utils.crypto.cert_blocks import CertBlockV1

    certs, signer, table = chain_files(ch)
    cb = CertBlockV1(build_number=build_number)
    for p in certs:
        cb.add_certificate(Certificate.load(p))
    for i, p in enumerate(table):
        if p is not None:
            cb.set_root_key_hash(i, Certificate.load(p))
    return cb, signer


# ------------------------------------------------------------------------------------------------
# builders
def build_api(spec):
    from spsdk.crypto.signature_provider import get_signature_provider
    from spsdk.sbfile.sb2.images import BootImageV20, BootImageV21, SBV2xAdvancedParams
    from spsdk.sbfile.sb2.sections import BootSectionV2

    adv = SBV2xAdvancedParams(dek=spec["dek"], mac=spec["mac"], nonce=spec["nonce"],
                              timestamp=datetime.fromtimestamp(spec["timestamp"]), padding=spec["padding"])
    built = [[build_cmd(c) for c in s["commands"]] for s in spec["sections"]]
    sections = [BootSectionV2(s["uid"], *cmds, hmac_count=s["hmac_count"], zero_filling=s["zero"])
                for s, cmds in zip(spec["sections"], built)]
    common = {"product_version": spec["product_version"], "component_version": spec["component_version"],
              "build_number": spec["build_number"], "advanced_params": adv}
    if spec["ver"] == "2.1":
        img = BootImageV21(spec["kek"], *sections, flags=spec["flags"], **common)
    else:
        img = BootImageV20(spec["ver"] == "2.0s", spec["kek"], *sections, **common)
    if spec["ver"] != "2.0u":
        cb, signer = make_cert_block(spec["chain"])
        img.cert_block = cb
        img.signature_provider = get_signature_provider(local_file_key=pki.path(signer, "priv", "pem"))
    data = img.export(padding=spec["padding"])
    if spec.get("export_twice"):
        # the same image object asked again: export may not consume or advance anything (keys, nonce, section state);
        # it is the second file that is judged
        spec["first_export_len"] = len(data)
        edit = spec.get("edit_between_exports")
        if edit == "load-data":
            # an exported object is edited and exported again: a load gets other bytes of the same length
            loads = [(c, o) for s, cmds in zip(spec["sections"], built) for c, o in zip(s["commands"], cmds) if c["k"] == "load" and c["data"]]
            if loads:
                c, o = loads[spec["edit_pick"] % len(loads)]
                new = bytes(b ^ 0xA5 for b in c["data"])
                o.data = new
                c["data"] = new
                spec["first_export_len"] = None  # (the length stays the same; nothing to compare it with is needed)
                spec["first_export_len"] = len(data)
        elif edit == "sha-flag" and spec["ver"] == "2.1":
            # ... or the SHA-256 flag of the live header is switched: the layout follows the flags the file carries
            img.header.flags ^= 0x8000
            spec["flags"] ^= 0x8000
            spec["first_export_len"] = None
        data = img.export(padding=spec["padding"])
    return data


_LOAD_FILES = [0]


def cfg_command(c, files_dir, idx):
    k = c["k"]
    if k == "load":
        # three ways a configuration names its data: the absolute path of a file of this build; the bare name (found through
        # the search path = the folder of the configuration, whatever the working directory holds under that name); the
        # absolute path of a file that earlier builds of this process used with other content (a firmware rebuilt in place)
        _LOAD_FILES[0] += 1
        how = _LOAD_FILES[0] % 3
        p = os.path.join(files_dir, f"load{idx}.bin")
        if how == 2:
            rot = os.path.join(os.path.dirname(os.path.abspath(files_dir)), "rebuilt_in_place")
            os.makedirs(rot, exist_ok=True)
            p = os.path.join(rot, f"load{idx}.bin")  # idx is unique within one configuration
        with open(p, "wb") as f:
            f.write(c["data"])
        d = {"address": c["address"], "file": os.path.basename(p) if how == 1 else p}
        if c["mem_id"]:
            d["load_opt"] = c["mem_id"]
        return {"load": d}
    if k == "fill":
        return {"fill": {"address": c["address"], "pattern": c["pattern"]}}
    if k == "jump":
        d = {"address": c["address"], "argument": c["argument"]}
        if c["sp"] is not None:
            d["spreg"] = c["sp"]
        return {"jump": d}
    if k == "erase":
        d = {"address": c["address"], "length": c["length"], "flags": c["flags"]}
        if c["mem_id"]:
            d["mem_opt"] = c["mem_id"]
        return {"erase": d}
    if k == "enable":
        d = {"address": c["address"]}
        if c["mem_id"]:
            d["mem_opt"] = c["mem_id"]
        return {"enable": d}
    if k == "prog":
        return {"programFuses": {"address": c["address"], "pattern": c["w1"], "load_opt": c["mem_id"]}}
    if k == "version_check":
        return {"version_check": {"ver_type": c["type"], "fw_version": c["version"]}}
    return {k: {"address": c["address"], "mem_opt": c["mem_id"]}}


def adapt_spec_for_cfg(spec):
    """The configuration format cannot express everything: bring the spec to what it can say."""
    for s in spec["sections"]:
        s["hmac_count"] = 1
        s["zero"] = False
        for c in s["commands"]:
            if c["k"] == "fill":
                c["length"] = None
            elif c["k"] == "enable":
                c["size"] = 4
            elif c["k"] == "prog":
                c["w2"] = 0
                c["w1"] = c["w1"] or 1  # a zero pattern counts as "not given"
                c["mem_id"] = c["mem_id"] or 4  # 0 would mean "default" = 4
            elif c["k"] == "load":
                c["zero"] = False
                if not c["data"]:
                    c["data"] = b"\x5a"  # an empty file is not a load
    spec["padding"] = bytes(8) if spec["padding"] == bytes(8) else None
    if spec["padding"] is not None:  # zeroPadding also selects zero filling of the loads
        for s in spec["sections"]:
            s["zero"] = True
    spec["ver"] = "2.1"
    if spec["flags"] not in (0x8, 0x8008):
        spec["flags"] = 0x8008
    spec["build_number"] &= 0x7FFFFFFF
    return spec


def write_config(spec, wdir, bd):
    """YAML configuration (+ certificate block YAML), or a BD file for the CLI flow that gets its certificates from options."""
    import yaml

    os.makedirs(wdir, exist_ok=True)
    certs, signer, table = chain_files(spec["chain"])
    kek_path = os.path.join(wdir, "kek.txt")
    with open(kek_path, "w", encoding="ascii") as f:
        f.write(spec["kek"].hex())
    opts = {"flags": spec["flags"], "buildNumber": spec["build_number"], "productVersion": spec["product_version"],
            "componentVersion": spec["component_version"], "secureBinaryVersion": "2.1",
            "dek": spec["dek"].hex(), "mac": spec["mac"].hex(), "nonce": spec["nonce"].hex(), "timestamp": spec["timestamp"]}
    if spec["padding"] is not None:
        opts["zeroPadding"] = True
    if bd:
        lines = ["options {"]
        for k, v in opts.items():
            lines.append(f"    {k} = {v};" if isinstance(v, (int, bool)) and k != "zeroPadding" else f"    {k} = True;" if k == "zeroPadding" else f'    {k} = "{v}";')
        lines.append("}")
        src, body = [], []
        n = 0
        for si, s in enumerate(spec["sections"]):
            body.append(f"section ({si}) {{")
            for c in s["commands"]:
                k = c["k"]
                mem = f"@{c['mem_id']} " if c.get("mem_id") else ""
                if k == "load":
                    fp = os.path.join(wdir, f"load{n}.bin")
                    with open(fp, "wb") as f:
                        f.write(c["data"])
                    src.append(f'    f{n} = "{fp}";')
                    body.append(f"    load f{n} > 0x{c['address']:x};")
                    n += 1
                elif k == "erase":
                    body.append(f"    erase {mem}0x{c['address']:x}..0x{c['address'] + c['length']:x};")
                elif k == "enable":
                    body.append(f"    enable {mem}0x{c['address']:x};")
                elif k == "version_check":
                    body.append(f"    version_check {'nsec' if c['type'] else 'sec'} 0x{c['version']:x};")
                elif k == "jump":
                    body.append(f"    jump 0x{c['address']:x};" if c["sp"] is None else f"    jump_sp 0x{c['sp']:x} 0x{c['address']:x} (0x{c['argument']:x});")
                else:
                    raise core.Inconclusive(f"generator: {k} is not written to BD files")
            body.append("}")
        path = os.path.join(wdir, "config.bd")
        with open(path, "w", encoding="utf-8") as f:
            f.write("\n".join(lines + ["sources {"] + src + ["}"] + body) + "\n")
        return path, kek_path, certs, signer, table
    cb_cfg = {"imageBuildNumber": spec["build_number"], "mainRootCertId": spec["chain"]["slot"]}
    for i, p in enumerate(table):
        if p is not None:
            cb_cfg[f"rootCertificate{i}File"] = p
    for j, p in enumerate(certs[1:]):
        cb_cfg[f"chainCertificate{spec['chain']['slot']}File{j}"] = p
    cb_path = os.path.join(wdir, "cert_block.yaml")
    with open(cb_path, "w", encoding="utf-8") as f:
        yaml.safe_dump(cb_cfg, f, sort_keys=False)
    kek_in_cfg = kek_path
    if spec.get("kek_by_argument"):
        # the caller names the key file explicitly (key_file_path= / -k): it is THAT key the file must open with, whatever
        # key the configuration carries (the schema makes the configuration carry one)
        other = bytes(b ^ 0x5A for b in spec["kek"])
        kek_in_cfg = os.path.join(wdir, "kek_of_the_configuration.txt") if spec["kek_by_argument"] == "file" else other.hex()
        if spec["kek_by_argument"] == "file":
            with open(kek_in_cfg, "w", encoding="ascii") as f:
                f.write(other.hex())
    cfg = {"family": spec.get("family", "rt5xx"), "containerOutputFile": os.path.join(wdir, "out.sb2"), "containerKeyBlobEncryptionKey": kek_in_cfg,
           "RKTHOutputPath": os.path.join(wdir, "rkth.bin"), "certBlock": cb_path, "signPrivateKey": pki.path(signer, "priv", "pem"),
           "options": opts, "sections": []}
    n = 0
    for si, s in enumerate(spec["sections"]):
        cmds = []
        for c in s["commands"]:
            cmds.append(cfg_command(c, wdir, n))
            n += 1
        cfg["sections"].append({"section_id": si, "commands": cmds})
    path = os.path.join(wdir, "config.yaml")
    with open(path, "w", encoding="utf-8") as f:
        yaml.safe_dump(cfg, f, sort_keys=False)
    return path, kek_path, certs, signer, table


def adapt_spec_for_bd(spec, rng):
    """BD flow of the CLI: only the statements whose meaning is beyond doubt (the BD language itself is C19's subject)."""
    for s in spec["sections"]:
        out = []
        for c in s["commands"]:
            k = c["k"]
            if k == "load":
                c["mem_id"] = 0
            elif k == "erase":
                c["flags"] = 0
                c["length"] = min(c["length"], 0xFFFFFFFF - c["address"])
            elif k == "jump":
                if c["sp"] is None:
                    c["argument"] = 0
            elif k not in ("enable", "version_check"):
                continue
            out.append(c)
        s["commands"] = out or [{"k": "version_check", "type": 1, "version": rng.getrandbits(16)}]
    return spec


# ------------------------------------------------------------------------------------------------
# judging
def align16(n):
    return n + (-n % 16)


def judge_rom(ctx, spec, data, tag):
    """ROM model on the exported bytes; returns the decoded dict or None.  Reports every disagreement."""
    signed = spec["ver"] != "2.0u"
    rkth = None
    if signed:
        rkth = hashlib.sha256(b"".join(expected_rkh_table(spec["chain"]))).digest()
    try:
        r = sb2_rom.decode(data, spec["kek"], expect_signed=signed, rkth=rkth, diagnose=True)
    except sb2_rom.RefReject as e:
        ctx.violation(f"rom-reject:{e.code}", {"path": tag, "ver": spec["ver"], "flags": spec["flags"], "reason": e.args[1],
                                               "sections": len(spec["sections"]), "file_len": len(data)})
        return None
    ctx.count("rom_decoded")
    sha = r["sha"]
    for code, detail in r["issues"]:
        key = f"rom-issue:{code}"
        if sha and code == "certblock-image-length" and r["signature_offset"] - r["cert_block"]["image_length"] == 32:
            key = "sb21-sha-flag-certblock-image-length-omits-digest"
        elif sha and code == "first-boot-tag-block" and r["sections_offset"] - 16 * r["first_boot_tag_block"] == 32:
            key = "sb21-sha-flag-first-boot-tag-block-omits-digest"
        elif sha and code == "section-overruns-image" and r["sections_end"] - 16 * r["image_blocks"] == 32:
            key = "sb21-sha-flag-image-blocks-omits-digest"
        ctx.violation(key, {"path": tag, "flags": spec["flags"], "detail": detail, "image_blocks": r["image_blocks"],
                            "file_blocks": r["file_blocks"], "first_boot_tag_block": r["first_boot_tag_block"]})
    # header values
    exp = {
        "version": (2, 1) if spec["ver"] == "2.1" else (2, 0), "flags": spec["flags"], "nonce": spec["nonce"],
        "dek": spec["dek"], "mac": spec["mac"], "build_number": spec["build_number"],
        "timestamp_us": (spec["timestamp"] - EPOCH_2000) * 1000000,
        "product_version_words": _ver_words(spec["product_version"]),
        "component_version_words": _ver_words(spec["component_version"]),
        "version_pad_words": (0,) * 6,
    }
    if spec["padding"] is not None:
        exp["header_padding"] = spec["padding"]
    for f, want in exp.items():
        if r[f] != want:
            key = f"rom-header-mismatch:{f}"
            if f == "component_version_words" and r[f] == exp["product_version_words"]:
                key = "sb2-header-component-version-from-product-version"
            ctx.violation(key, {"path": tag, "ver": spec["ver"], "given": want, "in_file": r[f],
                                "product_version": spec["product_version"], "component_version": spec["component_version"]})
    total = r["sections_end"] + (r["cert_block"]["signature_size"] if spec["ver"] == "2.0s" else 0)
    if total != len(data) and not r["issues"]:
        ctx.violation("rom-trailing-bytes-after-image", {"path": tag, "file_len": len(data), "image_end": total})
    if signed:
        cb = r["cert_block"]
        if cb["rkh"] != expected_rkh_table(spec["chain"]) or cb["used_root"] != spec["chain"]["slot"]:
            ctx.violation("rom-certblock-rkh-table-mismatch", {"path": tag, "chain": spec["chain"], "used_root": cb["used_root"]})
        if cb["cert_count"] != spec["chain"]["depth"]:
            ctx.violation("rom-certblock-chain-length", {"path": tag, "chain": spec["chain"], "count": cb["cert_count"]})
        if cb["build_number"] != spec["build_number"]:
            ctx.violation("rom-certblock-build-number", {"path": tag, "given": spec["build_number"], "in_file": cb["build_number"]})
    # sections and commands
    if len(r["sections"]) != len(spec["sections"]):
        ctx.violation("rom-section-count-mismatch", {"path": tag, "given": len(spec["sections"]), "decoded": len(r["sections"])})
    ncmp = nload = 0
    padded_reported = False
    for si, (gs, ds) in enumerate(zip(spec["sections"], r["sections"])):
        if ds["uid"] != gs["uid"]:
            ctx.violation("rom-section-id-mismatch", {"path": tag, "section": si, "given": gs["uid"], "decoded": ds["uid"]})
        want_n = min(gs["hmac_count"], ds["blocks"])
        if ds["hmac_count"] != want_n:
            ctx.violation("rom-section-hmac-count-mismatch", {"path": tag, "section": si, "given": gs["hmac_count"], "blocks": ds["blocks"], "decoded": ds["hmac_count"]})
        want = [expected_tuple(c) for c in gs["commands"]]
        got = ds["commands"]
        if len(want) != len(got):
            ctx.violation("rom-command-count-mismatch", {"path": tag, "section": si, "given": [w[0] for w in want], "decoded": [g[0] for g in got]})
        for ci, (w, g) in enumerate(zip(want, got)):
            ncmp += 1
            if w == g:
                nload += w[0] == "load"
                continue
            if w[0] == "load" and g[0] == "load":
                nload += 1
                ln = w[3]
                if w[:3] == g[:3] and g[3] == align16(ln) and g[3] != ln and g[4][:ln] == w[4]:
                    if not padded_reported:  # once per file
                        padded_reported = True
                        ctx.violation("sb2-load-count-padded", {"path": tag, "section": si, "command": ci, "given_length": ln, "count_in_file": g[3]})
                    continue
                field = "address" if w[1] != g[1] else "mem_id" if w[2] != g[2] else "count" if g[3] != ln and g[3] != align16(ln) else "data"
                ctx.violation(f"rom-load-mismatch:{field}", {"path": tag, "section": si, "command": ci, "given": (w[1], w[2], w[3], core.hx(w[4], 24)),
                                                             "decoded": (g[1], g[2], g[3], core.hx(g[4], 24))})
                continue
            if w[0] != g[0]:
                ctx.violation("rom-command-kind-mismatch", {"path": tag, "section": si, "command": ci, "given": w, "decoded": g})
                continue
            names = {"fill": ["address", "pattern", "length"], "jump": ["address", "argument", "sp"], "call": ["address", "argument"],
                     "erase": ["address", "length", "mem_id", "flags"], "enable": ["address", "size", "mem_id"],
                     "prog": ["address", "mem_id", "word1", "word2", "eight_byte"], "version_check": ["type", "version"],
                     "keystore_to_nv": ["address", "mem_id"], "keystore_from_nv": ["address", "mem_id"], "tag": ["flags", "address", "count", "data"]}
            bad = [names.get(w[0], [])[i] if i < len(names.get(w[0], [])) else str(i) for i in range(len(w) - 1) if w[i + 1] != g[i + 1]]
            ctx.violation(f"rom-command-mismatch:{w[0]}:{'+'.join(bad)}", {"path": tag, "section": si, "command": ci, "given": w, "decoded": g})
    ctx.count("rom_commands_compared", ncmp)
    ctx.count("rom_loads_compared", nload)
    return r


def spsdk_content(obj, ver):
    """Normalised content of a parsed BootImageV20/V21 object."""
    h = obj.header
    secs = []
    for s in obj:
        secs.append((s.uid, tuple(spsdk_tuple(c) for c in s)))
    return {
        "flags": h.flags, "product_version_words": tuple(h.product_version.nums), "component_version_words": tuple(h.component_version.nums),
        "build_number": h.build_number, "timestamp": int(h.timestamp.timestamp()), "nonce": bytes(h.nonce), "dek": bytes(obj.dek), "mac": bytes(obj.mac),
        "sections": tuple(secs),
    }


def reference_content(spec, r):
    """What the parser has to return: read from the file by the ROM model (or, without it, what was given)."""
    if r is not None:
        return {
            "flags": r["flags"], "product_version_words": r["product_version_words"], "component_version_words": r["component_version_words"],
            "build_number": r["build_number"], "timestamp": EPOCH_2000 + r["timestamp_us"] // 1000000, "nonce": r["nonce"], "dek": r["dek"], "mac": r["mac"],
            "sections": tuple((s["uid"], tuple(s["commands"])) for s in r["sections"]),
        }
    return {
        "flags": spec["flags"], "product_version_words": _ver_words(spec["product_version"]), "component_version_words": _ver_words(spec["component_version"]),
        "build_number": spec["build_number"], "timestamp": spec["timestamp"], "nonce": spec["nonce"], "dek": spec["dek"], "mac": spec["mac"],
        "sections": tuple((s["uid"], tuple(expected_tuple(c) for c in s["commands"])) for s in spec["sections"]),
    }


def spsdk_parse(ver, data, kek):
    from spsdk.sbfile.sb2.images import BootImageV20, BootImageV21

    if ver == "2.1":
        return BootImageV21.parse(data, kek=kek)
    return BootImageV20.parse(data, kek=kek)


def loads_equal_modulo_padding(a, b):
    """Parsed load vs reference load: equal, or the parser kept the block padding the file carries."""
    return a[:3] == b[:3] and a[4][:b[3]] == b[4] and len(a[4]) == align16(b[3])


def judge_parse(ctx, spec, data, r, tag):
    """SPSDK's own parser on the pristine file, compared with what is in the file.  Returns its content (or None)."""
    ver = spec["ver"]
    try:
        obj = spsdk_parse(ver, data, spec["kek"])
    except Exception as e:  # pylint: disable=broad-except
        if not core.is_refusal(e) and core.origin_of(e) != "repo":
            raise
        ctx.violation("parse-rejects-own-export" if core.is_refusal(e) else f"parse-crashes-on-own-export:{type(e).__name__}",
                      {"path": tag, "ver": ver, "flags": spec["flags"], "exception": core.exc_brief(e), "rom_accepted": r is not None})
        return None
    got = spsdk_content(obj, ver)
    ref = reference_content(spec, r)
    ctx.count("parse_compared")
    for f in ("flags", "product_version_words", "component_version_words", "build_number", "timestamp", "nonce", "dek", "mac"):
        if got[f] != ref[f]:
            key = f"parse-header-mismatch:{f}"
            if f == "flags" and ver == "2.1" and got[f] == 0x8008:
                key = "sb21-parse-flags-from-constructor-default"
            ctx.violation(key, {"path": tag, "ver": ver, "in_file": ref[f], "parsed": got[f]})
    gs, rs = got["sections"], ref["sections"]
    if len(gs) != len(rs):
        key = "parse-section-count-mismatch"
        if ver == "2.1" and len(gs) == 1 and len(rs) > 1 and gs[0][0] == rs[0][0]:
            key = "sb21-parse-only-first-section"
        ctx.violation(key, {"path": tag, "ver": ver, "sections_in_file": [hex(s[0]) for s in rs], "sections_parsed": [hex(s[0]) for s in gs]})
    for si, (g, w) in enumerate(zip(gs, rs)):
        if g[0] != w[0]:
            ctx.violation("parse-section-id-mismatch", {"path": tag, "section": si, "in_file": w[0], "parsed": g[0]})
        if len(g[1]) != len(w[1]):
            ctx.violation("parse-command-count-mismatch", {"path": tag, "section": si, "in_file": [c[0] for c in w[1]], "parsed": [c[0] for c in g[1]]})
        for ci, (gc, wc) in enumerate(zip(g[1], w[1])):
            if gc == wc:
                continue
            if gc[0] == "load" and wc[0] == "load" and loads_equal_modulo_padding(gc, wc):
                continue  # the parser returns the padded block data: same mechanism as sb2-load-count-padded, nothing new
            ctx.violation(f"parse-command-mismatch:{wc[0]}", {"path": tag, "section": si, "command": ci,
                                                               "in_file": [core.hx(x, 24) for x in wc], "parsed": [core.hx(x, 24) for x in gc]})
    if got["flags"] == ref["flags"] and len(gs) == len(rs) and r is not None and not r["issues"]:
        obj.update()
        for f in ("image_blocks", "first_boot_tag_block", "max_section_mac_count", "first_boot_section_id", "offset_to_certificate_block"):
            if getattr(obj.header, f) != r[f]:
                ctx.violation(f"parse-header-mismatch:{f}", {"path": tag, "ver": ver, "in_file": r[f], "parsed_after_update": getattr(obj.header, f)})
    return got


def content_fingerprint(c):
    return core.stable_hash(sorted(c.items()))


def regions_of(spec, r, size):
    """Named byte ranges of the file for the corruption sweep: (name, start, end, authenticated)."""
    out = [("header.nonce", 0, 16, True), ("header.padding0", 16, 20, True), ("header.magic+version+flags", 20, 28, True),
           ("header.block-fields", 28, 52, True), ("header.sgtl+timestamp", 52, 64, True), ("header.versions", 64, 88, True),
           ("header.build-number", 88, 92, True), ("header.padding1", 92, 96, True), ("header-mac", 96, 128, True), ("key-blob", 128, 200, True),
           ("key-blob-padding", 200, 208, spec["ver"] != "2.0u")]
    if r is None:
        out.append(("rest", 208, size, True))
        return out
    cb = r["cert_block"]
    if spec["ver"] == "2.0s":
        out.append(("sign-section.header+hmacs", 208, cb["offset"], True))
    if cb is not None:
        o = cb["offset"]
        out += [("certblock.header", o, o + 32, True), ("certblock.certificates", o + 32, o + 32 + cb["cert_table_length"], True),
                ("certblock.rkh-table", o + 32 + cb["cert_table_length"], o + 32 + cb["cert_table_length"] + 128, True)]
        if r["sha"]:
            out.append(("sections-digest", o + cb["size"], o + cb["size"] + 32, True))
        so = r["signature_offset"]
        out.append(("signature", so, so + cb["signature_size"], True))
    for i, s in enumerate(r["sections"]):
        o = s["offset"]
        body = o + 48 + 32 * s["hmac_count"]
        out += [(f"section{i}.enc-header", o, o + 16, True), (f"section{i}.header-hmac", o + 16, o + 48, True),
                (f"section{i}.data-hmacs", o + 48, body, True), (f"section{i}.ciphertext-first-block", body, body + 16, True),
                (f"section{i}.ciphertext", body, s["end"], True), (f"section{i}.ciphertext-last-block", s["end"] - 16, s["end"], True)]
    return [(n, a, min(b, size), au) for n, a, b, au in out if a < min(b, size)]


def negative_phase(ctx, spec, data, r, pristine, tag):
    """Wrong KEK and single-byte corruption: model must reject every authenticated byte; SPSDK must raise or return equal content."""
    rng = ctx.rng
    ver = spec["ver"]
    pfp = content_fingerprint(pristine) if pristine is not None else None

    def spsdk_judge(blob, kek, what, where):
        if pfp is None:
            ctx.count("neg_spsdk_skipped_no_pristine_parse")
            return
        try:
            obj = spsdk_parse(ver, blob, kek)
            got = spsdk_content(obj, ver)
        except Exception:  # pylint: disable=broad-except  (any exception type counts as "raises an error")
            ctx.count("neg_spsdk_judged")
            ctx.count("neg_spsdk_raised")
            return
        ctx.count("neg_spsdk_judged")
        if content_fingerprint(got) != pfp:
            ctx.violation(f"parse-accepts-corruption:{re.sub('^section[0-9]+', 'section', where)}" if what == "corruption" else "parse-accepts-wrong-kek",
                          {"path": tag, "ver": ver, "where": where})
        else:
            ctx.count("neg_spsdk_equal_content")
            ctx.count("neg_spsdk_equal_content:" + ver + ":" + re.sub("^section[0-9]+", "sectionN", where))

    # wrong KEK
    kek = bytearray(spec["kek"])
    if rng.random() < 0.5:
        kek[rng.randrange(32)] ^= 1 << rng.randrange(8)
    else:
        kek = bytearray(core.rand_bytes(rng, 32))
    if bytes(kek) != spec["kek"]:
        try:
            sb2_rom.decode(data, bytes(kek), diagnose=True)
            raise core.Inconclusive("ROM model accepted a wrong KEK")
        except sb2_rom.RefReject:
            ctx.count("neg_wrong_kek")
        spsdk_judge(data, bytes(kek), "kek", "kek")
    # corruption
    per_region = 1
    n_model = 0
    for name, a, b, auth in regions_of(spec, r, len(data)):
        for _ in range(per_region):
            pos = rng.randrange(a, b)
            bad = bytearray(data)
            bad[pos] ^= core.pick(rng, [1, 2, 4, 8, 0x10, 0x20, 0x40, 0x80, 0xFF, rng.randrange(1, 256)])
            bad = bytes(bad)
            if r is not None and not r["issues"]:
                try:
                    r2 = sb2_rom.decode(bad, spec["kek"], diagnose=False)
                    if auth:
                        raise core.Inconclusive(f"ROM model accepted a corrupted byte in {name} at {pos} ({spec['ver']})")
                    if reference_content(spec, r2) != reference_content(spec, r):
                        raise core.Inconclusive(f"ROM model decoded different content after corruption of unauthenticated {name}")
                    ctx.count("neg_model_unauthenticated_equal")
                except sb2_rom.RefReject:
                    if auth:
                        n_model += 1
            spsdk_judge(bad, spec["kek"], "corruption", name)
    # checksum-preserving corruption: CTR is malleable, so two different bytes of a command header can be swapped in
    # the plain text by editing the cipher text; the additive command checksum cannot see that, only the MACs can
    if r is not None:
        import struct

        for si, s in enumerate(r["sections"]):
            body = s["offset"] + 48 + 32 * s["hmac_count"]
            pos = 0
            cands = []
            for raw in s["raw_commands"]:
                tag, flags, address, count, dword = raw
                plain = struct.pack("<BH3L", tag, flags, address, count, dword)  # header bytes 1..15
                pairs = [(i, j) for i in range(1, 15) for j in range(i + 1, 15) if plain[i] != plain[j]]  # keep the tag byte
                if pairs:
                    cands.append((pos, plain, pairs))
                pos += 16 + (align16(count) if tag == 2 else 0)
            if not cands:
                continue
            pos, plain, pairs = core.pick(rng, cands)
            i, j = core.pick(rng, pairs)
            bad = bytearray(data)
            d = plain[i] ^ plain[j]
            bad[body + pos + 1 + i] ^= d
            bad[body + pos + 1 + j] ^= d
            bad = bytes(bad)
            name = f"section{si}.checksum-preserving-swap"
            if not r["issues"]:
                try:
                    sb2_rom.decode(bad, spec["kek"], diagnose=False)
                    raise core.Inconclusive(f"ROM model accepted a {name} ({spec['ver']})")
                except sb2_rom.RefReject as e:
                    if e.code not in ("section-hmac", "signature"):
                        raise core.Inconclusive(f"{name}: the model stopped at {e.code}, the swap was not checksum-preserving") from None
                    n_model += 1
                    ctx.count("neg_checksum_preserving_swaps")
            spsdk_judge(bad, spec["kek"], "corruption", name)
    # truncation: a file that ends early - exactly in front of a section, at the end of a section's MAC table, inside the
    # last section, one block or one byte short.  Every section is authenticated and counted by the signed header, so the
    # loader refuses all of these; SPSDK must raise or (never the case for a lost section) return the same content.
    if r is not None:
        cuts = set()
        for s_ in r["sections"]:
            cuts.update((s_["offset"], s_["offset"] + 48 + 32 * s_["hmac_count"], s_["end"], (s_["offset"] + s_["end"]) // 2 & ~15))
        cuts.update((len(data) - 1, len(data) - 16, r["sections"][0]["offset"] - 16 if r["sections"] else 0))
        for cut in sorted(c for c in cuts if 208 <= c < len(data)):
            bad = data[:cut]
            if not r["issues"]:
                try:
                    sb2_rom.decode(bad, spec["kek"], diagnose=False)
                    raise core.Inconclusive(f"ROM model accepted a file cut at {cut} of {len(data)} ({spec['ver']})")
                except sb2_rom.RefReject:
                    n_model += 1
                    ctx.count("neg_truncations")
            where = next((f"section{i}" for i, s_ in enumerate(r["sections"]) if s_["offset"] <= cut < s_["end"]), "before-sections")
            border = any(cut in (s_["offset"], s_["end"]) for s_ in r["sections"])
            spsdk_judge(bad, spec["kek"], "corruption", f"{where}.truncated-{'at-section-border' if border else 'inside'}")
    ctx.count("neg_model_rejected", n_model)


def run_file(ctx, spec, data, tag, negative=True):
    ctx.count("files_exported")
    r = judge_rom(ctx, spec, data, tag)
    pristine = judge_parse(ctx, spec, data, r, tag)
    if negative:
        negative_phase(ctx, spec, data, r, pristine, tag)
    kinds = sorted({c["k"] for s in spec["sections"] for c in s["commands"]})
    for s in spec["sections"]:
        for c in s["commands"]:
            ctx.count("~cmd:" + c["k"])
            if c["k"] == "load":
                ctx.count("~load_len_mod16:%02d" % (len(c["data"]) % 16))
            elif c["k"] == "fill":
                ctx.count("~fill_pattern_bytes:%d" % (1 if c["pattern"] < 0x100 else 2 if c["pattern"] < 0x10000 else 4))
            elif c["k"] == "jump":
                ctx.count("~jump_with_sp" if c["sp"] is not None else "~jump_without_sp")
            if c.get("mem_id", 0) > 0xFF:
                ctx.count("~mem_id_with_group")
    ctx.count("~sections:%d" % len(spec["sections"]))
    ctx.count("~version:" + spec["ver"] + (":sha" if spec["flags"] & 0x8000 else ""))
    if int.from_bytes(spec["nonce"][12:], "little") + len(data) // 16 >= 1 << 32:
        ctx.count("~nonce_counter_wraps_inside_file")
    ch = spec["chain"] if spec["ver"] != "2.0u" else {"depth": 0, "kind": "-"}
    sig = [tag, spec["ver"], len(spec["sections"]), ch["depth"], ch["kind"], bool(spec["flags"] & 0x8000), kinds]
    ctx.ok(sig, sample={"file_len": len(data), "sections": [(hex(s["uid"]), s["hmac_count"], [c["k"] for c in s["commands"]]) for s in spec["sections"]],
                        "versions": [spec["product_version"], spec["component_version"]], "rom_accepted": r is not None and not r["issues"]})
    return r


def export_or_report(ctx, spec, fn, tag):
    """Call a builder; classify what it raises.  Returns bytes or None."""
    try:
        return fn()
    except OverflowError as e:
        if core.origin_of(e) != "repo":
            raise
        word = int.from_bytes(spec["nonce"][12:], "little")
        ctx.violation("sb2-ctr-counter-word-overflow" if word > (1 << 32) - (1 << 20) else "escape:OverflowError",
                      {"path": tag, "ver": spec["ver"], "nonce_counter_word": hex(word), "exception": core.exc_brief(e)})
        return None
    except Exception as e:  # pylint: disable=broad-except
        if core.is_refusal(e):
            ctx.violation("builder-refuses-valid-input", {"path": tag, "ver": spec["ver"], "exception": core.exc_brief(e),
                                                          "versions": [spec["product_version"], spec["component_version"]]})
            return None
        raise


def base_spec(rng, ver="2.1", flags=0x0008):
    spec = gen_spec(rng, ver, 0)
    spec.update({"ver": ver, "flags": flags if ver == "2.1" else (0x8 if ver == "2.0s" else 0x4), "nonce": bytes(range(16)), "padding": bytes(8),
                 "product_version": "1.0.0", "component_version": "1.0.0", "build_number": 1,
                 "chain": {"kind": "rsa2048", "root": 0, "depth": 1, "n_rkh": 1, "slot": 0},
                 "sections": [{"uid": 0, "hmac_count": 1, "zero": True, "commands": [{"k": "erase", "address": 0, "length": 0x1000, "flags": 0, "mem_id": 0}]}]})
    return spec


# time zones a build may run in (POSIX TZ strings, no zone database needed): the header timestamp is an instant, whatever
# the zone and its daylight-saving rules are
TIME_ZONES = ["UTC0", "CET-1CEST,M3.5.0,M10.5.0/3", "EST5EDT,M3.2.0,M11.1.0", "NZST-12NZDT,M9.5.0,M4.1.0/3", "IST-5:30", "<-03>3"]


def run_case(case, ctx):
    import os
    import time

    old = os.environ.get("TZ")
    os.environ["TZ"] = core.pick(ctx.rng, TIME_ZONES)
    time.tzset()
    ctx.count("~tz:" + os.environ["TZ"].split(",")[0])
    try:
        return _run_case(case, ctx)
    finally:
        if old is None:
            os.environ.pop("TZ", None)
        else:
            os.environ["TZ"] = old
        time.tzset()


def _run_case(case, ctx):  # noqa: C901
    rng = ctx.rng
    kind = case["kind"]

    if kind == "witness":
        what = case["what"]
        spec = base_spec(rng)
        if what == "load-count":
            spec["sections"][0]["commands"] = [
                {"k": "load", "address": 0x20000000, "mem_id": 0, "data": bytes.fromhex("aabbccdd"), "zero": True},
                {"k": "load", "address": 0x1000, "mem_id": 0, "data": bytes(range(1, 16)), "zero": False},
                {"k": "load", "address": 0x2000, "mem_id": 0, "data": bytes(32), "zero": False},
            ]
            ctx.count("witness_load_count")
        elif what == "component-version":
            spec["product_version"], spec["component_version"] = "1.2.3", "4.5.6"
        elif what == "two-sections-parse":
            spec["sections"].append({"uid": 7, "hmac_count": 1, "zero": True, "commands": [{"k": "reset"}]})
        elif what == "sha-flag":
            spec["flags"] = 0x8008
        elif what == "parse-flags":
            spec["flags"] = 0x0008
        elif what == "counter-wrap":
            spec["nonce"] = bytes(12) + (0xFFFFFFF0).to_bytes(4, "little")  # the header alone is 6 blocks
        data = export_or_report(ctx, spec, lambda: build_api(spec), "witness")
        if data is not None:
            run_file(ctx, spec, data, "witness:" + what, negative=False)
        else:
            ctx.ok(["witness", what, "not built"], nontrivial=False)
        return

    if kind == "api":
        spec = gen_spec(rng, case["ver"], case["k"])
        spec["export_twice"] = case["k"] % 3 == 2
        if spec["export_twice"]:
            spec["edit_between_exports"] = core.pick(rng, [None, "load-data", "sha-flag"])
            spec["edit_pick"] = rng.randrange(1 << 16)
        data = export_or_report(ctx, spec, lambda: build_api(spec), "api")
        if data is None:
            ctx.ok(["api", case["ver"], "not built"], nontrivial=False)
            return
        if spec["export_twice"]:
            ctx.count("second_exports_judged")
            if spec.get("edit_between_exports"):
                ctx.count("edited_between_exports")
            if spec.get("first_export_len") is not None and spec.get("first_export_len") != len(data):
                ctx.violation("sb2-second-export-of-the-same-object-has-another-length",
                              {"ver": spec["ver"], "first": spec.get("first_export_len"), "second": len(data)})
        run_file(ctx, spec, data, "api")
        return

    if kind in ("cfg", "cli"):
        spec = adapt_spec_for_cfg(gen_spec(rng, "2.1", case["k"], cfg_path=True))
        wdir = os.path.join(ctx.workdir, f"{kind}{case['k']}")
        use_cli_certs = kind == "cli" and case["k"] % 2 == 0
        if use_cli_certs:
            spec = adapt_spec_for_bd(spec, rng)
        else:
            from spsdk.sbfile.sb2.images import BootImageV21 as _B
            from spsdk.utils.database import DatabaseManager, get_db

            fams = _B.get_supported_families()
            spec["family"] = fams[(case["k"] * 7 + rng.randrange(3)) % len(fams)]
            supported = set(get_db(spec["family"], "latest").get_list(DatabaseManager.SB21, "supported_commands"))
            keyword = {"prog": "programFuses"}
            for s in spec["sections"]:
                s["commands"] = [c for c in s["commands"] if keyword.get(c["k"], c["k"]) in supported] or [
                    {"k": "version_check", "type": 0, "version": rng.getrandbits(20)}]
        if not use_cli_certs and case["k"] % 3 == 1:
            spec["kek_by_argument"] = core.pick(rng, ["file", "literal"])
            ctx.count("kek_given_by_argument")
        path, kek_path, certs, signer, table = write_config(spec, wdir, bd=use_cli_certs)
        out = os.path.join(wdir, "out.sb2")
        if kind == "cfg":
            from spsdk.sbfile.sb2.images import BootImageV21

            def build():
                cfg = BootImageV21.parse_sb21_config(path)
                if spec.get("kek_by_argument"):
                    return BootImageV21.load_from_config(cfg, key_file_path=kek_path, search_paths=[wdir]).export()
                return BootImageV21.load_from_config(cfg, search_paths=[wdir]).export()

            data = export_or_report(ctx, spec, build, "cfg")
            if data is not None:
                ctx.count("cfg_exports")
        else:
            from click.testing import CliRunner

            from spsdk.apps import nxpimage

            args = ["sb21", "export", "-c", path, "-o", out]
            if spec.get("kek_by_argument"):
                args += ["-k", kek_path]
            if use_cli_certs:
                args += ["-k", kek_path, "-s", pki.path(signer, "priv", "pem"), "-h", os.path.join(wdir, "rkth_cli.bin")]
                for p in certs:
                    args += ["-S", p]
                for p in table:
                    if p is None:
                        break
                    args += ["-R", p]

            def build():
                res = CliRunner().invoke(nxpimage.main, args, catch_exceptions=True)
                if res.exception is not None and not isinstance(res.exception, SystemExit):
                    raise res.exception
                if res.exit_code != 0:
                    from spsdk.exceptions import SPSDKError

                    raise SPSDKError(f"nxpimage sb21 export exit code {res.exit_code}: {res.output[-300:]}")
                with open(out, "rb") as f:
                    return f.read()

            if use_cli_certs:
                # -R lists the table from slot 0 without gaps: the used root must be inside the listed prefix
                n_listed = next((i for i, p in enumerate(table) if p is None), 4)
                if spec["chain"]["slot"] >= n_listed:
                    raise core.Inconclusive("generator: used slot outside the listed root certificates")
            data = export_or_report(ctx, spec, build, "cli")
            if data is not None:
                ctx.count("cli_exports")
        if data is None:
            ctx.ok([kind, "not built"], nontrivial=False)
            return
        r = run_file(ctx, spec, data, kind, negative=kind == "cfg")
        if kind == "cli" and r is not None:
            cli_parse(ctx, spec, r, out, kek_path, wdir)
        return

    raise core.Inconclusive(f"unknown case kind {kind}")


def cli_parse(ctx, spec, r, sb_path, kek_path, wdir):
    """nxpimage sb21 parse: the dumped load data and certificates must be those of the file."""
    from click.testing import CliRunner

    from spsdk.apps import nxpimage

    outdir = os.path.join(wdir, "parsed")
    res = CliRunner().invoke(nxpimage.main, ["sb21", "parse", "-b", sb_path, "-k", kek_path, "-o", outdir], catch_exceptions=True)
    if res.exit_code != 0:
        if res.exception is not None and not isinstance(res.exception, SystemExit) and not core.is_refusal(res.exception):
            raise res.exception
        ctx.violation("cli-parse-rejects-own-export", {"exit_code": res.exit_code, "output": res.output[-300:]})
        return
    ctx.count("cli_parses")
    for ci, c in enumerate(r["sections"][0]["commands"]):
        if c[0] != "load":
            continue
        p = os.path.join(outdir, f"section_0_load_command_{ci}_data.bin")
        if not os.path.exists(p):
            ctx.violation("cli-parse-load-dump-missing", {"command": ci})
            continue
        with open(p, "rb") as f:
            dumped = f.read()
        if dumped[:c[3]] != c[4] or len(dumped) != align16(c[3]):
            ctx.violation("cli-parse-load-dump-mismatch", {"command": ci, "in_file": core.hx(c[4], 24), "dumped": core.hx(dumped, 24)})
    for i, cert in enumerate(r["cert_block"]["certificates"]):
        p = os.path.join(outdir, f"certificate_{i}_der.cer")
        with open(p, "rb") as f:
            if f.read() != cert["der"]:
                ctx.violation("cli-parse-certificate-dump-mismatch", {"index": i})


def extra_coverage(events, counters):
    """Measured workload coverage (from the worker counters)."""
    def group(prefix):
        return {k[len(prefix):]: v for k, v in sorted(counters.items()) if k.startswith(prefix)}
    return {
        "command_kinds_built": group("~cmd:"),
        "load_length_residues_mod16": group("~load_len_mod16:"),
        "fill_pattern_bytes": group("~fill_pattern_bytes:"),
        "sections_per_file": group("~sections:"),
        "file_versions": group("~version:"),
        "files_whose_counter_wraps_2_32": counters.get("~nonce_counter_wraps_inside_file", 0),
        "corruptions_spsdk_tolerated_with_equal_content": group("neg_spsdk_equal_content:"),
    }
