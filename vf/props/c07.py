"""C07 - HAB image: layout round trip, CSF authenticates its blocks, encryption inverts.

Runtime monitoring.  Every case builds one HAB container with the real code
(`HabContainer.transform_bd_configuration / load_configuration -> load_from_config -> export`, or the
CLI `nxpimage hab export|parse`) from a generated configuration and hands the exported bytes to
the independent walker `vf.refs.hab_ref` (IVT -> boot data -> DCD/XMCD -> CSF, CSF commands, SRK table,
certificates, CMS blobs, MAC record) and to `vf.refs.cms` (asn1crypto *decoding* + pure-Python
RSA/ECDSA/AES-CCM).  Judged clauses:

  layout     IVT pointers / boot-data start+length == real positions and sizes; DCD, XMCD and application
             sit verbatim where the pointers say
  parse      HabContainer.parse(export) gives the same IVT, boot data, DCD, XMCD, application (prefix + zero
             padding) and CSF commands, flags / start address / IVT offset back, identical re-export
             (encrypted images: IVT / boot data / CSF only - the parser cannot locate ciphertext)
  csf-sig    CMS #1 verifies over exactly CSF header+commands under the installed CSF key
  img-sig    CMS #2 verifies over exactly the listed blocks under the installed IMG key
  chain      CSF and IMG certificates are issued by the installed SRK, the table entry is the SRK
             certificate's key, SHA-256 chain over the table == SrkTable.export_fuses()
  coverage   union of authenticated (+ CCM protected) blocks covers IVT, boot data, DCD, XMCD, application
  ccm        AES-CCM decryption of the listed blocks with DEK, nonce and MAC from the CSF restores the application
"""
from __future__ import annotations

import base64
import functools
import hashlib
import json
import os
import struct

from vf import core
from vf.refs import cms as refcms
from vf.refs import ecdsa as ref_ecdsa
from vf.refs import hab_ref
from vf.refs import modes as ref_modes
from vf.refs import rsa as ref_rsa

ID = "C07"
DECOY_CWD = True  # the worker runs in a directory that holds other content under every input file name (vf/worker.py)
LEVEL = "exploration"
TECHNIQUE = ("runtime monitoring: independent HAB4 walker + CSF replay (asn1crypto decoding, pure-Python RSA/ECDSA/AES-CCM) "
             "over images built by the real HabContainer code and CLI")
RULE = (
    "every HAB family x boot device of the database under test x flags 0 / 8 / 0xC (thorough: x 8 variants); per case drawn from the "
    "case rng: application length class (0x40..128 KiB, residues around 16 and 0x1000), start address from the family memory map, "
    "own PKI set (rsa2048, rsa4096+3072 leaves, p256, p384, p521), SRK table of 1..4 keys x source index (optionally hash-only "
    "entries for the unused keys), key source (file / signature provider / derived from certificate path), HAB version, engine, "
    "Set Engine / Unlock commands, DCD (real SDRAM DCD binaries of /repo/tests + synthesised boundary sizes) or XMCD "
    "(XMCD(...) with random register values, RT116x/117x), MAC 4..16, DEK 128/192/256 supplied or generated, nonce 11..13 supplied "
    "or generated, fast authentication (Install NOCAK); configuration as dictionary, YAML file or BD file; CLI export+parse. "
    "Signature = (device, flags, key set, form, options class, length class); non-trivial = image built and walked."
)
ASSUMPTIONS = [
    "the reference walker follows the public HAB4 format; it is self-tested on CST/OpenSSL-made artifacts SPSDK did not produce "
    "(golden images of tests/nxpimage/data/hab, SRK tables + fuse files, a CST fast-authentication CSF, OpenSSL CMS vectors)",
    "asn1crypto is trusted for ASN.1 decoding only; every hash / signature / CCM computation of the oracle is pure Python",
    "encrypted images: HabContainer.parse cannot locate ciphertext (vector-table heuristic) - judged on IVT, boot data and CSF only",
    "the application is Cortex-M shaped (stack pointer, odd reset vector inside the image), as the parser's heuristic presumes",
    "the DEK key blob is not part of the exported file: only its address (right behind the CSF) and the boot-data length are checked",
    "SPSDKError from load_from_config/export counts as a refusal; DER ordering of the CMS signed attributes is an observation only",
]
REQUIRED_COUNTERS = ["images_built", "layout_checked", "parse_roundtrip", "csf_signature_verified", "image_signature_verified",
                     "srk_hash_checked", "chain_checked", "coverage_checked", "ccm_decrypt_checked", "cli_checked"]
CASE_TIMEOUT_S = 180
WATCHDOG_S = {"quick": 900, "thorough": 5400}

FIX = os.path.join(core.VERIF_ROOT, "fixtures", "hab")
SETS = ("rsa2048", "p256", "rsa4096", "p384", "p521")
NOCAK_SETS = ("rsa2048", "p256")
DCD_OFF = 0x40  # IVT (0x20) + boot data padded to 0x20; the XMCD sits at the same offset
XMCD_OFF = 0x40
XMCD_FAMILIES_HINT = ("mimxrt116", "mimxrt117")
SRK_COMBOS = [(1, 0), (2, 0), (2, 1), (3, 0), (3, 1), (3, 2), (4, 0), (4, 1), (4, 2), (4, 3)]
APP_LENS = [0x40, 0x44, 0x5F, 0x1F0, 0x200, 0x3FF, 0xFE0, 0xFEF, 0xFF0, 0xFF1, 0xFFF, 0x1000, 0x1001, 0x2345, 0x3FF0, 0x7FFC, 0xFFF0,
            0x10000, 0x1ABCD, 0x1FFF0, 0x20000]
ENGINE_TAGS = {"ANY": 0x00, "DCP": 0x1B, "CAAM": 0x1D, "SNVS": 0x1E, "OCOTP": 0x21, "SW": 0xFF, "SRTC": 0x0C}
UNLOCKS = [
    ("SNVS", "LP SWR", 1, None), ("SNVS", "ZMK WRITE", 2, None), ("SNVS", "LP SWR, ZMK WRITE", 3, None),
    ("CAAM", "MID", 1, None), ("CAAM", "RNG", 2, None), ("CAAM", "MID, MFG", 5, None),
    ("OCOTP", "SRK REVOKE", 2, None), ("OCOTP", "JTAG, SRK REVOKE", 10, "0x01, 0x23, 0x45, 0x67, 0x89, 0xab, 0xcd, 0xef"),
    ("OCOTP", "FIELD RETURN", 1, "0x11, 0x22, 0x33, 0x44, 0x55, 0x66, 0x77, 0x88"),
]
REAL_DCDS = [
    "tests/mcu_examples/data/rt102x/dcd_SDRAM.bin", "tests/mcu_examples/data/rt105x/dcd_SDRAM.bin",
    "tests/mcu_examples/data/rt106x/dcd_SDRAM.bin",
    "tests/nxpimage/data/hab/export/rt1165_semcnand_authenticated/dcd_files/evkmimxrt1166_SDRAM_dcd.bin",
    "tests/image/images/data/dcd.bin", "tests/image/segments/data/dcd.bin",
]
GOLDEN_DIR = "tests/nxpimage/data/hab/export"
# golden -> expected verdict of the reference model (the three rejected ones are inconsistent test data: the
# CSF certificate was issued by another SRK than the installed one / the NOCAK key is not in the table)
GOLDENS = {
    "rt1050_xip_image_iar_authenticated": "ok", "rt1160_RAM_encrypted": "ok", "rt1165_flashloader_authenticated": "ok",
    "rt1165_semcnand_authenticated": "ok", "rt1165_semcnand_encrypted": "ok", "rt1170_RAM_authenticated": "ok",
    "rt1170_flashloader_authenticated": "ok", "rt1170_semcnand_authenticated": "ok", "rt1173_flashloader_authenticated_ecc": "ok",
    "rt1040_srk_revoke_command": "certificate-not-issued-by-installed-key", "rt1040_srk_revoke_uid": "certificate-not-issued-by-installed-key",
    "rt1060_flashloader_authenticated_nocak": "cms-signature-invalid",
    "rt1160_xip_mdk_unsigned": "plain", "rt1170_QSPI_flash_unsigned": "plain", "rt1170_RAM_non_xip_unsigned": "plain",
    "rt1170_RAM_unsigned": "plain", "rt1170_flashloader_unsigned": "plain",
}


def install_monitors(ctx):
    """Start-up hardening only (nothing is patched): load the database through its file-locked caches with retries.

    16 workers start at once and every one takes the cache file locks with a fixed 10 s timeout; on an overloaded
    machine `filelock.Timeout` escapes from `DatabaseManager()` and would kill the shard before its first case."""
    import filelock

    from spsdk.utils.database import DatabaseManager

    for _ in range(30):
        try:
            DatabaseManager().quick_info  # noqa: B018
            DatabaseManager().db  # noqa: B018
            return
        except filelock.Timeout:
            ctx.count("db_cache_lock_timeouts_at_start")
            DatabaseManager._instance = None  # pylint: disable=protected-access
            DatabaseManager._db = None  # pylint: disable=protected-access
    raise core.Inconclusive("database cache lock could not be acquired in 30 attempts")


# ------------------------------------------------------------------------------------------------
# fixtures
# ------------------------------------------------------------------------------------------------
@functools.lru_cache(None)
def fix_index() -> dict:
    with open(os.path.join(FIX, "index.json"), encoding="utf-8") as f:
        return json.load(f)


def pem_to_der(data: bytes) -> bytes:
    parts = data.split(b"-----")
    return base64.b64decode(b"".join(parts[2].split()))


@functools.lru_cache(None)
def cert_der(set_name: str, stem: str) -> bytes:
    with open(os.path.join(FIX, set_name, "crts", stem + "_crt.pem"), "rb") as f:
        return pem_to_der(f.read())


def index_pub(set_name: str, stem: str) -> dict:
    v = fix_index()["sets"][set_name]["certs"][stem]
    if v["type"] == "rsa":
        return {"type": "rsa", "n": int(v["n"], 16), "e": int(v["e"])}
    return {"type": "ecc", "curve": v["curve"], "x": int(v["x"], 16), "y": int(v["y"], 16)}


def repo_file(rel: str):
    p = os.path.join(core.repo_root(), rel)
    if not os.path.isfile(p):
        return None
    with open(p, "rb") as f:
        return f.read()


# ------------------------------------------------------------------------------------------------
# reference-model self test (ground truth SPSDK did not produce)
# ------------------------------------------------------------------------------------------------
def selftest(ctx):  # noqa: C901
    # runs single-threaded before the shards start: load every HAB family once so that the workers find a complete
    # database cache (16 processes rewriting it under one 10 s file lock time out on a loaded machine)
    for fam, _dev in _pairs():
        memory_starts(fam)
    out = {"rsa": ref_rsa.selftest(), "ecdsa": ref_ecdsa.selftest(), "modes": ref_modes.selftest(), "hab_ref": hab_ref.selftest(), "cms": refcms.selftest()}
    idx = fix_index()
    # 1. OpenSSL-made CMS vectors + own PKI: accept the genuine ones, reject every tampered variant
    with open(os.path.join(FIX, "cms_vectors", idx["cms_vectors"]["content"]), "rb") as f:
        content = f.read()
    nvec = nneg = 0
    for v in idx["cms_vectors"]["vectors"]:
        with open(os.path.join(FIX, "cms_vectors", v["file"]), "rb") as f:
            blob = f.read()
        cert = refcms.parse_certificate(cert_der(v["set"], v["signer"]))
        assert cert["pub"] == index_pub(v["set"], v["signer"]), f"public key read from {v['signer']} differs from index.json"
        srk_stem = f"SRK{v['signer'][3]}_ca"
        srk = refcms.parse_certificate(cert_der(v["set"], srk_stem))
        other = refcms.parse_certificate(cert_der(v["set"], "SRK2_ca" if srk_stem != "SRK2_ca" else "SRK4_ca"))
        refcms.verify_signed_data(blob, content, cert["pub"], cert, "vector")
        refcms.verify_certificate(cert, srk["pub"])
        refcms.verify_certificate(srk, srk["pub"])
        nvec += 1
        tampered = blob[:-3] + bytes([blob[-3] ^ 1]) + blob[-2:]
        for name, fn, want in [
            ("content", lambda: refcms.verify_signed_data(blob, content[:-1] + b"\x00", cert["pub"], cert), "cms-message-digest-mismatch"),
            ("content+1", lambda: refcms.verify_signed_data(blob, content + b"\x00", cert["pub"], cert), "cms-message-digest-mismatch"),
            ("signature", lambda: refcms.verify_signed_data(tampered, content, cert["pub"], cert), "cms-signature-invalid"),
            ("key", lambda: refcms.verify_signed_data(blob, content, srk["pub"], None), "cms-signature-invalid"),
            ("sid", lambda: refcms.verify_signed_data(blob, content, cert["pub"], srk), "cms-sid-does-not-name-installed-certificate"),
            ("chain", lambda: refcms.verify_certificate(cert, other["pub"]), "certificate-not-issued-by-installed-key"),
        ]:
            try:
                fn()
            except hab_ref.RefReject as e:
                assert e.code == want, f"vector {v['file']} / {name}: rejected with {e.code}, expected {want}"
                nneg += 1
            else:
                raise AssertionError(f"vector {v['file']}: tampered variant '{name}' accepted")
    out["openssl_cms_vectors"] = nvec
    out["negative_controls"] = nneg
    out["openssl"] = idx["cms_vectors"]["made_by"]
    # 2. every certificate of the own PKI: key == index.json, issued by its SRK
    ncert = 0
    for set_name, s in idx["sets"].items():
        for stem, meta in s["certs"].items():
            c = refcms.parse_certificate(cert_der(set_name, stem))
            assert c["pub"] == index_pub(set_name, stem) and c["serial"] == meta["serial"], f"{set_name}/{stem}"
            refcms.verify_certificate(c, index_pub(set_name, meta["issuer"]))
            assert c["key_cert_sign"] == meta["ca"], f"{set_name}/{stem} CA flag"
            ncert += 1
    out["own_pki_certificates"] = ncert
    # 3. CST-made SRK tables and fuse files
    pairs = [("tests/image/secret/data/SRK_1_2_3_4_table.bin", "tests/image/secret/data/SRK_1_2_3_4_fuse.bin"),
             ("tests/image/secret/data/SRK_prime256v1_table.bin", "tests/image/secret/data/SRK_prime256v1_fuse.bin"),
             ("tests/image/secret/data/SRK_1_2_H3_H4_table.bin", "tests/image/secret/data/SRK_1_2_3_4_fuse.bin"),
             ("tests/mcu_examples/data/rt10xx/srk/SRK_hash_table.bin", "tests/mcu_examples/data/rt10xx/srk/SRK_fuses.bin")]
    nt = 0
    for t, fz in pairs:
        tb, fu = repo_file(t), repo_file(fz)
        if tb is None or fu is None:
            continue
        tab = hab_ref.parse_srk_table(tb)
        assert hab_ref.srk_table_hash(tab["entries"]) == fu, f"SRK table hash of {t} differs from {fz}"
        assert b"".join(e["raw"] for e in tab["entries"]) == tb[4:], t
        nt += 1
    for i in range(1, 5):  # entries rebuilt from the CST certificates
        pem = repo_file(f"tests/image/secret/data/SRK{i}_sha256_4096_65537_v3_ca_crt.pem")
        tb = repo_file("tests/image/secret/data/SRK_1_2_3_4_table.bin")
        if pem is None or tb is None:
            continue
        c = refcms.parse_certificate(pem_to_der(pem))
        assert hab_ref.build_srk_entry(c["pub"], c["key_cert_sign"]) == hab_ref.parse_srk_table(tb)["entries"][i - 1]["raw"], f"SRK{i} entry"
        nt += 1
    out["cst_srk_tables"] = nt
    # 4. CST fast-authentication CSF: structure, SRK table, CMS digest over exactly header+commands
    fa = repo_file("tests/image/segments/data/fastauth.csf.bin")
    if fa is not None:
        csf = hab_ref.parse_csf(fa, 0)
        assert [c["name"] for c in csf["commands"]] == ["install_key", "authenticate_data", "unlock", "unlock", "authenticate_data"]
        tab = hab_ref.parse_srk_table(fa, csf["commands"][0]["location"])
        assert len(tab["entries"]) == 4 and not any(e["ca"] for e in tab["entries"])
        _, blob, _ = hab_ref.csf_record(fa, 0, csf["commands"][1]["sig_offset"], hab_ref.TAG_SIG, "signature")
        try:
            refcms.verify_signed_data(blob, csf["base"], hab_ref.srk_entry_pubkey(tab["entries"][0]), None, "csf")
        except hab_ref.RefReject as e:
            # the signing key of this sample is not in its table (repository test data); the digest over header+commands matched
            assert e.code == "cms-signature-invalid", e.code
        try:
            refcms.verify_signed_data(blob, csf["base"] + b"\x00", hab_ref.srk_entry_pubkey(tab["entries"][0]), None, "csf")
            raise AssertionError("fastauth: digest over more than header+commands accepted")
        except hab_ref.RefReject as e:
            assert e.code == "cms-message-digest-mismatch", e.code
        out["cst_fastauth_csf"] = 1
    # 5. golden images
    ng = 0
    for name, want in sorted(GOLDENS.items()):
        data = repo_file(f"{GOLDEN_DIR}/{name}/output.bin")
        if data is None:
            continue
        img = hab_ref.Image(data, 0)
        if want == "plain":
            assert img.csf is None and img.boot_data["length"] == (img.ivt["self"] - img.boot_data["start"]) + len(data), name
            ng += 1
            continue
        dek = None
        edir = os.path.join(core.repo_root(), GOLDEN_DIR, name, "gen_hab_encrypt")
        if os.path.isdir(edir):
            for fn in sorted(os.listdir(edir)):
                if "dek" in fn:
                    with open(os.path.join(edir, fn), "rb") as f:
                        dek = f.read()
        try:
            r = hab_ref.authenticate(img, refcms, dek)
            got = "ok"
        except hab_ref.RefReject as e:
            got, r = e.code, None
        assert got == want, f"golden {name}: reference model says {got}, expected {want}"
        if r is not None:
            tb = repo_file(f"{GOLDEN_DIR}/{name}/gen_hab_certs/SRK_hash.bin") or repo_file(f"{GOLDEN_DIR}/{name}/gen_hab_certs/SRK_1_2_3_4_table.bin")
            if tb is not None:
                assert r["srk_table"]["raw"] == tb, f"golden {name}: SRK table"
            assert r["csf_signed"] and r["signed"], name
            req = [(img.ivt["self"], img.ivt["self"] + 0x2C)]
            if img.dcd:
                req.append((img.ivt["dcd"], img.ivt["dcd"] + img.dcd["length"]))
            assert not hab_ref.uncovered(req, hab_ref.merge_intervals(r["signed"])), f"golden {name}: IVT/boot data/DCD not covered"
            if dek is not None:
                assert r["decrypted"] and all(len(r["plain"][a]) == n for a, n in r["decrypted"]), name
                # decrypted application is Cortex-M shaped: reset vector (odd) == IVT entry
                first = r["plain"][r["decrypted"][0][0]]
                assert struct.unpack_from("<L", first, 4)[0] == img.ivt["entry"], f"golden {name}: decrypted reset vector"
                bad = bytearray(img.data)
                o = img.off(r["decrypted"][0][0], 1, "x")
                bad[o] ^= 1
                try:
                    hab_ref.authenticate(hab_ref.Image(bytes(bad), 0), refcms, dek)
                    raise AssertionError(f"golden {name}: flipped ciphertext bit accepted")
                except hab_ref.RefReject as e:
                    assert e.code == "ccm-tag-mismatch", e.code
            else:
                bad = bytearray(img.data)
                a, n = r["signed"][-1]
                bad[img.off(a + n - 1, 1, "x")] ^= 0x80
                try:
                    hab_ref.authenticate(hab_ref.Image(bytes(bad), 0), refcms, None)
                    raise AssertionError(f"golden {name}: flipped image bit accepted")
                except hab_ref.RefReject as e:
                    assert e.code == "cms-message-digest-mismatch", e.code
        ng += 1
    out["golden_images"] = ng
    if ng < 5 or nt < 3:
        raise AssertionError(f"too little third-party ground truth found under {core.repo_root()}/tests (goldens {ng}, SRK tables {nt})")
    return out


# ------------------------------------------------------------------------------------------------
# case generation
# ------------------------------------------------------------------------------------------------
def _pairs():
    from spsdk.image.hab.hab_container import HabContainer

    out = []
    for fam in sorted(HabContainer.get_supported_families()):
        for dev in HabContainer.get_boot_devices(fam):
            out.append((fam, dev))
    return out


def cases(tier, seed):
    pairs = _pairs()
    variants = 32 if tier == "thorough" else 3
    for v in range(variants):
        for fam, dev in pairs:
            for flags in (0, 8, 0xC):
                yield {"kind": "img", "family": fam, "dev": dev, "flags": flags, "v": v}
    fams = sorted({f for f, _ in pairs})
    xf = [f for f in fams if f.startswith(XMCD_FAMILIES_HINT)]
    sd = [f for f, d in pairs if d == "serial_downloader"]
    rep = 8 if tier == "thorough" else 2
    for k in range(rep):
        # directed: XMCD on every RT116x/117x family (authenticated and encrypted), instance 0 and non-zero
        for i, fam in enumerate(xf):
            dev = ["flexspi_nor", "semc_nand", "sd", "flexspi_nand", "mmc"][(i + k) % 5]
            yield {"kind": "img", "family": fam, "dev": dev, "flags": 8, "v": k, "force": {"xmcd": ["flexspi_ram", "simplified", 0], "dcd": None}}
            yield {"kind": "img", "family": fam, "dev": dev, "flags": 0xC if i % 2 else 0, "v": k,
                   "force": {"xmcd": [["semc_sdram", "full"], ["flexspi_ram", "full"], ["semc_sdram", "simplified"]][(i + k) % 3] + [0], "dcd": None}}
        if xf:
            yield {"kind": "img", "family": xf[k % len(xf)], "dev": "flexspi_nor", "flags": 0, "v": k, "force": {"xmcd": ["flexspi_ram", "simplified", 1], "dcd": None}}
            yield {"kind": "img", "family": xf[(k + 1) % len(xf)], "dev": "sd", "flags": 8, "v": k, "force": {"xmcd": ["semc_sdram", "simplified", 1], "dcd": None}}
            yield {"kind": "img", "family": xf[(k + 2) % len(xf)], "dev": "flexspi_nor", "flags": 8, "v": k, "force": {"xmcd": ["flexspi_ram", "simplified", 0], "dcd": "syn:16"}}
        # directed: DCD - long stock DCD on serial_downloader (room 0x3C0), exact fit, 4 bytes too long; long DCD elsewhere
        for i, fam in enumerate(sd[: (8 if tier == "thorough" else 3)]):
            yield {"kind": "img", "family": fam, "dev": "serial_downloader", "flags": [0, 8, 0xC][(i + k) % 3], "v": k, "force": {"dcd": "real:%d" % ((i + k) % 5), "xmcd": None}}
        if sd:
            yield {"kind": "img", "family": sd[k % len(sd)], "dev": "serial_downloader", "flags": 8, "v": k, "force": {"dcd": "syn:960", "xmcd": None}}
            yield {"kind": "img", "family": sd[(k + 1) % len(sd)], "dev": "serial_downloader", "flags": 0, "v": k, "force": {"dcd": "syn:964", "xmcd": None}}
        for i, (fam, dev) in enumerate(pairs[k::11][:8]):
            if dev != "serial_downloader":
                yield {"kind": "img", "family": fam, "dev": dev, "flags": [8, 0xC, 0][i % 3], "v": k, "force": {"dcd": "real:%d" % (i % 6), "xmcd": None}}
        # directed: fast authentication, every SRK combination of the key sets, MAC lengths, DEK sizes
        for i, s in enumerate(NOCAK_SETS):
            fam, dev = pairs[(7 * i + 3 * k + 1) % len(pairs)]
            yield {"kind": "img", "family": fam, "dev": dev, "flags": 8, "v": k, "force": {"nocak": True, "set": s}}
        for i, (nk, si) in enumerate(SRK_COMBOS):
            fam, dev = pairs[(5 * i + k) % len(pairs)]
            yield {"kind": "img", "family": fam, "dev": dev, "flags": 8, "v": k, "force": {"set": SETS[(i + k) % 5], "nkeys": nk, "srk": si}}
        for i, ml in enumerate((4, 6, 8, 10, 12, 14, 16)):
            fam, dev = pairs[(3 * i + 2 * k + 2) % len(pairs)]
            yield {"kind": "img", "family": fam, "dev": dev, "flags": 0xC, "v": k,
                   "force": {"mac": ml, "dek_bits": (128, 192, 256)[i % 3], "dek_supplied": bool(i % 2), "nonce": [None, 11, 12, 13][(i + k) % 4]}}
        # the largest applications a 13-byte nonce can serve (CCM keeps a 2-byte length: the encrypted data stay below 64 KiB),
        # where image offset + application cross 64 KiB although the application itself does not
        for i, ln in enumerate((0xFFEF, 0xFFE0, 0xF000 + 16 * k + 1, 0xE000 + 0x100 * k)):
            fam, dev = pairs[(13 * i + 5 * k + 6) % len(pairs)]
            yield {"kind": "img", "family": fam, "dev": dev, "flags": 0xC, "v": k,
                   "force": {"app_len": ln, "nonce": 13, "mac": (16, 8, 12, 4)[i], "dek_supplied": bool((i + k) % 2)}}
        # CLI
        for i, form in enumerate(("yaml", "bd", "yaml")):
            fam, dev = pairs[(11 * i + k + 4) % len(pairs)]
            yield {"kind": "cli", "family": fam, "dev": dev, "flags": [8, 0xC, 0][i], "v": k, "form": form, "force": {"set": ["rsa2048", "p256", "rsa2048"][i]}}


# ------------------------------------------------------------------------------------------------
# input builders (harness side; may use spsdk to *build inputs*)
# ------------------------------------------------------------------------------------------------
def synth_dcd(total: int, rng) -> bytes:
    """DCD of exactly ``total`` bytes: header + one Write Data command (+ a NOP when total % 8 == 4)."""
    assert total >= 16 and total % 4 == 0
    nop = total % 8 == 4
    k = (total - 8 - (4 if nop else 0)) // 8
    body = b"".join(struct.pack(">LL", 0x400FC000 + 4 * i, rng.getrandbits(32)) for i in range(k))
    cmd = struct.pack(">BHB", 0xCC, 4 + len(body), 0x04) + body
    if nop:
        cmd += struct.pack(">BHB", 0xC0, 4, 0)
    out = struct.pack(">BHB", 0xD2, 4 + len(cmd), 0x41) + cmd
    assert len(out) == total
    return out


def pick_dcd(spec: str, rng):
    kind, arg = spec.split(":")
    if kind == "syn":
        return synth_dcd(int(arg), rng), spec
    avail = [(p, repo_file(p)) for p in REAL_DCDS]
    avail = [(p, d) for p, d in avail if d is not None]
    if not avail:
        return synth_dcd(0x508, rng), "syn:1288"
    p, d = avail[int(arg) % len(avail)]
    return d, "real:" + os.path.basename(os.path.dirname(p)) + "/" + str(len(d))


def make_xmcd(family: str, mem: str, ctype: str, instance: int, rng) -> bytes:
    from spsdk.image.mem_type import MemoryType
    from spsdk.image.xmcd.xmcd import XMCD, ConfigurationBlockType

    x = XMCD(family, MemoryType.from_label(mem), ConfigurationBlockType.from_label(ctype))
    for reg in x.config_block.registers.get_registers():
        if reg.name in ("magicNumber", "version"):
            continue
        bfs = reg.get_bitfields()
        if bfs:
            for bf in bfs:
                if "tag" in bf.name.lower() or "reserved" in bf.name.lower() or "optionsize" in bf.name.lower():
                    continue
                bf.set_value(rng.getrandbits(bf.width))
        else:
            reg.set_value(rng.getrandbits(reg.width))
    raw = bytearray(x.export())
    # the instance nibble is bits 19..16 of the little-endian header word
    raw[2] = (raw[2] & 0xF0) | (instance & 0xF)
    return bytes(raw)


def memory_starts(family: str) -> list:
    from spsdk.utils.database import get_db

    try:
        mm = get_db(family).device.info.memory_map
    except Exception:  # pylint: disable=broad-except
        return []
    out = []
    blocks = mm._mem_map.values() if hasattr(mm, "_mem_map") else (mm.values() if isinstance(mm, dict) else [])  # pylint: disable=protected-access
    for b in blocks:
        base = getattr(b, "base_address", None)
        size = getattr(b, "size", None)
        if isinstance(b, dict):
            base, size = b.get("start_int", b.get("base_address")), b.get("size_int", b.get("size"))
        if isinstance(base, int) and isinstance(size, int):
            out.append((base, size))
    return sorted(set(out))


def make_app(rng, n: int, app_addr: int) -> bytes:
    body = bytearray(core.rand_bytes(rng, n))
    sp = 0x20000000 + (rng.randrange(0x400, 0x40000) & ~7)
    reset = (app_addr + rng.randrange(8, n)) | 1
    if reset >= app_addr + n:
        reset -= 2
    struct.pack_into("<LL", body, 0, sp, reset)
    if n >= 0x40 and rng.random() < 0.7:  # a few more vector-table like words
        for i in range(2, min(16, n // 4)):
            struct.pack_into("<L", body, 4 * i, (app_addr + rng.randrange(8, n)) | 1)
    if n >= 0x80 and rng.random() < 0.15:
        # an application that itself ends in zero bytes (a zero-initialised table at its end): they are part of it
        k = min(core.pick(rng, [1, 3, 15, 16, 17, 0x48, 0x100]), n - 0x40)
        body[n - k:] = bytes(k)
    return bytes(body)


def to_bd(cfg: dict) -> str:
    ids = {"Header": 20, "InstallSRK": 21, "InstallCSFK": 22, "InstallNOCAK": 23, "AuthenticateCSF": 24, "InstallKey": 25,
           "AuthenticateData": 26, "SecretKey": 27, "Decrypt": 28, "SetEngine": 31, "Unlock": 33}

    def val(v):
        if isinstance(v, bool):
            return "true" if v else "false"
        if isinstance(v, int):
            return hex(v)
        return '"%s"' % v

    lines = ["options {"]
    for k, v in cfg["options"].items():
        lines.append(f"    {k} = {val(v)};")
    lines += ["}", "", "sources {", "    elfFile = extern(0);", "}", ""]
    for sec in cfg["sections"]:
        for name, opts in sec.items():
            args = ";\n    " + ",\n    ".join(f"{k}={val(v)}" for k, v in opts.items()) if opts else ""
            lines += [f"section ({ids[name]}{args})", "{", "}", ""]
    return "\n".join(lines)


# ------------------------------------------------------------------------------------------------
# one image
# ------------------------------------------------------------------------------------------------
class Plan:
    """Everything drawn for one image (kept for the witness)."""


def draw_plan(case: dict, ctx) -> Plan:  # noqa: C901
    from spsdk.utils.database import DatabaseManager, get_db

    rng = ctx.rng
    force = case.get("force") or {}
    p = Plan()
    p.family, p.dev, p.flags = case["family"], case["dev"], case["flags"]
    db = get_db(p.family)
    p.ivt_off = db.get_int(DatabaseManager.BOOTABLE_IMAGE, ["mem_types", p.dev, "segments", "hab_container"])
    p.ils = db.get_int(DatabaseManager.HAB, ["mem_types", p.dev, "initial_load_size"])
    p.app_off = p.ils - p.ivt_off  # offset of the application from the IVT
    p.app_len = force.get("app_len") or core.pick(rng, APP_LENS + [rng.randrange(0x40, 0x20001)])
    starts = memory_starts(p.family)
    need = p.ils + p.app_len + 0x4000
    fitting = [(b, s) for b, s in starts if s >= need]
    if fitting and rng.random() < 0.85:
        base, size = core.pick(rng, fitting)
        room = (size - need) // 0x1000
        p.start = base + 0x1000 * (rng.randrange(0, min(room, 0x400) + 1) if rng.random() < 0.5 else 0)
    else:
        p.start = core.pick(rng, [0x0, 0x1000, 0x20200000, 0x60000000, 0x80000000, 0xFFF00000 & ~0xFFF])
        if p.start + need >= 1 << 32:
            p.start = 0x80000000
    if p.start + p.ivt_off == 0:
        p.start = 0x1000  # an IVT at address 0 is refused ("Not valid IVT/BDT address": the self pointer would be NULL)
    p.explicit_offsets = rng.random() < 0.2  # ivtOffset / initialLoadSize instead of family / bootDevice
    p.entry_given = rng.random() < 0.3
    p.timestamp = None if rng.random() < 0.15 else "%02d/%02d/20%02d %02d:%02d:%02d" % (
        rng.randrange(1, 29), rng.randrange(1, 13), rng.randrange(20, 40), rng.randrange(24), rng.randrange(60), rng.randrange(60))
    # DCD / XMCD
    p.dcd_spec = force["dcd"] if "dcd" in force else None
    p.xmcd_spec = force["xmcd"] if "xmcd" in force else None
    if "dcd" not in force and "xmcd" not in force:
        r = rng.random()
        if r < 0.22:
            p.dcd_spec = core.pick(rng, ["real:0", "real:1", "real:2", "real:3", "real:4", "real:5", "syn:16", "syn:20", "syn:960", "syn:1288", "syn:1768"])
        elif r < 0.40 and p.family.startswith(XMCD_FAMILIES_HINT):
            p.xmcd_spec = [*core.pick(rng, [("flexspi_ram", "simplified"), ("flexspi_ram", "full"), ("semc_sdram", "simplified"), ("semc_sdram", "full")]),
                           core.pick(rng, [0, 0, 0, 1, 2])]
    # authentication
    # the 4096/3072-bit set costs 0.5-1.8 s per image (key loading + signing): drawn less often in the quick tier
    p.set = force.get("set") or core.pick(rng, SETS if ctx.tier == "thorough" else ("rsa2048", "p256", "p384", "p521") * 2 + ("rsa4096",))
    p.nocak = bool(force.get("nocak"))
    p.nkeys, p.srk = (force["nkeys"], force["srk"]) if "nkeys" in force else core.pick(rng, SRK_COMBOS)
    p.hash_others = rng.random() < 0.25 and not p.nocak
    p.version = core.pick(rng, ["4.0", "4.1", "4.2", "4.2", "4.3", "4.5"])
    p.engine = core.pick(rng, ["ANY", "ANY", "DCP", "CAAM", "SW"])
    p.key_src = core.pick(rng, ["file", "file", "provider", "derived"])
    p.img_slot = core.pick(rng, [2, 2, 4])
    p.set_engine = rng.random() < 0.35
    p.unlock = core.pick(rng, UNLOCKS) if rng.random() < 0.45 else None
    p.extras_early = rng.random() < 0.5  # Set Engine / Unlock right behind Authenticate CSF instead of at the end
    # encryption
    p.mac = force.get("mac") or core.pick(rng, [4, 6, 8, 10, 12, 14, 16, 16])
    p.dek_bits = force.get("dek_bits") or core.pick(rng, [128, 192, 256])
    p.dek_supplied = force["dek_supplied"] if "dek_supplied" in force else rng.random() < 0.5
    p.nonce_len = force["nonce"] if "nonce" in force else core.pick(rng, [None, None, 11, 12, 13])
    if p.nonce_len == 13 and p.app_len + 16 >= 0x10000:
        p.nonce_len = 12  # CCM: 13-byte nonce leaves a 2-byte length field
    p.secret_slot = core.pick(rng, [0, 0, 1, 2])
    p.kek_index = core.pick(rng, [0, 0, 2, 3])
    p.form = case.get("form") or core.pick(rng, ["dict", "dict", "dict", "yaml", "bd"])
    p.xmcd_altered = False
    p.parsed_csf = None
    return p


def build_inputs(p: Plan, ctx, wd: str) -> dict:  # noqa: C901
    """Writes the input files, returns the configuration dictionary (YAML shape)."""
    from spsdk.crypto.certificate import Certificate
    from spsdk.image.secret import SrkItem, SrkTable

    rng = ctx.rng
    app_addr = p.start + p.ils
    p.app = make_app(rng, p.app_len, app_addr)
    with open(os.path.join(wd, "app.bin"), "wb") as f:
        f.write(p.app)
    p.reset = struct.unpack_from("<L", p.app, 4)[0]
    opts: dict = {"flags": p.flags, "startAddress": p.start}
    if p.explicit_offsets:
        opts.update(ivtOffset=p.ivt_off, initialLoadSize=p.ils)
    else:
        opts.update(family=p.family, bootDevice=p.dev)
    p.entry = p.reset
    if p.entry_given:
        opts["entryPointAddress"] = p.entry
    if p.timestamp and p.flags:
        opts["signatureTimestamp"] = p.timestamp
    p.dcd = p.dcd_name = None
    if p.dcd_spec:
        p.dcd, p.dcd_name = pick_dcd(p.dcd_spec, rng)
        with open(os.path.join(wd, "dcd.bin"), "wb") as f:
            f.write(p.dcd)
        opts["DCDFilePath"] = "dcd.bin"
    p.xmcd = None
    if p.xmcd_spec:
        p.xmcd = make_xmcd(p.family, p.xmcd_spec[0], p.xmcd_spec[1], p.xmcd_spec[2], rng)
        with open(os.path.join(wd, "xmcd.bin"), "wb") as f:
            f.write(p.xmcd)
        opts["XMCDFilePath"] = "xmcd.bin"
    secs: list = []
    p.fuses = None
    if p.flags:
        kind = "usr" if p.nocak else "ca"
        sd = os.path.join(FIX, p.set)
        table = SrkTable(version=0x40)
        for i in range(1, p.nkeys + 1):
            item = SrkItem.from_certificate(Certificate.load(os.path.join(sd, "crts", f"SRK{i}_{kind}_crt.pem")))
            if p.hash_others and i - 1 != p.srk:
                item = item.hashed_entry()
            table.append(item)
        p.table_bytes = table.export()
        p.fuses = table.export_fuses()  # the value SPSDK reports for the fuses
        with open(os.path.join(wd, "srk_table.bin"), "wb") as f:
            f.write(p.table_bytes)
        k = p.srk + 1
        absolute = p.form_abs

        # a third of the authenticated builds take their certificates and keys from ROTATING slots: fixed file names (one per
        # role) in a folder of this worker process that hold another certificate each time - a project whose certificates
        # were re-issued under the same names, built again by the same process
        slotdir = os.path.join(ctx.workdir, "rotating_hab_pki")
        p.slot = rng.random() < 0.34

        def path(rel):
            if not p.slot:
                return os.path.join(sd, rel) if absolute else rel
            import shutil

            d, name = rel.split("/")
            role = "CSF" if name.startswith(p.csf_stem) else "IMG"
            for sub, kindname in (("crts", "crt"), ("keys", "key")):
                os.makedirs(os.path.join(slotdir, sub), exist_ok=True)
                shutil.copyfile(os.path.join(sd, sub, f"{name.rsplit('_', 1)[0]}_{kindname}.pem"), os.path.join(slotdir, sub, f"{role}_slot_{kindname}.pem"))
            ctx.count("rotating_pki_slot_paths")
            return os.path.join(slotdir, d, f"{role}_slot_{'crt' if d == 'crts' else 'key'}.pem")

        def key_opts(prefix, stem):
            if p.key_src == "file":
                return {f"{prefix}_PrivateKeyFile": path(f"keys/{stem}_key.pem")}
            if p.key_src == "provider":
                return {f"{prefix}_SignProvider": "type=file;file_path=" + path(f"keys/{stem}_key.pem")}
            return {}  # derived from the certificate path: crts/X_crt.pem -> keys/X_key.pem

        secs.append({"Header": {"Header_Version": p.version, "Header_HashAlgorithm": "sha256", "Header_Engine": p.engine,
                                "Header_EngineConfiguration": 0, "Header_CertificateFormat": "x509", "Header_SignatureFormat": "CMS"}})
        secs.append({"InstallSRK": {"InstallSRK_Table": "srk_table.bin", "InstallSRK_SourceIndex": p.srk}})
        extras = []
        if p.set_engine:
            # engine configuration byte: non-zero values must survive build -> parse -> re-export like every other field
            ecfg = 0 if str(p.engine).upper() == "ANY" else core.pick(rng, [0, 1, 0x08, 0x31, 0xFF, rng.randrange(256)])
            extras.append({"SetEngine": {"SetEngine_HashAlgorithm": "sha256", "SetEngine_Engine": p.engine, "SetEngine_EngineConfiguration": ecfg}})
        if p.unlock:
            u = {"Unlock_Engine": p.unlock[0], "Unlock_Features": p.unlock[1]}
            if p.unlock[3]:
                u["Unlock_UID"] = p.unlock[3]
            extras.append({"Unlock": u})
        if p.nocak:
            p.csf_stem = p.img_stem = f"SRK{k}_usr"
            secs.append({"InstallNOCAK": {"InstallNOCAK_File": path(f"crts/{p.csf_stem}_crt.pem")}})
            secs.append({"AuthenticateCSF": key_opts("AuthenticateCsf", p.csf_stem)})
            if p.extras_early:
                secs += extras
            secs.append({"AuthenticateData": dict({"AuthenticateData_VerificationIndex": 0, "AuthenticateData_Engine": p.engine,
                                                   "AuthenticateData_EngineConfiguration": 0}, **key_opts("AuthenticateData", p.img_stem))})
        else:
            p.csf_stem, p.img_stem = f"CSF{k}_1_usr", f"IMG{k}_1_usr"
            secs.append({"InstallCSFK": {"InstallCSFK_File": path(f"crts/{p.csf_stem}_crt.pem"), "InstallCSFK_CertificateFormat": "x509"}})
            secs.append({"AuthenticateCSF": key_opts("AuthenticateCsf", p.csf_stem)})
            if p.extras_early:
                secs += extras
            secs.append({"InstallKey": {"InstallKey_File": path(f"crts/{p.img_stem}_crt.pem"), "InstallKey_VerificationIndex": 0,
                                        "InstallKey_TargetIndex": p.img_slot}})
            secs.append({"AuthenticateData": dict({"AuthenticateData_VerificationIndex": p.img_slot, "AuthenticateData_Engine": p.engine,
                                                   "AuthenticateData_EngineConfiguration": 0}, **key_opts("AuthenticateData", p.img_stem))})
        if p.flags == 0xC:
            p.dek = p.nonce = None
            sk = {"SecretKey_Name": "dek.bin", "SecretKey_Length": p.dek_bits, "SecretKey_VerifyIndex": p.kek_index,
                  "SecretKey_TargetIndex": p.secret_slot, "SecretKey_ReuseDek": bool(p.dek_supplied)}
            if p.dek_supplied:
                p.dek = core.rand_bytes(rng, p.dek_bits // 8)
                with open(os.path.join(wd, "dek.bin"), "wb") as f:
                    f.write(p.dek)
            dc = {"Decrypt_VerifyIndex": p.secret_slot, "Decrypt_Engine": "ANY", "Decrypt_EngineConfiguration": 0, "Decrypt_MacBytes": p.mac}
            if p.nonce_len:
                p.nonce = core.rand_bytes(rng, p.nonce_len)
                with open(os.path.join(wd, "nonce.bin"), "wb") as f:
                    f.write(p.nonce)
                dc["Decrypt_Nonce"] = "nonce.bin"
            secs += [{"SecretKey": sk}, {"Decrypt": dc}]
        if not p.extras_early:
            secs += extras
    return {"options": opts, "inputImageFile": "app.bin", "sections": secs}


def describe(p: Plan) -> dict:
    d = {k: v for k, v in vars(p).items() if isinstance(v, (int, str, bool, type(None), list, tuple)) and k not in ("app",)}
    d["start"] = hex(p.start)
    return d


def sig_of(case: dict, p: Plan) -> list:
    ln = p.app_len
    lcls = "tiny" if ln < 0x200 else ("<4K" if ln < 0x1000 else ("<64K" if ln < 0x10000 else ">=64K"))
    res = "r16=%d" % ((p.ils + ln) % 16 == 0) + ",r4K=%d" % ((p.ils + ln) % 0x1000 in (0, 0xFF0))
    extra = "dcd" if p.dcd_spec else ("xmcd:" + "/".join(map(str, p.xmcd_spec)) if p.xmcd_spec else "-")
    auth = "-"
    if p.flags:
        auth = f"{p.set}/{'nocak' if p.nocak else 'std'}/{p.nkeys}k{p.srk}{'h' if p.hash_others else ''}/{p.key_src}"
    enc = f"mac{p.mac}/dek{p.dek_bits}{'s' if p.dek_supplied else 'g'}/n{p.nonce_len}" if p.flags == 0xC else "-"
    return [case["kind"], p.dev, p.flags, p.form, extra, auth, enc, lcls, res]


def _echo(ctx, p: Plan, name: str, **detail):
    """Configuration value not echoed in the CSF: NOT a clause of C07 (the statement speaks about what the CSF contains,
    whatever it is) - recorded as an observation only."""
    ctx.count("config_echo_mismatches")
    ctx.note("config_not_echoed:" + name, dict(detail, family=p.family, dev=p.dev, flags=p.flags))


def _viol(ctx, p: Plan, mech: str, **detail):
    d = {"plan": describe(p)}
    d.update(detail)
    ctx.violation(mech, d)


def run_case(case, ctx):  # noqa: C901
    from spsdk.exceptions import SPSDKError
    from spsdk.image.hab.hab_container import HabContainer

    wd = os.path.join(ctx.workdir, f"c{ctx.case_index}")
    os.makedirs(wd, exist_ok=True)
    p = draw_plan(case, ctx)
    p.form_abs = case["kind"] == "cli" or ctx.rng.random() < 0.3  # absolute certificate / key paths in the configuration
    cfg = build_inputs(p, ctx, wd)
    sd = os.path.join(FIX, p.set)
    search = [wd, sd]
    sig = sig_of(case, p)

    # ---- build with the real code ---------------------------------------------------------------------
    hab = None
    data = None
    try:
        if case["kind"] == "cli":
            data = build_cli(case, ctx, p, cfg, wd)
        else:
            if p.form == "dict":
                bdcfg = HabContainer.transform_bd_configuration(json.loads(json.dumps(cfg)))
            else:
                import yaml

                if p.form == "yaml":
                    cpath = os.path.join(wd, "config.yaml")
                    with open(cpath, "w", encoding="utf-8") as f:
                        yaml.safe_dump(cfg, f, sort_keys=False)
                    bdcfg = HabContainer.load_configuration(cpath, search_paths=search)
                else:
                    cpath = os.path.join(wd, "config.bd")
                    with open(cpath, "w", encoding="utf-8") as f:
                        f.write(to_bd(cfg))
                    bdcfg = HabContainer.load_configuration(cpath, external_files=[os.path.join(wd, "app.bin")], search_paths=search)
            hab = HabContainer.load_from_config(bdcfg, search_paths=search)
            data = hab.export()
            data2 = hab.export()
            if data2 != data:
                _echo(ctx, p, "export-not-repeatable", first=len(data), second=len(data2))
            if len(data2) != len(data):
                _viol(ctx, p, "second-export-of-the-same-object-has-another-length", first=len(data), second=len(data2))
                return
            if ctx.rng.random() < 0.3:
                # the file of the SECOND call is the one judged below: nothing may have been consumed or applied twice
                ctx.count("second_exports_judged")
                data = data2
    except SPSDKError as e:
        ctx.refused(sig, f"{type(e).__name__}: {str(e)[:100]}")
        ctx.count("refused_" + type(e).__name__)
        expect_overlap = overlap_expected(p)
        if not expect_overlap:
            ctx.note("unexpected_refusal", {"why": f"{type(e).__name__}: {str(e)[:160]}", "plan": describe(p)})
            ctx.count("unexpected_refusals")
        else:
            ctx.count("overlap_refused")
        return
    ctx.count("images_built")
    ctx.count(f"~built:{p.family}/{p.dev}")
    ctx.count(f"~flags:{p.flags:#x}")
    ctx.count(f"~set:{p.set if p.flags else '-'}")
    if p.flags == 0xC and not p.dek_supplied:
        dpath = os.path.join(wd, "dek.bin")
        if not os.path.isfile(dpath):
            _viol(ctx, p, "generated-dek-not-written", path="dek.bin")
            return
        with open(dpath, "rb") as f:
            p.dek = f.read()
        if len(p.dek) != p.dek_bits // 8:
            _viol(ctx, p, "generated-dek-wrong-length", got=len(p.dek), want=p.dek_bits // 8)
    judge_image(case, ctx, p, data, hab, sig)


def overlap_expected(p: Plan) -> str:
    """Names the input segments that cannot coexist in the layout (a refusal is the right answer)."""
    if p.dcd is not None and DCD_OFF + len(p.dcd) > p.app_off:
        return "dcd+app"
    if p.dcd is not None and p.xmcd is not None:
        return "dcd+xmcd"
    if p.xmcd is not None and XMCD_OFF + len(p.xmcd) > p.app_off:
        return "xmcd+app"
    return ""


def build_cli(case, ctx, p: Plan, cfg: dict, wd: str) -> bytes:
    """`nxpimage hab export` through click's CliRunner; returns the exported file."""
    import yaml
    from click.testing import CliRunner

    from spsdk.apps import nxpimage
    from spsdk.exceptions import SPSDKError

    out = os.path.join(wd, "cli_out.bin")
    if case["form"] == "bd":
        cpath = os.path.join(wd, "config.bd")
        with open(cpath, "w", encoding="utf-8") as f:
            f.write(to_bd(cfg))
        args = ["hab", "export", "-c", cpath, "-o", out, os.path.join(wd, "app.bin")]
    else:
        cpath = os.path.join(wd, "config.yaml")
        with open(cpath, "w", encoding="utf-8") as f:
            yaml.safe_dump(cfg, f, sort_keys=False)
        args = ["hab", "export", "-c", cpath, "-o", out]
    res = CliRunner().invoke(nxpimage.main, args, catch_exceptions=True)
    if res.exit_code != 0 or not os.path.isfile(out):
        if isinstance(res.exception, SPSDKError):
            raise res.exception
        if res.exception is not None and not isinstance(res.exception, SystemExit):
            raise res.exception
        raise SPSDKError(f"nxpimage hab export exit code {res.exit_code}: {res.output[-200:]}")
    with open(out, "rb") as f:
        data = f.read()
    p.cli_out = out
    return data


def judge_image(case, ctx, p: Plan, data: bytes, hab, sig):  # noqa: C901
    from spsdk.exceptions import SPSDKError
    from spsdk.image.hab.hab_container import HabContainer
    from spsdk.image.hab.segments import BdtHabSegment, CsfHabSegment, IvtHabSegment

    nviol0 = ctx._viol_in_case  # pylint: disable=protected-access
    data = bytes(data)
    ivt_addr = p.start + p.ivt_off
    app_addr = p.start + p.ils
    auth = bool(p.flags & 0x8)
    enc = p.flags == 0xC
    app_padded = p.app + bytes(-len(p.app) % 16) if auth else p.app
    overlap = overlap_expected(p)

    # ---- walk ---------------------------------------------------------------------------------------
    try:
        img = hab_ref.Image(data, 0)
    except hab_ref.RefReject as e:
        if overlap == "dcd+app" and e.code.startswith("dcd-"):
            _viol(ctx, p, "dcd-overwritten-by-application", walker=str(e)[:300], dcd=p.dcd_name, dcd_len=len(p.dcd), room=p.app_off - DCD_OFF)
        elif overlap:
            _viol(ctx, p, "overlapping-segments-not-refused:" + overlap, walker=str(e)[:300])
        else:
            _viol(ctx, p, "walker:" + e.code, detail=e.detail)
        return

    # ---- layout -------------------------------------------------------------------------------------
    ivt, bdt = img.ivt, img.boot_data
    if overlap:
        # the layout cannot hold both inputs: the only right answers are a refusal or (never) both intact
        intact = True
        if p.dcd is not None:
            intact &= data[DCD_OFF:DCD_OFF + len(p.dcd)] == p.dcd
        if p.xmcd is not None:
            intact &= data[0x40:0x40 + len(p.xmcd)] == p.xmcd
        intact &= data[p.app_off:p.app_off + len(p.app)] == p.app or enc
        if overlap == "dcd+app":
            _viol(ctx, p, "dcd-overwritten-by-application", dcd=p.dcd_name, dcd_len=len(p.dcd), room=p.app_off - DCD_OFF, all_inputs_intact=intact,
                  ivt_dcd=hex(ivt["dcd"]), dcd_header_len=img.dcd["length"] if img.dcd else None)
        else:
            _viol(ctx, p, "overlapping-segments-not-refused:" + overlap, all_inputs_intact=intact)
        return
    if ivt["self"] != ivt_addr:
        _viol(ctx, p, "ivt-self-pointer", got=hex(ivt["self"]), want=hex(ivt_addr))
    if ivt["entry"] != p.entry:
        _viol(ctx, p, "ivt-entry", got=hex(ivt["entry"]), want=hex(p.entry))
    if bdt["start"] != p.start:
        _viol(ctx, p, "boot-data-start", got=hex(bdt["start"]), want=hex(p.start))
    real_len = p.ivt_off + len(data) + (0x200 if enc else 0)
    if bdt["length"] != real_len:
        _viol(ctx, p, "boot-data-length", got=hex(bdt["length"]), want=hex(real_len), exported=hex(len(data)), ivt_offset=hex(p.ivt_off))
    if bdt["plugin"] != 0:
        _viol(ctx, p, "boot-data-plugin", got=bdt["plugin"])
    if (ivt["dcd"] != 0) != (p.dcd is not None) or (p.dcd is not None and ivt["dcd"] != ivt_addr + DCD_OFF):
        _viol(ctx, p, "ivt-dcd-pointer", got=hex(ivt["dcd"]), dcd_given=p.dcd is not None)
    if (ivt["csf"] != 0) != auth:
        _viol(ctx, p, "ivt-csf-pointer-vs-flags", got=hex(ivt["csf"]))
    if p.dcd is not None:
        got = data[DCD_OFF:DCD_OFF + len(p.dcd)]
        if got != p.dcd:
            _viol(ctx, p, "dcd-not-verbatim", dcd=p.dcd_name, first_diff=next(i for i in range(len(p.dcd)) if got[i:i + 1] != p.dcd[i:i + 1]))
        elif img.dcd is None or img.dcd["length"] != len(p.dcd):
            _viol(ctx, p, "dcd-length", got=img.dcd and img.dcd["length"], want=len(p.dcd))
    if p.xmcd is not None:
        got = data[0x40:0x40 + len(p.xmcd)]
        if got != p.xmcd:
            hdr_in, hdr_out = hab_ref.parse_xmcd_header(p.xmcd[:4]), hab_ref.parse_xmcd_header(got[:4])
            if got[4:] == p.xmcd[4:] and hdr_in and hdr_out and {k: hdr_in[k] for k in ("block_type", "block_size")} == {k: hdr_out[k] for k in ("block_type", "block_size")}:
                p.xmcd_altered = True
                _viol(ctx, p, "xmcd-header-interface-instance-altered", given=p.xmcd[:4].hex(), in_image=got[:4].hex(), given_fields=hdr_in, image_fields=hdr_out)
            else:
                _viol(ctx, p, "xmcd-not-verbatim", given=p.xmcd[:16].hex(), in_image=got[:16].hex())
    elif img.xmcd is not None:
        _viol(ctx, p, "xmcd-present-but-not-configured", raw=img.xmcd["raw"][:16].hex())
    stored_app = data[p.app_off:p.app_off + len(app_padded)]
    if not enc and stored_app != app_padded:
        _viol(ctx, p, "application-not-verbatim", app_off=hex(p.app_off), first_diff=next((i for i in range(len(app_padded)) if stored_app[i:i + 1] != app_padded[i:i + 1]), None))
    if enc and len(p.app) >= 64 and stored_app == app_padded:
        _viol(ctx, p, "application-stored-in-plain-text")
    if auth and img.csf is not None:
        csf_off = img.csf["offset"]
        if csf_off < p.app_off + len(app_padded):
            _viol(ctx, p, "csf-overlaps-application", csf_off=hex(csf_off), app_end=hex(p.app_off + len(app_padded)))
    ctx.count("layout_checked")

    # ---- parse round trip ---------------------------------------------------------------------------------
    judge_parse(ctx, p, data, hab, img, enc, app_padded, HabContainer, IvtHabSegment, BdtHabSegment, CsfHabSegment, SPSDKError)

    # ---- authentication ------------------------------------------------------------------------------------
    if auth:
        judge_auth(ctx, p, img, enc, app_addr, app_padded)

    if case["kind"] == "cli":
        judge_cli_parse(ctx, p, data, img)

    if ctx._viol_in_case == nviol0:  # pylint: disable=protected-access
        ctx.ok(sig, sample={"plan": describe(p), "exported": len(data), "csf_commands": img.csf and [c["name"] for c in img.csf["commands"]]})


def judge_parse(ctx, p, data, hab, img, enc, app_padded, HabContainer, IvtHabSegment, BdtHabSegment, CsfHabSegment, SPSDKError):  # noqa: C901
    from spsdk.exceptions import SPSDKParsingError

    parsed = None
    try:
        parsed = HabContainer.parse(data)
    except SPSDKParsingError as e:
        if not (enc and "Application offset could not be found" in str(e)):
            _viol(ctx, p, "parse-refuses-own-export", error=core.exc_brief(e))
            return
        ctx.count("parse_encrypted_app_not_located")
    except SPSDKError as e:
        if getattr(p, "xmcd_altered", False) and "Interface not supported" in str(e):
            ctx.count("parse_refused_altered_xmcd_header")  # consequence of xmcd-header-interface-instance-altered, already reported
            return
        _viol(ctx, p, "parse-refuses-own-export", error=core.exc_brief(e))
        return
    if parsed is not None:
        if enc:
            ctx.count("parse_encrypted_app_located_by_chance")
            ctx.note("parse_encrypted_app_located_by_chance", {"app_off_parsed": hex(parsed.app_segment.offset), "app_off": hex(p.app_off), "app_len": p.app_len, "dev": p.dev})
        segs = {"ivt": parsed.ivt_segment, "bdt": parsed.bdt_segment, "csf": parsed.csf_segment, "dcd": parsed.dcd_segment,
                "xmcd": parsed.xmcd_segment, "app": parsed.app_segment}
        if parsed.flags != p.flags or parsed.start_address != p.start or parsed.ivt_offset != p.ivt_off:
            _viol(ctx, p, "parse-flags-or-addresses", flags=parsed.flags, start=hex(parsed.start_address), ivt_offset=hex(parsed.ivt_offset))
    else:
        segs = {"ivt": IvtHabSegment.parse(data), "bdt": BdtHabSegment.parse(data), "csf": CsfHabSegment.parse(data), "dcd": None, "xmcd": None, "app": None}
    s = segs["ivt"].segment
    got = {"entry": s.app_address, "dcd": s.dcd_address, "boot_data": s.bdt_address, "self": s.ivt_address, "csf": s.csf_address, "version": s.version}
    want = {k: img.ivt[k] for k in got}
    if got != want or segs["ivt"].export() != data[:32]:
        _viol(ctx, p, "parse-ivt-differs", parsed=got, in_image=want)
    b = segs["bdt"].segment
    if (b.app_start, b.app_length, b.plugin) != (img.boot_data["start"], img.boot_data["length"], img.boot_data["plugin"]) or segs["bdt"].offset != 0x20:
        _viol(ctx, p, "parse-boot-data-differs", parsed=[b.app_start, b.app_length, b.plugin])
    if (segs["csf"] is not None) != (img.csf is not None):
        _viol(ctx, p, "parse-csf-presence", parsed=segs["csf"] is not None)
    elif img.csf is not None:
        c = segs["csf"]
        raw = data[img.csf["offset"]:img.csf["offset"] + 0x2000]
        if c.offset != img.csf["offset"] or c.export() != raw:
            _viol(ctx, p, "parse-csf-reexport-differs", offset=hex(c.offset))
        names = [type(x).__name__ for x in c.segment.commands]
        tags = [x.tag for x in c.segment.commands]
        if tags != [x["tag"] for x in img.csf["commands"]]:
            _viol(ctx, p, "parse-csf-commands-differ", parsed=names, in_image=[x["name"] for x in img.csf["commands"]])
        elif hab is not None and hab.csf_segment is not None:
            built = [x.export() for x in hab.csf_segment.segment.commands]
            back = [x.export() for x in c.segment.commands]
            if built != back:
                _viol(ctx, p, "parse-csf-commands-differ", first=next(i for i in range(len(built)) if built[i] != back[i]), parsed=names)
        p.parsed_csf = c
    if parsed is not None:
        if (segs["dcd"] is not None) != (p.dcd is not None):
            _viol(ctx, p, "parse-dcd-presence", parsed=segs["dcd"] is not None)
        elif p.dcd is not None and (segs["dcd"].export() != p.dcd or segs["dcd"].offset != DCD_OFF):
            _viol(ctx, p, "parse-dcd-differs", offset=hex(segs["dcd"].offset))
        if (segs["xmcd"] is not None) != (p.xmcd is not None):
            _viol(ctx, p, "parse-xmcd-presence", parsed=segs["xmcd"] is not None, dcd=p.dcd_name)
        elif p.xmcd is not None and segs["xmcd"].export() != data[0x40:0x40 + len(p.xmcd)]:
            _viol(ctx, p, "parse-xmcd-differs", parsed=segs["xmcd"].export()[:16].hex(), in_image=data[0x40:0x50].hex())
        a = segs["app"]
        located_cipher = enc
        if not located_cipher:
            if a.offset != p.app_off:
                _viol(ctx, p, "parse-application-offset", parsed=hex(a.offset), built=hex(p.app_off), dcd=p.dcd_name)
            elif a.binary[:len(p.app)] != p.app or any(a.binary[len(p.app):]):
                _viol(ctx, p, "parse-application-differs", parsed_len=len(a.binary), app_len=len(p.app))
            try:
                again = parsed.export()
            except SPSDKError as e:
                _viol(ctx, p, "parse-reexport-refused", error=core.exc_brief(e))
                again = data
            if again != data:
                _viol(ctx, p, "parse-reexport-differs", reexported=len(again), exported=len(data),
                      first_diff=next((i for i in range(min(len(again), len(data))) if again[i] != data[i]), None))
    ctx.count("parse_roundtrip")


def judge_auth(ctx, p, img, enc, app_addr, app_padded):  # noqa: C901
    if img.csf is None:
        _viol(ctx, p, "authenticated-image-without-csf")
        return
    try:
        r = hab_ref.authenticate(img, refcms, p.dek if enc else None)
    except hab_ref.RefReject as e:
        what = (e.detail or {}).get("what")
        _viol(ctx, p, (what + "-" if what else "") + e.code, detail=e.detail)
        return
    if not r["csf_signed"]:
        _viol(ctx, p, "csf-not-authenticated", commands=r["commands"])
        return
    ctx.count("csf_signature_verified")
    if not r["signed"]:
        _viol(ctx, p, "no-image-blocks-authenticated", commands=r["commands"])
        return
    ctx.count("image_signature_verified")
    if not r["attr_order_der"]:
        ctx.note("cms_signed_attrs_not_in_der_order", p.set)
    # SRK table: entries are the keys of the SRK certificates, hash == what SPSDK reports
    kind = "usr" if p.nocak else "ca"
    exp_entries = []
    for i in range(1, p.nkeys + 1):
        raw = hab_ref.build_srk_entry(index_pub(p.set, f"SRK{i}_{kind}"), ca=not p.nocak)
        if p.hash_others and i - 1 != p.srk:
            raw = struct.pack(">BHB", hab_ref.TAG_SRK_HASH, 36, hab_ref.ALG_SHA256) + hashlib.sha256(raw).digest()
        exp_entries.append(raw)
    got_entries = [e["raw"] for e in r["srk_table"]["entries"]]
    if got_entries != exp_entries:
        _echo(ctx, p, "srk-table-entries-differ-from-certificates", entries=len(got_entries),
              first=next((i for i in range(min(len(got_entries), len(exp_entries))) if got_entries[i] != exp_entries[i]), None))
    if r["srk_index"] != p.srk:
        _echo(ctx, p, "srk-source-index", got=r["srk_index"], want=p.srk)
    own = hashlib.sha256(b"".join(hashlib.sha256(x).digest() if x[0] == hab_ref.TAG_SRK_KEY else x[4:] for x in exp_entries)).digest()
    if r["srk_hash"] != p.fuses:
        _viol(ctx, p, "srk-fuse-hash-mismatch", export_fuses=p.fuses.hex(), from_image=r["srk_hash"].hex(), from_certificates=own.hex())
    elif own != p.fuses:
        _echo(ctx, p, "srk-hash-from-certificates-differs", export_fuses=p.fuses.hex(), from_certificates=own.hex())
    ctx.count("srk_hash_checked")
    # installed keys: the configured certificates, issued by the installed SRK (verified inside authenticate)
    if p.nocak:
        if not r.get("fast_authentication") or r.get("csf_key_slot") != 1 or r.get("image_key_slots") != [0]:
            _echo(ctx, p, "fast-authentication-key-slots", csf=r.get("csf_key_slot"), image=r.get("image_key_slots"))
    else:
        cs, im = r["keys"].get(1), r["keys"].get(p.img_slot)
        if cs is None or cs.get("cert") is None or cs["cert"]["der"] != cert_der(p.set, p.csf_stem) or cs.get("issuer_slot") != 0:
            _echo(ctx, p, "installed-csf-key-is-not-the-configured-certificate")
        if im is None or im.get("cert") is None or im["cert"]["der"] != cert_der(p.set, p.img_stem) or im.get("issuer_slot") != 0:
            _echo(ctx, p, "installed-img-key-is-not-the-configured-certificate", slots=sorted(k for k in r["keys"] if k < 0x100))
        if r.get("csf_key_slot") != 1 or r.get("image_key_slots") != [p.img_slot]:
            _echo(ctx, p, "authenticate-data-key-slots", csf=r.get("csf_key_slot"), image=r.get("image_key_slots"))
    ctx.count("chain_checked")
    # other CSF contents
    ver = int(p.version.replace(".", ""), 16)
    if img.csf["version"] != ver:
        _echo(ctx, p, "csf-version", got=hex(img.csf["version"]), want=hex(ver))
    exp_unl = [] if not p.unlock else [{"engine": ENGINE_TAGS[p.unlock[0]], "features": p.unlock[2],
                                        "uid": int("".join("%02x" % int(x, 0) for x in p.unlock[3].split(",")), 16) if p.unlock[3] else None}]
    if r["unlocks"] != exp_unl:
        _echo(ctx, p, "unlock-command-differs", got=r["unlocks"], want=exp_unl)
    exp_set = [] if not p.set_engine else [{"item": 3, "algorithm": hab_ref.ALG_SHA256, "engine": ENGINE_TAGS[p.engine], "engine_cfg": 0}]
    if r["sets"] != exp_set:
        _echo(ctx, p, "set-engine-command-differs", got=r["sets"], want=exp_set)
    # coverage
    self_ = img.ivt["self"]
    required = [("ivt", self_, self_ + 0x20), ("boot-data", self_ + 0x20, self_ + 0x2C)]
    if p.dcd is not None:
        required.append(("dcd", self_ + DCD_OFF, self_ + DCD_OFF + len(p.dcd)))
    if p.xmcd is not None:
        required.append(("xmcd", self_ + 0x40, self_ + 0x40 + len(p.xmcd)))
    required.append(("application", app_addr, app_addr + len(p.app)))
    protected = hab_ref.merge_intervals(list(r["signed"]) + list(r.get("decrypt_blocks", [])))
    for name, a, b in required:
        miss = hab_ref.uncovered([(a, b)], protected)
        if miss:
            _viol(ctx, p, f"{name}-not-authenticated", missing=[(hex(x), hex(y)) for x, y in miss],
                  signed=[(hex(x), hex(n)) for x, n in r["signed"]], ccm=[(hex(x), hex(n)) for x, n in r.get("decrypt_blocks", [])])
    csf_addr = img.ivt["csf"]
    for a, n in list(r["signed"]) + list(r.get("decrypt_blocks", [])):
        if a < self_ or a + n > csf_addr:
            _echo(ctx, p, "authenticated-block-outside-ivt-to-csf", block=(hex(a), hex(n)))
    ctx.count("coverage_checked")
    # encryption
    if enc:
        if r["mac"] is None or not r["decrypted"]:
            _viol(ctx, p, "encrypted-image-without-decrypt-command", commands=r["commands"])
            return
        if r["mac"]["mac_len"] != p.mac:
            _echo(ctx, p, "mac-length-differs-from-configuration", got=r["mac"]["mac_len"], want=p.mac)
        if p.nonce is not None and r["mac"]["nonce"] != p.nonce:
            _echo(ctx, p, "nonce-differs-from-configuration", got=r["mac"]["nonce"].hex(), want=p.nonce.hex())
        c = getattr(p, "parsed_csf", None)  # round trip of the MAC record: what parse() reports == what the image holds
        if c is not None and (c.nonce != r["mac"]["nonce"] or c.mac_len != r["mac"]["mac_len"]):
            _viol(ctx, p, "parse-mac-parameters-differ", parsed_mac_len=c.mac_len, parsed_nonce=c.nonce and c.nonce.hex(), in_image=[r["mac"]["mac_len"], r["mac"]["nonce"].hex()])
        plain = b"".join(r["plain"][a] for a, _ in r["decrypted"])
        if r["decrypted"][0][0] != app_addr or plain[:len(p.app)] != p.app or any(plain[len(p.app):]):
            _viol(ctx, p, "ccm-decryption-does-not-restore-application", first_block=hex(r["decrypted"][0][0]), app_addr=hex(app_addr), plain_len=len(plain), app_len=len(p.app))
        if hab_ref.merge_intervals(r["signed"]) and hab_ref.uncovered([(app_addr, app_addr + len(p.app))], hab_ref.merge_intervals(r["signed"])) == []:
            ctx.note("encrypted_application_also_listed_in_signed_blocks", p.set)
        sk = r["secret_key"]
        blob_want = p.start + p.ivt_off + len(img.data)
        if sk is None:
            _viol(ctx, p, "encrypted-image-without-install-secret-key", commands=r["commands"])
        else:
            if sk["target"] != p.secret_slot or sk["source"] != p.kek_index:
                _echo(ctx, p, "install-secret-key-indices", got=sk)
            # position clause: the key blob lives right behind the CSF, inside the boot-data length
            if sk["blob_address"] != blob_want or sk["blob_address"] + 0x200 != img.boot_data["start"] + img.boot_data["length"]:
                _viol(ctx, p, "dek-blob-address-vs-boot-data-length", blob=hex(sk["blob_address"]), end_of_export=hex(blob_want),
                      boot_end=hex(img.boot_data["start"] + img.boot_data["length"]))
        ctx.count("ccm_decrypt_checked")


def judge_cli_parse(ctx, p, data, img):
    """`nxpimage hab parse` on the CLI-exported file: the written segment files are the slices of the image."""
    from click.testing import CliRunner

    from spsdk.apps import nxpimage

    outdir = os.path.join(os.path.dirname(p.cli_out), "parsed")
    res = CliRunner().invoke(nxpimage.main, ["hab", "parse", "-b", p.cli_out, "-o", outdir], catch_exceptions=True)
    enc = p.flags == 0xC
    if res.exit_code != 0:
        if enc and "Application offset could not be found" in (res.output + str(res.exception)):
            ctx.count("cli_checked")
            return
        if res.exception is not None and not isinstance(res.exception, SystemExit) and not core.is_refusal(res.exception):
            raise res.exception
        _viol(ctx, p, "cli-parse-fails-on-own-export", exit_code=res.exit_code, output=res.output[-300:])
        return
    want = {"ivt.bin": data[:0x20], "bdt.bin": data[0x20:0x2C]}
    if img.csf is not None:
        want["csf.bin"] = data[img.csf["offset"]:img.csf["offset"] + 0x2000]
    if p.dcd is not None:
        want["dcd.bin"] = p.dcd
    if p.xmcd is not None:
        want["xmcd.bin"] = data[0x40:0x40 + len(p.xmcd)]
    if not enc:
        end = img.csf["offset"] if img.csf is not None else len(data)
        want["app.bin"] = data[p.app_off:end]
    have = sorted(os.listdir(outdir)) if os.path.isdir(outdir) else []
    for name, exp in want.items():
        fp = os.path.join(outdir, name)
        if not os.path.isfile(fp):
            _viol(ctx, p, "cli-parse-segment-file-missing", name=name, have=have)
            continue
        with open(fp, "rb") as f:
            got = f.read()
        if got != exp:
            _viol(ctx, p, "cli-parse-segment-file-differs", name=name, got_len=len(got), want_len=len(exp))
    extra = [n for n in have if n not in want and not (enc and n == "app.bin")]
    if extra:
        _viol(ctx, p, "cli-parse-unexpected-segment-file", names=extra)
    ctx.count("cli_checked")


def extra_coverage(events, counters):
    """Measured breadth of the workload (from the '~' counters the workers kept)."""
    pairs = {k[7:]: v for k, v in counters.items() if k.startswith("~built:")}
    return {
        "monitor_evaluations": {k: v for k, v in counters.items() if not k.startswith("~")},
        "family_device_pairs_built": len(pairs),
        "families_built": len({k.split("/")[0] for k in pairs}),
        "boot_devices_built": sorted({k.split("/")[1] for k in pairs}),
        "images_per_flags": {k[7:]: v for k, v in counters.items() if k.startswith("~flags:")},
        "images_per_key_set": {k[5:]: v for k, v in counters.items() if k.startswith("~set:")},
    }
