"""C17 - Secrets SPSDK invents are fresh for every artifact.

Runtime monitoring: histories of artifact constructions (SB2.0 / SB2.1, encrypted MBI, OTFAD / IEE / BEE blobs, HAB
encrypted images, key-blob fillers, ``load_hex_string(None, n)``) are driven through the public classes and through
``load_from_config`` while M-RNG and M-CTR (vf/monitors.py) record every value SPSDK draws and every AES-CTR
(key, counter block, plaintext digest).  An offline checker over the ledgers and the secrets observed on the artifacts
(attributes, exported bytes, written key files) applies the four rules of DESIGN.md "C17"; fresh child interpreters
(vf/props/c17_child.py) run the same plan and the parent checks that nothing repeats across processes.

All spsdk imports are lazy: the monitors must be installed before the modules that draw secrets are imported.
"""
from __future__ import annotations

import collections
import json
import os
import random
import shutil
import subprocess
import sys
from typing import Any, Optional

from vf import core, monitors, pki
from vf.refs import modes as refmodes

ID = "C17"
LEVEL = "exploration"
TECHNIQUE = ("runtime monitoring: M-RNG / M-CTR ledgers over whole interpreter histories + offline freshness checker "
             "(4 rules) + fresh child interpreters compared pairwise")
RULE = (
    "a case is a history of 2..12 artifact constructions in a seeded interleaving of construct / export steps over 16 "
    "artifact kinds (SB2.0 and SB2.1 by default constructor, explicit SBV2xAdvancedParams, YAML config and BD file; "
    "encrypted MBI by constructor kwargs and load_from_config; OTFAD KeyBlob, IeeKeyBlob, BEE header / parts / "
    "load_from_config; HAB encrypted container from a BD file with generated DEK and nonce; legacy BootImgRT.add_image; "
    "load_hex_string(None, n)), with a seeded subset of the secrets supplied by the caller (never judged); or a group of "
    "4 fresh child interpreters (same plan, same and different PYTHONHASHSEED); or a group of repository test modules "
    "run under the same monitors (pytest plugin in vf/monitors.py).  Signature = (artifact kind, supplied "
    "subset / option class, number of exports) resp. (restart group, hash-seed class) resp. (test modules); non-trivial = "
    "the artifact was built and exported, at least one self-chosen secret was observed on it and judged against the ledgers."
)
ASSUMPTIONS = [
    "values supplied by the caller (the harness knows which) are never judged; the SB2 header padding and the BEE "
    "alignment padding are random fill, not secrets named by the property, and are not judged",
    "chance equality of >= 8 random bytes (< 2^-64) is ignored; secrets shorter than 8 bytes (4-byte key-blob filler) "
    "are judged only by 'was drawn from the RNG inside this artifact's construct-to-export window'",
    "'originates from draw D' = equal length and Hamming distance <= 4 bits, or verbatim containment with >= 8 bytes overlap",
    "an artifact's window is the union of the harness steps on that artifact (construction incl. explicitly created "
    "parameter objects, every export); a secret with no M-RNG origin at all is a violation only together with an observed repeat",
    "keystream reuse is judged between two different artifacts only (a re-export of one artifact repeats its own blocks)",
    "the HAB workload uses the certificates/keys of tests/nxpimage/data/hab/export of the tree under test as its PKI",
    "repository tests under the monitors: only 'a value drawn while an spsdk module was being imported serves as AES-CTR key "
    "or nonce' and 'M-RNG returned the same >= 8-byte value twice' are judged (no artifact windows there; tests share keys on purpose)",
    "the legacy BootImgRT.add_image(dek_key=b'') is judged because its docstring promises a random key for empty bytes",
    "rule 5 (no replay of the random source inside one interpreter) compares 8-byte windows of all draws >= 16 bytes at every "
    "alignment; a chance hit has probability ~ n^2 / 2^64 and is ignored",
]
REQUIRED_COUNTERS = ["mrng_draws", "mctr_calls", "secrets_judged", "rule1_pairs", "rule2_draws", "rule3_secrets",
                     "rule4_blocks", "restarts", "xproc_pairs", "fam_sb2", "fam_mbi", "fam_otfad", "fam_iee", "fam_bee",
                     "fam_hab", "fam_filler", "fam_loadhex", "rng_stream_children", "rng_stream_bytes_checked"]
CASE_TIMEOUT_S = 2700
WATCHDOG_S = {"quick": 1500, "thorough": 7200}
MAX_JOBS = 16

PY = "/venv/bin/python"
CHILD = os.path.join(os.path.dirname(os.path.abspath(__file__)), "c17_child.py")

MON: Optional[monitors.Monitors] = None
# worker-global state: the whole interpreter history
_PRIOR_SECRETS: dict = {}    # value -> (case, aid, kind, name)
_PRIOR_BLOCKS: dict = {}     # (key, block) -> (digest, case, aid, kind, chosen)
_SEEN_VALUES: dict = {}      # >= 8-byte values seen in any interpreter handled by this worker -> tag


def install_monitors(ctx):  # noqa: ARG001
    global MON  # pylint: disable=global-statement
    MON = monitors.install(core.repo_root())


# =================================================================================================================
# plans
KIND_WEIGHTS = [
    ("sb21_default", 4), ("sb21_advparams", 2), ("sb21_config", 2), ("sb21_bd", 1),
    ("sb20_default", 3), ("sb20_advparams", 1),
    ("mbi_ctor", 4), ("mbi_config", 2),
    ("otfad_keyblob", 3), ("iee_keyblob", 2),
    ("bee_header", 2), ("bee_parts", 1), ("bee_config", 2),
    ("hab_config", 2), ("bootimgrt_add_image", 1), ("load_hex_none", 1),
]
ALL_KINDS = [k for k, _ in KIND_WEIGHTS]
FAMILY = {"sb21_default": "sb2", "sb21_advparams": "sb2", "sb21_config": "sb2", "sb21_bd": "sb2", "sb20_default": "sb2",
          "sb20_advparams": "sb2", "mbi_ctor": "mbi", "mbi_config": "mbi", "otfad_keyblob": "otfad", "iee_keyblob": "iee",
          "bee_header": "bee", "bee_parts": "bee", "bee_config": "bee", "hab_config": "hab", "bootimgrt_add_image": "hab",
          "load_hex_none": "loadhex"}
MBI_FAMILIES = ["mimxrt595s", "mimxrt685s", "mimxrt555s", "mimxrt533s"]


def _subset(rng, names, sizes):
    k = core.pick(rng, sizes)
    return sorted(rng.sample(names, min(k, len(names))))


def make_variant(kind: str, rng: random.Random) -> dict:
    v: dict[str, Any] = {"nexp": core.pick(rng, [1, 1, 2])}
    if kind.startswith("sb2"):
        v.update(plen=core.pick(rng, [16, 100, 333, 512]), nsec=core.pick(rng, [1, 1, 2]), kek=rng.randrange(2),
                 cert=rng.randrange(4))
        if kind.startswith("sb20"):
            v["signed"] = rng.random() < 0.5
        v["supply"] = _subset(rng, ["dek", "mac", "nonce"], [0, 0, 1, 2]) if kind in (
            "sb21_advparams", "sb20_advparams", "sb21_config") else []
        if kind == "sb21_config":
            v["zero_padding"] = rng.random() < 0.3
            v["sha"] = rng.random() < 0.5
    elif kind.startswith("mbi"):
        v.update(family=core.pick(rng, MBI_FAMILIES), keysource=core.pick(rng, ["OTP", "KEYSTORE"]),
                 hmac=rng.randrange(2), app_len=core.pick(rng, [256, 1024, 3000]), cert=rng.randrange(4),
                 shared_cfg=rng.random() < 0.5, reloaded=rng.random() < 0.4)
    elif kind == "otfad_keyblob":
        v.update(supply=_subset(rng, ["key", "counter"], [0, 0, 0, 1]), byte_swap=rng.random() < 0.5,
                 dlen=core.pick(rng, [64, 512, 1024]), kek=rng.randrange(2), container=rng.random() < 0.4)
    elif kind == "iee_keyblob":
        v.update(mode=core.pick(rng, ["AesXTS", "AesCTRWAddress", "AesCTRWOAddress"]),
                 keysize=core.pick(rng, ["CTR128XTS256", "CTR256XTS512"]),
                 supply=_subset(rng, ["key1", "key2"], [0, 0, 0, 1]), dlen=core.pick(rng, [64, 4096]))
    elif kind in ("bee_header", "bee_parts"):
        v.update(nfac=core.pick(rng, [1, 2]), ukey=rng.randrange(2))
    elif kind == "bee_config":
        v.update(engines=core.pick(rng, ["engine0", "engine1", "both"]), ukey=rng.randrange(2))
    elif kind == "hab_config":
        v.update(keylen=core.pick(rng, [128, 192, 256]), dcd=rng.random() < 0.5, app_len=core.pick(rng, [1024, 3000, 8192]),
                 mac=core.pick(rng, [16, 16, 8]), reuse0=rng.random() < 0.5,
                 # several builds in ONE project directory (what a user who re-runs 'nxpimage hab export' does): the
                 # DEK file written by an earlier build is lying there and must not be picked up as "the" key
                 shared_dir=rng.random() < 0.5)
    elif kind == "bootimgrt_add_image":
        v.update(dek=core.pick(rng, ["empty", "empty", "given"]), app_len=core.pick(rng, [1024, 2048]))
        v["nexp"] = 0
    elif kind == "load_hex_none":
        v.update(n=core.pick(rng, [8, 16, 24, 32]))
        v["nexp"] = 0
    return v


def make_plan(rng: random.Random, kinds: list[str], tag: str, interleave: bool = True, force: Optional[dict] = None) -> dict:
    arts = [{"kind": k, "var": make_variant(k, rng)} for k in kinds]
    for a in arts:
        a["var"].update((force or {}).get(a["kind"], {}))
    queues = [[[i, "c"]] + [[i, "x"]] * a["var"]["nexp"] for i, a in enumerate(arts)]
    steps: list = []
    if interleave:
        # up to four artifacts are open (constructed, not yet fully exported) at a time, so that windows really interleave
        waiting = list(queues)
        open_q: list = []
        while waiting or open_q:
            if waiting and (not open_q or (len(open_q) < 4 and rng.random() < 0.5)):
                q = waiting.pop(0)
                steps.append(q.pop(0))
                if q:
                    open_q.append(q)
            else:
                q = core.pick(rng, open_q)
                steps.append(q.pop(0))
                if not q:
                    open_q.remove(q)
    else:
        for q in queues:
            steps.extend(q)
    return {"seed": tag, "arts": arts, "steps": steps}


def pick_kinds(rng: random.Random, n: int) -> list[str]:
    bag = [k for k, w in KIND_WEIGHTS for _ in range(w)]
    kinds = [core.pick(rng, bag) for _ in range(n)]
    # make a second object of an already chosen kind likely: that is where sharing shows
    for i in range(1, n):
        if rng.random() < 0.35:
            kinds[i] = kinds[rng.randrange(i)]
    return kinds


# =================================================================================================================
# builders (one class per artifact family); everything the caller supplies comes from self.rng / the key pool
def rb(rng: random.Random, n: int) -> bytes:
    b = core.rand_bytes(rng, n)
    return (b"\x5a" + b[1:]) if b and b[0] == 0 else b


class Env:
    def __init__(self, workdir: str, seed: str):
        self.workdir = workdir
        self.seed = seed
        self.repo = core.repo_root()
        self.shared: dict = {}   # objects the caller keeps between builds (e.g. ONE configuration dict reused in a loop)
        os.makedirs(workdir, exist_ok=True)

    def dir(self, aid) -> str:
        d = os.path.join(self.workdir, f"a{aid}")
        os.makedirs(d, exist_ok=True)
        return d

    def pool(self, name: str, idx: int, n: int) -> bytes:
        """Caller-owned key pool shared by the artifacts of one plan (a product key is reused across images)."""
        return rb(random.Random(f"{self.seed}/pool/{name}/{idx}"), n)

    def hab_data(self) -> str:
        for root in (self.repo, "/repo"):
            d = os.path.join(root, "tests", "nxpimage", "data", "hab", "export")
            if os.path.isdir(os.path.join(d, "crts")) and os.path.isdir(os.path.join(d, "keys")):
                return d
        raise core.Inconclusive("HAB PKI (tests/nxpimage/data/hab/export) not found")


def _write(path: str, data: Any) -> str:
    with open(path, "wb" if isinstance(data, (bytes, bytearray)) else "w") as f:
        f.write(data)
    return path


def _cert_v1(idx: int):
    from spsdk.crypto.certificate import Certificate
    from spsdk.crypto.signature_provider import get_signature_provider
    from spsdk.utils.crypto.cert_blocks import CertBlockV1

    name = f"rsa2048_{idx}"
    cert = Certificate.load(pki.path(name, "nonca", "der"))
    cb = CertBlockV1()
    cb.set_root_key_hash(0, cert)
    cb.add_certificate(cert)
    return cb, get_signature_provider(local_file_key=pki.path(name)), name


class Art:
    """One artifact of a history: harness steps, caller-supplied names, observations."""

    CTR_NAMES: tuple = ()

    def __init__(self, env: Env, aid: int, kind: str, var: dict):
        self.env, self.aid, self.kind, self.var = env, aid, kind, var
        self.rng = random.Random(f"{env.seed}/art/{aid}")
        self.steps: list[tuple[int, int]] = []
        self.obs: list[tuple[str, bytes, str]] = []
        self.invented: set[str] = set()
        self.obj: Any = None
        self.exports = 0
        self.notes: list[str] = []

    # -- to be provided by the families
    def construct(self) -> None:
        raise NotImplementedError

    def export(self) -> None:
        raise NotImplementedError

    # -- helpers
    def see(self, name: str, value: Any, src: str) -> None:
        if name in self.invented and isinstance(value, (bytes, bytearray)) and len(value) > 0:
            self.obs.append((name, bytes(value), src))

    @property
    def ctr_chosen(self) -> bool:
        return bool(self.invented & set(self.CTR_NAMES))

    def sig(self) -> list:
        return [self.kind, "supplied=" + ",".join(self.var.get("supply", [])) if "supply" in self.var else "", self.option_class(),
                f"exports={self.exports}"]

    def option_class(self) -> str:
        return ""

    def record(self) -> dict:
        vals: dict = collections.defaultdict(set)
        for n, v, _ in self.obs:
            vals[n].add(v)
        for n, vs in sorted(vals.items()):
            if len(vs) > 1 and not n.endswith("filler"):
                self.notes.append(f"{n}: {len(vs)} distinct values observed on one artifact (attribute vs exported bytes)")
        return {"aid": self.aid, "kind": self.kind, "steps": [list(s) for s in self.steps], "invented": sorted(self.invented),
                "obs": [[n, v.hex(), s] for n, v, s in self.obs], "ctr_chosen": self.ctr_chosen, "exports": self.exports,
                "sig": self.sig(), "notes": self.notes}


def _through_the_config_writer(cfg: dict, nones: dict, title: str, schemas: list) -> dict:
    import copy

    import yaml
    from spsdk.utils.schema_validator import CommentedConfig

    full = copy.deepcopy(cfg)
    for k, v in nones.items():
        if isinstance(v, dict):
            full.setdefault(k, {}).update(v)
        else:
            full[k] = v
    text = CommentedConfig(title, schemas).get_config(full)
    return yaml.safe_load(text)


class Sb2Art(Art):
    CTR_NAMES = ("dek", "nonce")

    def option_class(self):
        v = self.var
        return f"signed={v.get('signed', True)} nsec={v['nsec']} plen={v['plen']}"

    def _sections(self):
        from spsdk.sbfile.sb2.commands import CmdErase, CmdLoad, CmdReset
        from spsdk.sbfile.sb2.sections import BootSectionV2

        out = []
        for uid in range(self.var["nsec"]):
            out.append(BootSectionV2(uid, CmdErase(0x1000 * uid, 0x1000),
                                     CmdLoad(0x1000 * uid + 0x100, rb(self.rng, self.var["plen"])), CmdReset(),
                                     hmac_count=core.pick(self.rng, [1, 2, 3])))
        return out

    def construct(self):
        from spsdk.sbfile.sb2.images import BootImageV20, BootImageV21, SBV2xAdvancedParams

        v, kind = self.var, self.kind
        self.kek = self.env.pool("sbkek", v["kek"], 32)
        sizes = {"dek": 32, "mac": 32, "nonce": 16}
        self.supplied = {n: rb(self.rng, sizes[n]) for n in v["supply"]}
        self.invented = set(sizes) - set(self.supplied)
        d = self.env.dir(self.aid)
        if kind == "sb21_config":
            from spsdk.utils.schema_validator import check_config

            cert_name = f"rsa2048_{v['cert']}"
            _write(os.path.join(d, "cb.yaml"), f"rootCertificate0File: {pki.path(cert_name, 'nonca', 'der')}\nmainRootCertId: 0\n")
            sections = []
            for uid in range(v["nsec"]):
                f = _write(os.path.join(d, f"app{uid}.bin"), rb(self.rng, v["plen"]))
                sections.append({"section_id": uid, "commands": [
                    {"erase": {"address": hex(0x1000 * uid), "size": "0x1000"}},
                    {"load": {"address": hex(0x1000 * uid + 0x100), "file": f}}]})
            options: dict[str, Any] = {"flags": "0x8008" if v["sha"] else "0x8", "buildNumber": "0x1",
                                       "productVersion": "1.0.0", "componentVersion": "1.0.0"}
            for n, val in self.supplied.items():
                options[n] = val.hex()
            if v["zero_padding"]:
                options["zeroPadding"] = True
            cfg = {"family": "lpc55s6x", "containerOutputFile": os.path.join(d, "out.sb2"),
                   "containerKeyBlobEncryptionKey": self.kek.hex(), "certBlock": os.path.join(d, "cb.yaml"),
                   "signPrivateKey": pki.path(cert_name), "options": options, "sections": sections}
            if self.rng.random() < 0.35:
                # a configuration that lists the secrets it does not supply as None and is stored through SPSDK's own writer
                # before the build (what a front end does with its defaults): not supplied stays not supplied
                cfg = _through_the_config_writer(cfg, {"options": {n: None for n in self.invented}}, "SB2.1",
                                                 BootImageV21.get_validation_schemas("lpc55s6x"))
                self.notes.append("stored-through-the-configuration-writer")
            check_config(cfg, BootImageV21.get_validation_schemas("lpc55s6x"), search_paths=[d])
            self.obj = BootImageV21.load_from_config(cfg, rkth_out_path=os.path.join(d, "rkth.bin"), search_paths=[d])
            return
        if kind == "sb21_bd":
            from spsdk.crypto.signature_provider import get_signature_provider

            cert_name = f"rsa2048_{v['cert']}"
            app = _write(os.path.join(d, "app.bin"), rb(self.rng, v["plen"]))
            bd = ("options {\n    flags = 0x8;\n    buildNumber = 0x1;\n    productVersion = \"1.00.00\";\n"
                  "    componentVersion = \"1.00.00\";\n    secureBinaryVersion = \"2.1\";\n}\n"
                  "sources {\n    myImage = extern(0);\n}\n"
                  "section (0) {\n    erase 0x8000000..0x8010000;\n    load myImage > 0x8001000;\n}\n")
            if v["nsec"] > 1:
                bd += "section (1) {\n    load myImage > 0x8005000;\n}\n"
            _write(os.path.join(d, "cmd.bd"), bd)
            _write(os.path.join(d, "kek.txt"), self.kek.hex())
            parsed = BootImageV21.parse_sb21_config(os.path.join(d, "cmd.bd"), external_files=[app])
            crt = pki.path(cert_name, "nonca", "der")
            self.obj = BootImageV21.load_from_config(
                parsed, key_file_path=os.path.join(d, "kek.txt"),
                signature_provider=get_signature_provider(local_file_key=pki.path(cert_name)),
                signing_certificate_file_paths=[crt], root_key_certificate_paths=[crt],
                rkth_out_path=os.path.join(d, "rkth.bin"), search_paths=[d])
            return
        kw: dict[str, Any] = {}
        if kind.endswith("_advparams"):
            kw["advanced_params"] = SBV2xAdvancedParams(**self.supplied)
        sections = self._sections()
        if kind.startswith("sb20"):
            img = BootImageV20(v["signed"], self.kek, *sections, build_number=self.rng.randrange(1, 100), **kw)
            signed = v["signed"]
        else:
            img = BootImageV21(self.kek, *sections, build_number=self.rng.randrange(1, 100), **kw)
            signed = True
        if signed:
            cb, sp, _ = _cert_v1(v["cert"])
            img.cert_block = cb
            img.signature_provider = sp
        self.obj = img
        self._look("construct")

    def _look(self, src):
        img = self.obj
        self.see("dek", img.dek, f"attr@{src}")
        self.see("mac", img.mac, f"attr@{src}")
        self.see("nonce", img.header.nonce, f"attr@{src}")

    def export(self):
        out = self.obj.export()
        self.exports += 1
        self._look("export")
        # the exported bytes: nonce = header[0:16]; DEK|MAC = RFC 3394 unwrap of the key blob at 0x80 with the caller's KEK
        self.see("nonce", out[:16], "exported-bytes")
        try:
            kb = refmodes.key_unwrap(self.kek, out[0x80:0x80 + 72])
            self.see("dek", kb[:32], "exported-bytes")
            self.see("mac", kb[32:64], "exported-bytes")
        except Exception as e:  # pylint: disable=broad-except
            self.notes.append(f"key blob not unwrapped: {type(e).__name__}")


class MbiArt(Art):
    CTR_NAMES = ("ctr_init_vector",)

    def option_class(self):
        v = self.var
        return f"{v['family']} {v['keysource']} app={v['app_len']} shared_cfg={v.get('shared_cfg', False)} reloaded={v.get('reloaded', False)}"

    def construct(self):
        from spsdk.image.keystore import KeySourceType, KeyStore
        from spsdk.image.mbi.mbi import create_mbi_class, get_mbi_class
        from spsdk.image.trustzone import TrustZone

        v = self.var
        self.invented = {"ctr_init_vector"}
        hmac_key = self.env.pool("mbihmac", v["hmac"], 32)
        app = rb(self.rng, v["app_len"])
        d = self.env.dir(self.aid)
        if self.kind == "mbi_ctor":
            cb, sp, _ = _cert_v1(v["cert"])
            cls = create_mbi_class("encrypted_signed_ram", v["family"])
            ks = KeyStore(KeySourceType.OTP if v["keysource"] == "OTP" else KeySourceType.KEYSTORE)
            self.obj = cls(app=app, load_address=0x80000, trust_zone=TrustZone.disabled(), cert_block=cb,
                           signature_provider=sp, hmac_key=hmac_key, key_store=ks)
        else:
            from spsdk.utils.schema_validator import check_config

            cert_name = f"rsa2048_{v['cert']}"
            _write(os.path.join(d, "cb.yaml"), f"rootCertificate0File: {pki.path(cert_name, 'nonca', 'der')}\nmainRootCertId: 0\n")
            cfg = {"family": v["family"], "outputImageExecutionTarget": "RAM",
                   "outputImageAuthenticationType": "Encrypted + Signed",
                   "masterBootOutputFile": os.path.join(d, "mbi.bin"),
                   "inputImageFile": _write(os.path.join(d, "app.bin"), app),
                   "outputImageExecutionAddress": "0x80000", "enableHwUserModeKeys": False, "enableTrustZone": False,
                   "signPrivateKey": pki.path(cert_name), "certBlock": os.path.join(d, "cb.yaml"),
                   "outputImageEncryptionKeyFile": hmac_key.hex()}
            if v["keysource"] == "KEYSTORE":
                cfg["keyStoreFile"] = _write(os.path.join(d, "ks.bin"), bytes(KeyStore.KEY_STORE_SIZE))
            if v.get("shared_cfg"):
                # a script that loads its configuration once and builds several images from the SAME dictionary object,
                # changing only what differs: whatever a build leaves behind in the dictionary reaches the next build
                base = self.env.shared.setdefault("mbi_cfg", {})
                base.pop("keyStoreFile", None)
                base.update(cfg)
                cfg = base
            cls = get_mbi_class(cfg)
            check_config(cfg, cls.get_validation_schemas(v["family"]), search_paths=[d])
            mbi = cls()
            if v.get("reloaded"):
                # the image object served ANOTHER build before (loaded, exported), then the configuration of this build is
                # loaded into the same object: what the earlier build chose for itself must not serve this one
                pre = dict(cfg)
                pre["inputImageFile"] = _write(os.path.join(d, "app_of_the_previous_build.bin"), rb(self.rng, v["app_len"]))
                mbi.load_from_config(pre, search_paths=[d])
                mbi.export()
                self.invented.add("ctr_init_vector_of_the_previous_load")
                self.see("ctr_init_vector_of_the_previous_load", mbi.ctr_init_vector, "attr@previous-load")
            mbi.load_from_config(cfg, search_paths=[d])
            self.obj = mbi

    def export(self):
        out = self.obj.export()
        self.exports += 1
        iv = self.obj.ctr_init_vector
        self.see("ctr_init_vector", iv, "attr@export")
        if isinstance(iv, bytes) and iv in out:
            self.see("ctr_init_vector", iv, "exported-bytes")
        else:
            self.notes.append("IV attribute not found verbatim in the exported image")


class OtfadArt(Art):
    CTR_NAMES = ("key", "counter")

    def option_class(self):
        v = self.var
        return f"swap={v['byte_swap']} dlen={v['dlen']} container={v['container']}"

    def construct(self):
        from spsdk.utils.crypto.otfad import KeyBlob, Otfad

        v = self.var
        sup = {n: rb(self.rng, 16 if n == "key" else 8) for n in v["supply"]}
        self.invented = {"key", "counter", "filler"} - set(sup)
        self.kek = self.env.pool("otfadkek", v["kek"], 16)
        self.obj = KeyBlob(0x08001000, 0x0800F3FF, key=sup.get("key"), counter_iv=sup.get("counter"))
        self.container = None
        if v["container"]:
            self.container = Otfad()
            self.container.add_key_blob(self.obj)
        self.see("key", self.obj.key, "attr@construct")
        self.see("counter", self.obj.ctr_init_vector, "attr@construct")

    def export(self):
        kb = self.obj
        self.exports += 1
        wrapped = kb.export(self.kek) if self.container is None else self.container.encrypt_key_blobs(self.kek)[:64]
        plain = refmodes.key_unwrap(self.kek, wrapped[:48])  # RFC 3394 with the caller's KEK: the first 40 bytes
        self.see("key", plain[:16], "exported-bytes")
        self.see("counter", plain[16:24], "exported-bytes")
        self.see("filler", plain[32:36], "exported-bytes")
        pd = kb.plain_data()
        self.see("filler", pd[32:36], "plain_data()")
        data = rb(self.rng, self.var["dlen"])
        if self.container is None:
            kb.encrypt_image(0x08001000, data, self.var["byte_swap"])
        else:
            self.container.encrypt_image(data, 0x08001000 + 0x400, self.var["byte_swap"])
        self.see("key", kb.key, "attr@export")
        self.see("counter", kb.ctr_init_vector, "attr@export")


_IEE_ATTRS: dict = {}


class IeeArt(Art):
    CTR_NAMES = ("key1", "key2")

    def option_class(self):
        v = self.var
        return f"{v['mode']} {v['keysize']} dlen={v['dlen']}"

    def construct(self):
        from spsdk.utils.crypto.iee import (
            IeeKeyBlob,
            IeeKeyBlobAttribute,
            IeeKeyBlobKeyAttributes,
            IeeKeyBlobLockAttributes,
            IeeKeyBlobModeAttributes,
        )

        v = self.var
        # half of the key blobs get an attribute object that served earlier key blobs of this process: lock, key size and
        # mode are settings a caller makes once and hands to every key blob
        akey = (v["keysize"], v["mode"])
        attrs = _IEE_ATTRS.get(akey) if self.rng.random() < 0.5 else None
        if attrs is None:
            attrs = IeeKeyBlobAttribute(IeeKeyBlobLockAttributes.UNLOCK, IeeKeyBlobKeyAttributes.from_label(v["keysize"]),
                                        IeeKeyBlobModeAttributes.from_label(v["mode"]))
            _IEE_ATTRS[akey] = attrs
        else:
            self.notes.append("shared-attribute-object")
        self.sizes = {"key1": attrs.key1_size, "key2": attrs.key2_size}
        sup = {n: rb(self.rng, self.sizes[n]) for n in v["supply"]}
        self.invented = {"key1", "key2"} - set(sup)
        # low addresses: Counter(nonce, ctr_value=address >> 4) must stay below 2^32 (C09 owns the overflow defect)
        self.obj = IeeKeyBlob(attrs, 0x1000, 0xFFFF, key1=sup.get("key1"), key2=sup.get("key2"))
        self.see("key1", self.obj.key1, "attr@construct")
        self.see("key2", self.obj.key2, "attr@construct")

    def export(self):
        from spsdk.utils.crypto.iee import Iee

        kb = self.obj
        self.exports += 1
        pd = kb.plain_data()
        self.see("key1", pd[16:16 + self.sizes["key1"]], "exported-bytes")
        self.see("key2", pd[48:48 + self.sizes["key2"]], "exported-bytes")
        iee = Iee()
        iee.add_key_blob(kb)
        iee.encrypt_key_blobs(rb(self.rng, 32), rb(self.rng, 32), 0x0)
        try:
            kb.encrypt_image(0x1000, rb(self.rng, self.var["dlen"]))
        except OverflowError:
            # spsdk.crypto.symmetric.Counter.value past 2^32 (chance ~1e-7 here): listed under C09, not a C17 matter
            self.notes.append("CROSS-OBSERVATION property=C09 Counter.value OverflowError")
        self.see("key1", kb.key1, "attr@export")
        self.see("key2", kb.key2, "attr@export")


class BeeArt(Art):
    CTR_NAMES = ("counter", "e0.counter", "e1.counter", "sw_key")

    def option_class(self):
        v = self.var
        return f"nfac={v.get('nfac')} engines={v.get('engines')}"

    def construct(self):
        from spsdk.image.bee import BeeFacRegion, BeeKIB, BeeNxp, BeeProtectRegionBlock, BeeRegionHeader

        v = self.var
        self.base = 0x60001000
        if self.kind == "bee_config":
            d = self.env.dir(self.aid)
            image = _write(os.path.join(d, "app.bin"), rb(self.rng, 0x2000))
            eng = []
            for i in range(2):
                eng.append({"bee_cfg": {"user_key": "0x" + self.env.pool("beeuser", (v["ukey"] + i) % 2, 16).hex(),
                                        "protected_region": [{"start_address": hex(self.base + 0x1000 * i), "length": "0x1000",
                                                              "protected_level": 0}]}})
            cfg = {"output_folder": d, "input_binary": image, "engine_selection": v["engines"],
                   "engine_key_selection": "random", "base_address": hex(self.base), "bee_engine": eng}
            self.obj = BeeNxp.load_from_config(cfg, search_paths=[d])
            self.invented = set()
            for i, h in enumerate(self.obj.headers):
                if h is not None:
                    self.invented |= {f"e{i}.counter", f"e{i}.kib_key", f"e{i}.kib_iv"}
            self._look("construct")
            return
        if self.kind == "bee_parts":
            self.sw_key = self.env.pool("beeuser", v["ukey"], 16)
            self.obj = BeeRegionHeader(BeeProtectRegionBlock(), self.sw_key, BeeKIB())
            self.invented = {"counter", "kib_key", "kib_iv"}
        else:
            self.obj = BeeRegionHeader()
            self.invented = {"counter", "kib_key", "kib_iv", "sw_key"}
        for i in range(v["nfac"]):
            self.obj.add_fac(BeeFacRegion(self.base + 0x1000 * i, 0x1000, i % 4))
        self._look("construct")

    @staticmethod
    def _sw_key(hdr) -> bytes:
        # public accessor: the fuse words, lowest address first = the key read backwards in 32-bit big-endian words
        words = list(hdr.sw_key_fuses())
        return b"".join(w.to_bytes(4, "big") for w in reversed(words))

    def _look_hdr(self, hdr, prefix, src):
        self.see(prefix + "counter", hdr._prdb.counter, f"attr@{src}")  # pylint: disable=protected-access
        self.see(prefix + "kib_key", hdr._kib.kib_key, f"attr@{src}")  # pylint: disable=protected-access
        self.see(prefix + "kib_iv", hdr._kib.kib_iv, f"attr@{src}")  # pylint: disable=protected-access
        self.see(prefix + "sw_key", self._sw_key(hdr), f"sw_key_fuses()@{src}")

    def _look(self, src):
        if self.kind == "bee_config":
            for i, h in enumerate(self.obj.headers):
                if h is not None:
                    self._look_hdr(h, f"e{i}.", src)
        else:
            self._look_hdr(self.obj, "", src)

    def _decode(self, hdr, blob, prefix):
        # exported bytes: EKIB = AES-ECB(sw_key, kib_key | kib_iv); PRDB at 0x80 = AES-CBC(kib_key, kib_iv, ...), the counter
        # is stored byte-reversed at +32
        sw = self._sw_key(hdr)
        kib = refmodes.ecb_decrypt(sw, blob[:32])
        self.see(prefix + "kib_key", kib[:16], "exported-bytes")
        self.see(prefix + "kib_iv", kib[16:32], "exported-bytes")
        prdb = refmodes.cbc_decrypt(kib[:16], kib[16:32], blob[0x80:0x180])
        self.see(prefix + "counter", prdb[32:48][::-1], "exported-bytes")

    def export(self):
        self.exports += 1
        if self.kind == "bee_config":
            blobs = self.obj.export_headers()
            self.obj.export_image()
            for i, (h, b) in enumerate(zip(self.obj.headers, blobs)):
                if h is not None and b is not None:
                    self._decode(h, b, f"e{i}.")
        else:
            blob = self.obj.export()
            self._decode(self.obj, blob, "")
            self.obj.encrypt_block(self.base, rb(self.rng, 1024))
        self._look("export")


HAB_BD = """options {{
    flags = 0x0c;
    startAddress = 0x80001000;
    ivtOffset = 0x400;
    initialLoadSize = 0x1000;
{dcd}    entryPointAddress = 0x800041f5;
}}

sources {{
    elfFile = extern(0);
}}

constants {{
    SEC_CSF_HEADER              = 20;
    SEC_CSF_INSTALL_SRK         = 21;
    SEC_CSF_INSTALL_CSFK        = 22;
    SEC_CSF_INSTALL_NOCAK       = 23;
    SEC_CSF_AUTHENTICATE_CSF    = 24;
    SEC_CSF_INSTALL_KEY         = 25;
    SEC_CSF_AUTHENTICATE_DATA   = 26;
    SEC_CSF_INSTALL_SECRET_KEY  = 27;
    SEC_CSF_DECRYPT_DATA        = 28;
    SEC_NOP                     = 29;
    SEC_SET_MID                 = 30;
    SEC_SET_ENGINE              = 31;
    SEC_INIT                    = 32;
    SEC_UNLOCK                  = 33;
}}

section (SEC_CSF_HEADER;
    Header_Version="4.2",
    Header_HashAlgorithm="sha256",
    Header_Engine="ANY",
    Header_EngineConfiguration=0,
    Header_CertificateFormat="x509",
    Header_SignatureFormat="CMS"
    )
{{
}}

section (SEC_CSF_INSTALL_SRK;
    InstallSRK_Table="{data}/rt1165_semcnand_encrypted_random/gen_hab_certs/SRK_hash.bin",
    InstallSRK_SourceIndex=0
    )
{{
}}

section (SEC_CSF_INSTALL_CSFK;
    InstallCSFK_File="{data}/crts/CSF1_1_sha256_2048_65537_v3_usr_crt.pem",
    InstallCSFK_CertificateFormat="x509"
    )
{{
}}

section (SEC_CSF_AUTHENTICATE_CSF;
    AuthenticateCsf_SignProvider="type=file;file_path={data}/keys/CSF1_1_sha256_2048_65537_v3_usr_key.pem"
    )
{{
}}

section (SEC_CSF_INSTALL_KEY;
    InstallKey_File="{data}/crts/IMG1_1_sha256_2048_65537_v3_usr_crt.pem",
    InstallKey_VerificationIndex=0,
    InstallKey_TargetIndex=2)
{{
}}

section (SEC_CSF_AUTHENTICATE_DATA;
    AuthenticateData_VerificationIndex=2,
    AuthenticateData_Engine="ANY",
    AuthenticateData_EngineConfiguration=0,
    AuthenticateData_SignProvider="type=file;file_path={data}/keys/IMG1_1_sha256_2048_65537_v3_usr_key.pem")
{{
}}

section (SEC_CSF_INSTALL_SECRET_KEY;
    SecretKey_Name="gen_hab_encrypt/dek.bin",
    SecretKey_Length={keylen},{reuse}
    SecretKey_VerifyIndex=0,
    SecretKey_TargetIndex=0)
{{
}}

section (SEC_CSF_DECRYPT_DATA;
    Decrypt_Engine="ANY",
    Decrypt_EngineConfiguration="0",
    Decrypt_VerifyIndex=0,
    Decrypt_MacBytes={mac})
{{
}}
"""


class HabArt(Art):
    def option_class(self):
        v = self.var
        return (f"keylen={v['keylen']} dcd={v['dcd']} app={v['app_len']} mac={v['mac']} reuse0={v.get('reuse0', False)} "
                f"shared_dir={v.get('shared_dir', False)}")

    def construct(self):
        from spsdk.image.hab.hab_container import HabContainer

        v = self.var
        self.invented = {"dek", "nonce"}
        d = self.dirname = self.env.dir("habproject" if v.get("shared_dir") else self.aid)
        data = self.env.hab_data()
        dcd = ""
        if v["dcd"]:
            dcd = f'    DCDFilePath = "{data}/rt1165_semcnand_encrypted_random/dcd_files/evkmimxrt1166_SDRAM_dcd.bin";\n'
        _write(os.path.join(d, "config.bd"), HAB_BD.format(dcd=dcd, data=data, keylen=v["keylen"], mac=v["mac"],
                                                              reuse="\n    SecretKey_ReuseDek=0," if v.get("reuse0") else ""))
        app = _write(os.path.join(d, "app.bin"), rb(self.rng, v["app_len"]))
        cfg = HabContainer.load_configuration(os.path.join(d, "config.bd"), [app], search_paths=[d])
        self.obj = HabContainer.load_from_config(cfg, search_paths=[d])
        self._look("construct")

    def _look(self, src):
        csf = self.obj.csf_segment
        self.see("dek", csf.dek, f"attr@{src}")
        self.see("nonce", csf.nonce, f"attr@{src}")
        p = os.path.join(self.dirname, "gen_hab_encrypt", "dek.bin")
        if self.var.get("shared_dir") and src != "construct":
            return  # in a shared project directory the key file belongs to whichever build ran last
        if os.path.isfile(p):
            with open(p, "rb") as f:
                self.see("dek", f.read(), "written-key-file")
        else:
            self.notes.append("DEK file was not written")

    def export(self):
        out = self.obj.export()
        self.exports += 1
        self._look("export")
        nonce = self.obj.csf_segment.nonce
        if isinstance(nonce, bytes) and nonce in out:
            self.see("nonce", nonce, "exported-bytes")
        else:
            self.notes.append("nonce attribute not found verbatim in the exported container")


class BootImgRtArt(Art):
    def option_class(self):
        return f"dek={self.var['dek']}"

    def construct(self):
        from spsdk.image.images import BootImgRT

        v = self.var
        img = BootImgRT(0x20000000)
        app = bytearray(rb(self.rng, v["app_len"]))
        app[4:8] = (0x20002000 | 1).to_bytes(4, "little")  # entry point word of the vector table
        if v["dek"] == "empty":
            # documented: "use empty bytes to create random key (recommended)"
            self.invented = {"dek", "nonce"}
            img.add_image(bytes(app), dek_key=b"")
        else:
            self.invented = {"nonce"}
            img.add_image(bytes(app), dek_key=rb(self.rng, 16))
        self.obj = img
        self.see("dek", img.dek_key, "attr@construct")
        self.see("nonce", getattr(img, "_nonce", None), "attr@construct")

    def export(self):  # pragma: no cover - never scheduled (nexp = 0)
        pass


class LoadHexArt(Art):
    def option_class(self):
        return f"n={self.var['n']}"

    def construct(self):
        from spsdk.utils.misc import load_hex_string

        self.invented = {"value"}
        self.obj = load_hex_string(None, self.var["n"])
        self.see("value", self.obj, "return-value")

    def export(self):  # pragma: no cover
        pass


BUILDERS = {"sb2": Sb2Art, "mbi": MbiArt, "otfad": OtfadArt, "iee": IeeArt, "bee": BeeArt, "loadhex": LoadHexArt}


def builder_for(kind: str):
    if kind == "hab_config":
        return HabArt
    if kind == "bootimgrt_add_image":
        return BootImgRtArt
    return BUILDERS[FAMILY[kind]]


# =================================================================================================================
# executing a plan (parent worker and child interpreters share this)
def run_plan(plan: dict, mon: monitors.Monitors, workdir: str) -> dict:
    """Execute the steps of a plan; returns the JSON-able history record (ledger slices are added by the caller)."""
    env = Env(workdir, plan["seed"])
    arts = [builder_for(a["kind"])(env, i, a["kind"], a["var"]) for i, a in enumerate(plan["arts"])]
    refused = []
    dead: set[int] = set()
    for aid, what in plan["steps"]:
        art = arts[aid]
        if aid in dead:
            continue
        t0 = mon.mark()
        try:
            if what == "c":
                art.construct()
            else:
                art.export()
        except Exception as e:  # pylint: disable=broad-except
            if core.is_refusal(e):
                refused.append({"aid": aid, "kind": art.kind, "step": what, "why": core.exc_brief(e)})
                dead.add(aid)
            else:
                raise
        finally:
            art.steps.append((t0, mon.mark()))
    return {"arts": [a.record() for a in arts], "refused": refused, "t_end": mon.clock.t}


def stream_replays(draws: list) -> list:
    """Rule 5 - the random source itself does not replay inside one interpreter: no 16-byte stretch of a draw occurs in
    an earlier draw (at ANY alignment: a generator that serves requests from a block it forgot to renew hands out the
    same bytes at shifted positions).  Index: every 8th 8-byte window of the earlier draws; test: every window of the
    new draw - an overlap of >= 15 bytes is always found, a chance hit has probability ~ n^2 / 2^64.
    Returns [(seq of the draw, seq of the earlier draw, offset in the draw, where, earlier where)]."""
    index: dict = {}
    out = []
    for d in draws:
        v = d.value
        if len(v) < 16:
            continue
        hit = None
        for i in range(len(v) - 7):
            e = index.get(v[i:i + 8])
            if e is not None:
                hit = (d.seq, e[0], i, d.where, e[1])
                break
        if hit:
            out.append(hit)
        for i in range(0, len(v) - 7, 8):
            index.setdefault(v[i:i + 8], (d.seq, d.where))
    return out


def ledger_json(mon: monitors.Monitors) -> dict:
    return {"draws": [d.to_json() for d in mon.rng.draws], "ctr": [c.to_json() for c in mon.ctr.calls],
            "patched": mon.patched, "ctr_unrecorded": mon.ctr.unrecorded}


# =================================================================================================================
# the offline checker
def _sb2_default_arg(d: monitors.Draw) -> bool:
    """Drawn while the class body of BootImageV20 / BootImageV21 was executed at import of sb2/images.py, i.e. while
    the default argument ``advanced_params=SBV2xAdvancedParams()`` was evaluated."""
    return d.at_import and d.import_file == "spsdk/sbfile/sb2/images.py" and \
        any(s.endswith((" BootImageV20", " BootImageV21")) for s in d.stack)


def _mbi_class_level_iv(d: monitors.Draw) -> bool:
    """Drawn by the class body of Mbi_MixinCtrInitVector (NEEDED_MEMBERS) at import of mbi_mixin.py."""
    return d.at_import and d.import_file == "spsdk/image/mbi/mbi_mixin.py" and \
        any(s.endswith(" Mbi_MixinCtrInitVector") for s in d.stack)


def classify(kind: str, name: str, value: bytes, origin: Optional[monitors.Draw], in_window: bool, repeated: bool) -> str:
    """Mechanism key decided by inspecting the case: artifact kind, attribute, where the originating draw was made."""
    base = name.split(".")[-1]
    if origin is not None and origin.at_import:
        if kind in ("sb20_default", "sb21_default") and base in ("dek", "mac", "nonce") and _sb2_default_arg(origin):
            return "sb2-default-advanced-params-shared"
        if kind == "mbi_ctor" and base == "ctr_init_vector" and _mbi_class_level_iv(origin):
            return "mbi-ctr-iv-drawn-at-import"
        return f"secret-drawn-at-import:{kind}.{base}"
    if origin is not None and not in_window:
        return f"secret-drawn-outside-construction-window:{kind}.{base}"
    if origin is None:
        if kind == "bootimgrt_add_image" and base == "dek" and value == bytes(len(value)):
            return "bootimgrt-empty-dek-key-all-zero"
        if len(value) < 8:
            return f"filler-not-drawn-in-window:{kind}.{base}"
        return f"secret-not-from-rng-repeated:{kind}.{base}"
    return f"secret-repeated:{kind}.{base}" if repeated else f"secret-unclassified:{kind}.{base}"


class Findings:
    def __init__(self) -> None:
        self.by_mech: dict[str, dict] = {}

    def add(self, mech: str, rule: str, witness: dict) -> None:
        e = self.by_mech.setdefault(mech, {"rules": [], "witnesses": [], "count": 0})
        if rule not in e["rules"]:
            e["rules"].append(rule)
        e["count"] += 1
        if len(e["witnesses"]) < 6:
            e["witnesses"].append(witness)


def _in_steps(steps, t: int) -> bool:
    return any(t0 < t < t1 for t0, t1 in steps)


def judge(draws: list, arts: list[dict], ctr_calls: list, stats: collections.Counter, case_tag: Any = None,
          prior_secrets: Optional[dict] = None, prior_blocks: Optional[dict] = None) -> Findings:
    """Rules (1)-(4) over one history.  ``draws`` is the M-RNG ledger of the whole interpreter so far."""
    fnd = Findings()
    by_len: dict[int, list] = collections.defaultdict(list)
    for d in draws:
        by_len[d.length].append(d)
    exact: dict[bytes, list] = collections.defaultdict(list)
    for d in draws:
        exact[d.value].append(d)

    def origins_of(val: bytes) -> list:
        out = list(exact.get(val, ()))
        for ln, group in by_len.items():
            if ln == len(val):
                if ln >= 8:
                    out.extend(d for d in group if d.value != val and monitors.near_equal(val, d.value))
            else:
                out.extend(d for d in group if monitors.originates(val, d.value))
        out.sort(key=lambda d: d.seq)
        return out

    # ---- collect the distinct observed secrets
    secrets = []  # dicts
    for a in arts:
        seen = {}
        for name, hx_, src in a["obs"]:
            val = bytes.fromhex(hx_)
            k = (name, val)
            if k in seen:
                seen[k]["src"].append(src)
                continue
            s = {"art": a, "name": name, "val": val, "src": [src]}
            seen[k] = s
            secrets.append(s)
    # ---- rule 3 (+ origin bookkeeping for rule 2)
    draw_users: dict[int, dict] = collections.defaultdict(dict)  # draw seq -> {aid: secret}
    for s in secrets:
        a = s["art"]
        org = origins_of(s["val"])
        s["origins"] = org
        s["in_window"] = [d for d in org if _in_steps(a["steps"], d.seq)]
        stats["rule3_secrets"] += 1
        stats["secrets_judged"] += 1
        for d in org:
            if d.length >= 8 and len(s["val"]) >= 8:
                draw_users[d.seq].setdefault(a["aid"], s)
        s["bad3"] = bool(org) and not s["in_window"]
        if len(s["val"]) < 8 and not s["in_window"]:
            s["bad3"] = True  # short fillers: judged only by "drawn inside the window"
    # ---- rule 1: pairwise over different artifacts (>= 8 bytes)
    longs = [s for s in secrets if len(s["val"]) >= 8]
    for i, s in enumerate(longs):
        s.setdefault("same_as", [])
    for i, s in enumerate(longs):
        for t in longs[i + 1:]:
            if s["art"]["aid"] == t["art"]["aid"]:
                # rule 1b: two different self-chosen secrets of ONE artifact (e.g. the key info blocks of the two BEE
                # engines) are separate draws as well: the same value in two roles means one draw served both
                if s["name"] != t["name"] and s["val"] == t["val"]:
                    stats["rule1_pairs"] += 1
                    s.setdefault("same_role", []).append(t)
                continue
            stats["rule1_pairs"] += 1
            if monitors.near_equal(s["val"], t["val"]):
                s["same_as"].append(t)
                t["same_as"].append(s)
        if prior_secrets is not None:
            p = prior_secrets.get(s["val"])
            if p is not None:
                s.setdefault("same_as_prior", []).append(p)
    # ---- rule 2: a drawn secret (>= 8 bytes) appears in at most one artifact
    shared_draws = {}
    for seq, users in draw_users.items():
        stats["rule2_draws"] += 1
        if len(users) > 1:
            shared_draws[seq] = users
            for s in users.values():
                s.setdefault("shared_draw", []).append(seq)
    # ---- emit per secret
    def brief(s):
        a = s["art"]
        return {"artifact": f"#{a['aid']} {a['kind']}", "secret": s["name"], "value": core.hx(s["val"]), "seen_at": s["src"][:4]}

    for s in secrets:
        a = s["art"]
        repeated = bool(s.get("same_as") or s.get("same_as_prior") or s.get("shared_draw"))
        if s.get("same_role"):
            t = s["same_role"][0]
            fnd.add(f"secret-shared-by-two-roles-of-one-artifact:{a['kind']}.{s['name'].split('.')[-1]}",
                    "rule1b: one self-chosen value serves two different secrets of the same artifact",
                    dict(brief(s), also=brief(t)))
        if not (s["bad3"] or repeated):
            continue
        org = s["origins"]
        origin = org[0] if org else None
        mech = classify(a["kind"], s["name"], s["val"], origin, bool(s["in_window"]), repeated)
        s["mech"] = mech
        w = brief(s)
        if origin is not None:
            w["originating_draw"] = {"seq": origin.seq, "fn": origin.fn, "where": origin.where, "at_import": origin.at_import,
                                     "import_file": origin.import_file, "stack": origin.stack[:4]}
            w["artifact_steps"] = a["steps"]
        else:
            w["originating_draw"] = None
        if s["bad3"]:
            fnd.add(mech, "rule3: secret not drawn inside the artifact's own construction window", w)
        if s.get("same_as"):
            w1 = dict(w, equals=[brief(t) for t in s["same_as"][:3]])
            fnd.add(mech, "rule1: two artifact objects share a self-chosen secret", w1)
        if s.get("same_as_prior"):
            fnd.add(mech, "rule1: secret equals one of an artifact built earlier in this interpreter", dict(w, earlier=s["same_as_prior"][:2]))
        if s.get("shared_draw"):
            fnd.add(mech, "rule2: one M-RNG draw appears in more than one artifact", dict(w, draw_seq=s["shared_draw"][:3]))
    # ---- rule 4: M-CTR keystream reuse between two artifacts, SPSDK chose the key or the nonce
    spans = sorted((t0, t1, a) for a in arts for t0, t1 in a["steps"])
    def owner(seq):
        for t0, t1, a in spans:
            if t0 < seq < t1:
                return a
        return None

    mine = []
    for c in ctr_calls:
        a = owner(c.seq)
        if a is not None:
            mine.append((c, a))
    table: dict = {}
    for c, a in mine:
        if len(c.nonce) != 16:
            continue
        base = int.from_bytes(c.nonce, "big")
        for i in range(len(c.digests) // 8):
            key = (c.key, (base + i) & ((1 << 128) - 1))
            dig = c.digests[8 * i: 8 * i + 8]
            stats["rule4_blocks"] += 1
            ent = table.setdefault(key, [])
            if not any(e[0] == dig and e[1]["aid"] == a["aid"] for e in ent):
                ent.append((dig, a, c))
            if prior_blocks is not None:
                p = prior_blocks.get(key)
                if p is not None and p[0] != dig and (p[4] or a["ctr_chosen"]):
                    _keystream(fnd, arts, secrets, a, c, key, {"earlier_case": p[1], "earlier_artifact": f"#{p[2]} {p[3]}"})
    reported = set()
    for key, ent in table.items():
        if len(ent) < 2:
            continue
        for i, (d1, a1, c1) in enumerate(ent):
            for d2, a2, c2 in ent[i + 1:]:
                if a1["aid"] == a2["aid"] or d1 == d2 or not (a1["ctr_chosen"] or a2["ctr_chosen"]):
                    continue
                pair = (a1["aid"], a2["aid"])
                if pair in reported:
                    continue
                reported.add(pair)
                _keystream(fnd, arts, secrets, a1, c1, key, {"other_artifact": f"#{a2['aid']} {a2['kind']}", "other_call": c2.where})
    if prior_blocks is not None:
        for key, ent in table.items():
            dig, a, _c = ent[0]
            prior_blocks.setdefault(key, (dig, case_tag, a["aid"], a["kind"], a["ctr_chosen"]))
    if prior_secrets is not None:
        for s in longs:
            prior_secrets.setdefault(s["val"], {"case": case_tag, "artifact": f"#{s['art']['aid']} {s['art']['kind']}", "secret": s["name"]})
    return fnd


def _keystream(fnd: Findings, arts, secrets, a, c, key, extra: dict) -> None:
    """A keystream-reuse witness is filed under the mechanism of the secret that caused it when there is one."""
    k, block = key
    blk = block.to_bytes(16, "big")
    mech = None
    for s in secrets:
        if s["art"]["aid"] != a["aid"] or "mech" not in s:
            continue
        v = s["val"]
        if v == k or (len(v) >= 8 and (blk[:8] == v[:8] or blk[:8] == v[:8][3::-1] + v[:8][7:3:-1])):
            mech = s["mech"]
            break
    if mech is None:
        mech = f"ctr-keystream-reuse:{a['kind']}"
    fnd.add(mech, "rule4: same (AES-CTR key, counter block) encrypts two different plaintext blocks",
            dict({"artifact": f"#{a['aid']} {a['kind']}", "key": core.hx(k), "counter_block": blk.hex(), "call": c.where}, **extra))


# =================================================================================================================
# cases
DIRECTED = [
    ["sb21_default", "sb21_default"],
    ["sb20_default", "sb20_default"],
    ["mbi_ctor", "mbi_ctor"],
    ["bootimgrt_add_image", "bootimgrt_add_image"],
    ["sb21_default"],
    ["mbi_ctor"],
    ["sb21_advparams", "sb21_config", "sb21_bd", "sb20_advparams", "sb21_advparams", "sb21_config"],
    ["mbi_config", "mbi_config", "hab_config", "hab_config"],
    ["otfad_keyblob", "otfad_keyblob", "iee_keyblob", "iee_keyblob", "load_hex_none", "load_hex_none"],
    ["bee_header", "bee_header", "bee_parts", "bee_parts", "bee_config", "bee_config"],
]


REPO_TESTS_QUICK = [["tests/sbfile/test_sbfile_image.py", "tests/utils/crypto/test_otfad.py", "tests/utils/crypto/test_iee.py"],
                    ["tests/image/mbi/test_mbi.py"]]
REPO_TESTS_THOROUGH = [["tests/sbfile"], ["tests/image/mbi"], ["tests/utils/crypto", "tests/image/images", "tests/image/segments"],
                       ["tests/nxpimage/test_nxpimage_sb21.py", "tests/nxpimage/test_nxpimage_bee.py", "tests/nxpimage/test_nxpimage_otfad.py",
                        "tests/nxpimage/test_nxpimage_iee.py"], ["tests/nxpimage/test_nxpimage_mbi.py"], ["tests/nxpimage/test_nxpimage_hab.py"]]


# directed witnesses are deterministic: the options that decide whether the defect shows are pinned
DIRECTED_FORCE = {"bootimgrt_add_image": {"dek": "empty"}, "mbi_ctor": {"hmac": 0, "keysource": "OTP"},
                  "hab_config": {"shared_dir": True}, "mbi_config": {"shared_cfg": True}}


FORK_CHILD = os.path.join(os.path.dirname(os.path.abspath(__file__)), "c17_fork.py")


def _case_forked(case, ctx):
    """'... in the same process or in different ones': workers FORKED from one interpreter that had SPSDK imported (and, every
    other time, had built an artifact) build independently; no self-chosen value may be shared between them (or with the parent)."""
    base = os.path.join(ctx.workdir, f"fork{ctx.case_index}")
    os.makedirs(base, exist_ok=True)
    out = os.path.join(base, "fork.json")
    try:
        try:
            r = subprocess.run([PY, FORK_CHILD, out, str(case["n"]), str(case["k"] % 2)], env=_child_env(ctx, "0", _child_cache(ctx)),
                               cwd=core.VERIF_ROOT, capture_output=True, text=True, timeout=600, check=False)
        except subprocess.TimeoutExpired as e:
            raise core.Inconclusive("fork child hit the wall-clock watchdog (600 s)") from e
        if r.returncode != 0 or not os.path.exists(out):
            raise core.Inconclusive(f"fork child failed rc={r.returncode}: {r.stderr[-400:]}")
        with open(out, encoding="utf-8") as f:
            rec = json.load(f)
    finally:
        shutil.rmtree(base, ignore_errors=True)
    if rec.get("error") or any(w.get("error") for w in rec.get("workers", [])):
        raise core.Inconclusive(f"fork child: {(rec.get('error') or [w['error'] for w in rec['workers'] if w.get('error')][0])[-600:]}")
    procs = ([("parent", rec["parent"])] if rec.get("parent") else []) + [(f"worker{i}", w) for i, w in enumerate(rec["workers"])]
    ctx.count("forked_workers", len(rec["workers"]))
    shared = []
    for name in sorted(procs[0][1]):
        seen: dict = {}
        for who, vals in procs:
            v = vals.get(name)
            if v in seen:
                shared.append((name, seen[v], who))
            seen.setdefault(v, who)
    if shared:
        ctx.violation("secret-shared-by-forked-processes:" + shared[0][0],
                      {"shared": [list(x) for x in shared[:12]], "workers": len(rec["workers"]), "parent_built_before_fork": bool(rec.get("parent"))})
    else:
        ctx.ok(["forked", case["n"], case["k"] % 2], n=len(procs), sample={"values_per_process": len(procs[0][1]), "processes": len(procs)})


def cases(tier, seed):  # noqa: ARG001
    for k in range(8 if tier == "thorough" else 2):
        yield {"kind": "forked", "k": k, "n": 3}
    for i, kinds in enumerate(DIRECTED):
        yield {"kind": "directed", "k": i, "kinds": kinds, "force": DIRECTED_FORCE}
    n_hist = 600 if tier == "thorough" else 80
    for k in range(n_hist):
        yield {"kind": "history", "k": k, "n": 2 + (k * 7 + 3) % 11}
    n_groups = 100 if tier == "thorough" else 4
    for k in range(n_groups):
        yield {"kind": "restarts", "k": k, "children": 4}
    for k, mods in enumerate(REPO_TESTS_THOROUGH if tier == "thorough" else REPO_TESTS_QUICK):
        yield {"kind": "repo_tests", "k": k, "modules": mods}
    for k in range(6 if tier == "thorough" else 1):
        yield {"kind": "rng_stream", "k": k, "n": 8000 if tier == "thorough" else 1600, "min_bytes": 300_000 if tier == "thorough" else 60_000}


def selftest(ctx):  # noqa: ARG001
    """Ground truth that SPSDK did not produce: synthetic ledgers for the checker, SP 800-38A for the CTR expansion."""
    out: dict[str, Any] = {}
    # 1. the checker on hand-made histories
    D = monitors.Draw

    def art(aid, kind, steps, obs, chosen=False):
        return {"aid": aid, "kind": kind, "steps": steps, "obs": [[n, v.hex(), "synthetic"] for n, v in obs], "ctr_chosen": chosen,
                "invented": [n for n, _ in obs], "exports": 1, "sig": [kind], "notes": []}

    v1, v2, v3 = bytes(range(32)), bytes(range(100, 132)), bytes(range(50, 66))
    nonce = bytearray(v3)
    nonce[9] &= 0x7F
    nonce[13] &= 0x7F
    st = collections.Counter()
    clean = judge([D(2, "random_bytes", v1, "x:1 f", False, "", []), D(3, "random_bytes", v3, "x:2 f", False, "", []),
                   D(6, "random_bytes", v2, "x:1 f", False, "", []), D(9, "random_bytes", b"\x01\x02\x03\x04", "x:3 f", False, "", [])],
                  [art(0, "sb21_advparams", [(1, 4), (8, 10)], [("dek", v1), ("nonce", bytes(nonce)), ("filler", b"\x01\x02\x03\x04")]),
                   art(1, "sb21_advparams", [(5, 7)], [("dek", v2)])], [], st)
    if clean.by_mech:
        raise AssertionError(f"checker flags a clean history: {list(clean.by_mech)}")
    imp = judge([D(1, "random_bytes", v1, "spsdk/sbfile/sb2/images.py:85 __init__", True, "spsdk/sbfile/sb2/images.py",
                   ["spsdk/sbfile/sb2/images.py:85 __init__", "spsdk/sbfile/sb2/images.py:509 BootImageV21",
                    "spsdk/sbfile/sb2/images.py:490 <module>"])],
                [art(0, "sb21_default", [(2, 3)], [("dek", v1)])], [], st)
    if list(imp.by_mech) != ["sb2-default-advanced-params-shared"]:
        raise AssertionError(f"import-time draw not classified: {list(imp.by_mech)}")
    shared = judge([D(2, "random_bytes", v1, "x:1 f", False, "", [])],
                   [art(0, "otfad_keyblob", [(1, 3)], [("key", v1)]), art(1, "otfad_keyblob", [(4, 5)], [("key", v1)])], [], st)
    if not any("rule1" in r for e in shared.by_mech.values() for r in e["rules"]) or \
            not any("rule2" in r for e in shared.by_mech.values() for r in e["rules"]) or \
            not any("rule3" in r for e in shared.by_mech.values() for r in e["rules"]):
        raise AssertionError("shared secret not flagged by rules 1, 2 and 3")
    const = judge([], [art(0, "iee_keyblob", [(1, 3)], [("key1", v1)]), art(1, "iee_keyblob", [(4, 5)], [("key1", v1)])], [], st)
    if list(const.by_mech) != ["secret-not-from-rng-repeated:iee_keyblob.key1"]:
        raise AssertionError(f"constant secret: {list(const.by_mech)}")
    lone = judge([], [art(0, "iee_keyblob", [(1, 3)], [("key1", v1)])], [], st)
    if lone.by_mech:
        raise AssertionError("a lone secret without RNG origin must not be flagged")
    fill = judge([D(1, "random_bytes", b"\x01\x02\x03\x04", "x:3 f", False, "", [])],
                 [art(0, "otfad_keyblob", [(2, 3)], [("filler", b"\x01\x02\x03\x04")])], [], st)
    if list(fill.by_mech) != ["secret-drawn-outside-construction-window:otfad_keyblob.filler"]:
        raise AssertionError(f"filler drawn outside window: {list(fill.by_mech)}")
    C = monitors.CtrCall
    dg = lambda b: __import__("hashlib").blake2b(b, digest_size=8).digest()  # noqa: E731
    ks = judge([D(2, "random_bytes", v3, "x:1 f", False, "", []), D(6, "random_bytes", v3[::-1], "x:1 f", False, "", [])],
               [art(0, "mbi_config", [(1, 4)], [("ctr_init_vector", v3)], True), art(1, "mbi_config", [(5, 9)], [("ctr_init_vector", v3[::-1])], True)],
               [C(3, "enc", v1[:16], v3, 16, dg(b"A" * 16), "x:9 enc"), C(7, "enc", v1[:16], v3, 16, dg(b"B" * 16), "x:9 enc"),
                C(8, "enc", v1[:16], v3[::-1], 16, dg(b"B" * 16), "x:9 enc")], st)
    if list(ks.by_mech) != ["ctr-keystream-reuse:mbi_config"]:
        raise AssertionError(f"keystream reuse: {list(ks.by_mech)}")
    out["checker_scenarios"] = 7
    # 2. CTR block expansion against SP 800-38A F.5.1 computed with the pure-Python AES
    key = bytes.fromhex("2b7e151628aed2a6abf7158809cf4f3c")
    ctr0 = bytes.fromhex("f0f1f2f3f4f5f6f7f8f9fafbfcfdfeff")
    pt = bytes.fromhex("6bc1bee22e409f96e93d7e117393172aae2d8a571e03ac9c9eb76fac45af8e51")
    ct = bytes.fromhex("874d6191b620e3261bef6864990db6ce9806f66b7970fdff8617187bb9fffdff")
    for i in range(2):
        blk = ((int.from_bytes(ctr0, "big") + i) & ((1 << 128) - 1)).to_bytes(16, "big")
        ksb = refmodes.ecb_encrypt(key, blk)
        if bytes(x ^ y for x, y in zip(ksb, pt[16 * i:16 * i + 16])) != ct[16 * i:16 * i + 16]:
            raise AssertionError("CTR counter-block expansion (128-bit big-endian increment) disagrees with SP 800-38A")
    if refmodes.ctr_crypt(key, ctr0, pt) != ct:
        raise AssertionError("reference CTR disagrees with SP 800-38A")
    out["sp800_38a_ctr_blocks"] = 2
    # 3. the installed recorders see the real functions (known answer through the wrapper, aliases included)
    if MON is not None:
        from spsdk.crypto.symmetric import aes_ctr_encrypt
        from spsdk.utils.misc import load_hex_string

        n0, c0 = len(MON.rng.draws), len(MON.ctr.calls)
        got = aes_ctr_encrypt(key, pt, ctr0)
        val = load_hex_string(None, 16)
        if got != ct:
            raise AssertionError("aes_ctr_encrypt through the recorder: wrong known answer")
        if len(MON.ctr.calls) != c0 + 1 or MON.ctr.calls[-1].nonce != ctr0 or len(MON.ctr.calls[-1].digests) != 16:
            raise AssertionError("M-CTR did not record the call")
        if len(MON.rng.draws) != n0 + 1 or MON.rng.draws[-1].value != val or "misc.py" not in MON.rng.draws[-1].where:
            raise AssertionError("M-RNG did not record load_hex_string(None, 16) through the pre-bound alias")
        carry = bytes(8) + b"\xff" * 8  # the increment carries through all 128 bits: the expansion relies on it
        got2 = aes_ctr_encrypt(key, bytes(32), carry)
        want2 = refmodes.ecb_encrypt(key, carry) + refmodes.ecb_encrypt(key, (int.from_bytes(carry, "big") + 1).to_bytes(16, "big"))
        if got2 != want2:
            raise AssertionError("counter increment of the real CTR mode is not a 128-bit big-endian add")
        out["recorders_live"] = True
        out["patched"] = [p for p in MON.patched if not p.startswith("spsdk modules")]
    return out


# =================================================================================================================
def _report(ctx, fnd: Findings, record: dict, where: str) -> None:
    for mech, e in sorted(fnd.by_mech.items()):
        ctx.violation(mech, {"where": where, "rules": e["rules"], "observations": e["count"], "witnesses": e["witnesses"]})
    flagged_arts = set()
    for e in fnd.by_mech.values():
        for w in e["witnesses"]:
            flagged_arts.add(w.get("artifact"))
    for a in record["arts"]:
        nsec = len({(n, v) for n, v, _ in a["obs"]})
        if not nsec:
            continue
        ctx.count("fam_" + FAMILY[a["kind"]])
        if any(n.endswith("filler") for n, _, _ in a["obs"]):
            ctx.count("fam_filler")
        if f"#{a['aid']} {a['kind']}" in flagged_arts:
            continue
        ctx.ok(a["sig"], n=nsec, nontrivial=a["exports"] > 0 or a["kind"] in ("bootimgrt_add_image", "load_hex_none"),
               sample={"where": where, "artifact": a["kind"], "secrets": sorted({n for n, _, _ in a["obs"]}),
                       "sources": sorted({s.split("@")[0] for _, _, s in a["obs"]}), "steps": a["steps"]})
    for r in record.get("refused", []):
        ctx.refused([r["kind"], r["step"]], r["why"])
    for a in record["arts"]:
        for note in a["notes"]:
            ctx.note("artifact_notes", f"{a['kind']}: {note}")


def _run_history(case, ctx, kinds):
    assert MON is not None
    plan = make_plan(ctx.rng, kinds, f"{ctx.seed}/{ID}/{ctx.case_index}", force=case.get("force"))
    d0, c0 = len(MON.rng.draws), len(MON.ctr.calls)
    wd = os.path.join(ctx.workdir, f"case{ctx.case_index}")
    try:
        record = run_plan(plan, MON, wd)
    finally:
        shutil.rmtree(wd, ignore_errors=True)
    stats: collections.Counter = collections.Counter()
    fnd = judge(MON.rng.draws, record["arts"], MON.ctr.calls[c0:], stats, case_tag=ctx.case_index,
                prior_secrets=_PRIOR_SECRETS, prior_blocks=_PRIOR_BLOCKS)
    ctx.count("mrng_draws", len(MON.rng.draws) - d0)
    ctx.count("mctr_calls", len(MON.ctr.calls) - c0)
    ctx.count("histories")
    for k, v in stats.items():
        ctx.count(k, v)
    for d in MON.rng.draws[d0:]:
        if d.length >= 8:
            other = _SEEN_VALUES.get(d.value)
            if other is not None:
                fnd.add("rng-output-repeated", "M-RNG returned the same >= 8-byte value twice",
                        {"value": core.hx(d.value), "drawn_at": d.where, "seq": d.seq, "also": other})
            _SEEN_VALUES.setdefault(d.value, f"worker draw #{d.seq} {d.where}")
    _report(ctx, fnd, record, f"in-process history of {len(kinds)} constructions, {len(plan['steps'])} steps")
    ctx.ok(["history", len(kinds), len({FAMILY[k] for k in kinds})], n=1,
           sample={"kinds": kinds, "steps": plan["steps"][:24], "draws": len(MON.rng.draws) - d0, "ctr_calls": len(MON.ctr.calls) - c0})


def _child_env(ctx, hashseed: str, cache: str) -> dict:
    env = dict(os.environ)
    env.update({core.GUARD: "1", "PYTHONHASHSEED": hashseed, "PYTHONPATH": f"{core.repo_root()}:{core.VERIF_ROOT}",
                "SPSDK_CACHE_FOLDER": cache, "SPSDK_DEBUG_LOGGING_DISABLED": "1", "VERIF_REPO": core.repo_root(),
                "PYTHONDONTWRITEBYTECODE": "1", "HOME": ctx.workdir})
    env.pop("SPSDK_CACHE_DISABLED", None)
    return env


def _child_cache(ctx) -> str:
    """Private SPSDK cache folder for the child interpreters of this worker; they run one after the other, so nothing
    ever reads a half-written cache file (copying the shared warmed folder raced with the other shard workers)."""
    cache = os.path.join(ctx.workdir, "child_cache")
    os.makedirs(cache, exist_ok=True)
    return cache


def _run_restarts(case, ctx):
    rng = ctx.rng
    k = case["children"]
    # every kind once plus a few repeats, sequential and interleaved plans alternate
    kinds = list(ALL_KINDS)
    rng.shuffle(kinds)
    kinds = kinds[: core.pick(rng, [8, 10, 12])] + ["sb21_default", "mbi_ctor"]
    rng.shuffle(kinds)
    plan = make_plan(rng, kinds, f"{ctx.seed}/{ID}/{ctx.case_index}/restart", interleave=case["k"] % 2 == 0)
    base = os.path.join(ctx.workdir, f"restart{ctx.case_index}")
    os.makedirs(base, exist_ok=True)
    cache = _child_cache(ctx)
    spec = os.path.join(base, "plan.json")
    with open(spec, "w", encoding="utf-8") as f:
        json.dump(plan, f)
    seeds = ["0", "0", str(rng.randrange(1, 2**32)), str(rng.randrange(1, 2**32))][:k] + [str(rng.randrange(2**32)) for _ in range(max(0, k - 4))]
    records = []
    try:
        for j in range(k):
            out = os.path.join(base, f"child{j}.json")
            try:
                r = subprocess.run([PY, CHILD, spec, out, os.path.join(base, f"w{j}")], env=_child_env(ctx, seeds[j], cache),
                                   cwd=core.VERIF_ROOT, capture_output=True, text=True, timeout=600, check=False)
            except subprocess.TimeoutExpired as e:
                raise core.Inconclusive(f"child interpreter {j} hit the wall-clock watchdog (600 s)") from e
            if r.returncode != 0 or not os.path.exists(out):
                raise core.Inconclusive(f"child interpreter {j} failed rc={r.returncode}: {r.stderr[-400:]}")
            with open(out, encoding="utf-8") as f:
                rec = json.load(f)
            if rec.get("error"):
                raise core.Inconclusive(f"child interpreter {j}: {rec['error'][-900:]}")
            rec["hashseed"] = seeds[j]
            records.append(rec)
            ctx.count("restarts")
    finally:
        shutil.rmtree(base, ignore_errors=True)
    # each child's own history under rules (1)-(4)
    for j, rec in enumerate(records):
        draws = [monitors.Draw.from_json(d) for d in rec["draws"]]
        calls = [monitors.CtrCall.from_json(c) for c in rec["ctr"]]
        rec["_draws"] = draws
        stats: collections.Counter = collections.Counter()
        fnd = judge(draws, rec["arts"], calls, stats)
        for kk, v in stats.items():
            ctx.count(kk, v)
        ctx.count("mrng_draws", len(draws))
        ctx.count("mctr_calls", len(calls))
        _report(ctx, fnd, rec, f"child interpreter {j} of {k} (PYTHONHASHSEED={seeds[j]})")
        _report_replays(ctx, draws, f"child interpreter {j} of {k}")
    # across interpreters: corresponding secrets, any secret, any >= 8-byte draw
    fnd = Findings()
    pairs = 0
    for i in range(len(records)):
        for j in range(i + 1, len(records)):
            ri, rj = records[i], records[j]
            for ai, aj in zip(ri["arts"], rj["arts"]):
                si = {(n, v) for n, v, _ in ai["obs"] if len(v) >= 16}
                sj = {(n, v) for n, v, _ in aj["obs"] if len(v) >= 16}
                for n1, v1 in si:
                    for n2, v2 in sj:
                        pairs += 1
                        b1, b2 = bytes.fromhex(v1), bytes.fromhex(v2)
                        if monitors.near_equal(b1, b2):
                            mech = "bootimgrt-empty-dek-key-all-zero" if (ai["kind"] == "bootimgrt_add_image" and n1 == "dek" and b1 == bytes(len(b1))) \
                                else f"secret-repeated-across-interpreters:{ai['kind']}.{n1.split('.')[-1]}"
                            fnd.add(mech, "cross-interpreter: two fresh processes produced the same self-chosen secret",
                                    {"artifact": f"#{ai['aid']} {ai['kind']}", "secret": n1, "other_secret": n2, "value": core.hx(b1),
                                     "children": [i, j], "hashseeds": [seeds[i], seeds[j]]})
    for j, rec in enumerate(records):
        tag = f"case {ctx.case_index} child {j}"
        mine = {}
        for d in rec["_draws"]:
            if d.length >= 8:
                mine.setdefault(d.value, d)
        for val, d in mine.items():
            pairs += 1
            other = _SEEN_VALUES.get(val)
            if other is not None:
                fnd.add("rng-output-repeated-across-interpreters", "cross-interpreter: M-RNG ledgers are not disjoint",
                        {"value": core.hx(val), "drawn_at": d.where, "child": j, "also": other})
        for val, d in mine.items():
            _SEEN_VALUES.setdefault(val, f"{tag} draw #{d.seq} {d.where}")
    ctx.count("xproc_pairs", pairs)
    for mech, e in sorted(fnd.by_mech.items()):
        ctx.violation(mech, {"rules": e["rules"], "observations": e["count"], "witnesses": e["witnesses"]})
    if not fnd.by_mech:
        ctx.ok(["restarts", k, "hashseeds same+different", "interleaved" if case["k"] % 2 == 0 else "sequential"], n=pairs,
               sample={"children": k, "hashseeds": seeds, "kinds": kinds, "draws_per_child": [len(r["draws"]) for r in records],
                       "import_time_draws_per_child": [sum(1 for d in r["draws"] if d["at_import"]) for r in records]})


def _used_by(call: monitors.CtrCall, d: monitors.Draw) -> bool:
    """An M-RNG value serves as AES-CTR key or as the nonce part of the counter block of this call."""
    v = d.value
    if v == call.key:
        return True
    if len(v) < 8 or len(call.nonce) != 16:
        return False
    n = min(12, len(v))
    return monitors.near_equal(call.nonce[:n], v[:n])


def _run_repo_tests(case, ctx):
    """DESIGN 1.2a: the repository's own tests under M-RNG / M-CTR (pytest plugin in vf/monitors.py).

    Without artifact windows two things are still decidable from a ledger alone: a value drawn *while an spsdk module
    was being imported* that later serves as AES-CTR key or nonce is shared by every object that did not get its own
    (rule 3), and M-RNG must not return the same >= 8-byte value twice.  Keystream reuse between test objects is only
    noted: the tests share keys on purpose.  The tests' own verdicts are irrelevant."""
    repo = core.repo_root()
    mods = [m for m in case["modules"] if os.path.exists(os.path.join(repo, m))]
    missing = [m for m in case["modules"] if m not in mods]
    if missing:
        ctx.note("repo_tests_missing", missing)
    if not mods:
        ctx.ok(["repo-tests", "absent"], nontrivial=False)
        return
    base = os.path.join(ctx.workdir, f"repotests{ctx.case_index}")
    os.makedirs(base, exist_ok=True)
    env = _child_env(ctx, "0", _child_cache(ctx))
    env[monitors.DUMP_ENV] = os.path.join(base, "dump")
    env["HOME"] = base
    try:
        try:
            r = subprocess.run([PY, "-m", "pytest", "-q", "-p", "no:cacheprovider", "-p", "vf.monitors",
                                "--basetemp", os.path.join(base, "tmp"), *mods],
                               env=env, cwd=repo, capture_output=True, text=True, timeout=2400, check=False)
        except subprocess.TimeoutExpired as e:
            raise core.Inconclusive("repository tests under the monitors hit the wall-clock watchdog") from e
        dumps = []
        for fn in sorted(os.listdir(base)):
            if fn.startswith("dump.") and fn.endswith(".json"):
                with open(os.path.join(base, fn), encoding="utf-8") as f:
                    dumps.append(json.load(f))
    finally:
        shutil.rmtree(base, ignore_errors=True)
    tail = (r.stdout or "").strip().splitlines()[-1:] or [""]
    ctx.note("repo_tests_result", f"{' '.join(mods)}: rc={r.returncode} {tail[0][:160]}")
    if not dumps:
        raise core.Inconclusive(f"no ledger dumped by pytest rc={r.returncode}: {(r.stderr or r.stdout)[-300:]}")
    fnd = Findings()
    judged = 0
    reuse_notes = 0
    for dump in dumps:
        draws = [monitors.Draw.from_json(d) for d in dump["draws"]]
        calls = [monitors.CtrCall.from_json(c) for c in dump["ctr"]]
        ctx.count("mrng_draws", len(draws))
        ctx.count("mctr_calls", len(calls))
        ctx.count("repo_test_ledgers")
        seen: dict = {}
        for d in draws:
            if d.length < 8:
                continue
            judged += 1
            if d.value in seen:
                fnd.add("rng-output-repeated", "M-RNG returned the same >= 8-byte value twice",
                        {"value": core.hx(d.value), "drawn_at": d.where, "also": seen[d.value].where})
            seen.setdefault(d.value, d)
        for d in draws:
            if not d.at_import or d.length < 8:
                continue
            users = [c for c in calls if c.op == "enc" and _used_by(c, d)]
            judged += 1
            if users:
                if _sb2_default_arg(d):
                    mech = "sb2-default-advanced-params-shared"
                elif _mbi_class_level_iv(d):
                    mech = "mbi-ctr-iv-drawn-at-import"
                else:
                    mech = f"import-time-secret-used-for-encryption:{d.import_file}"
                fnd.add(mech, "rule3: a value drawn while the module was imported serves as AES-CTR key / nonce of an artifact",
                        {"workload": "repository tests " + " ".join(mods), "value": core.hx(d.value), "drawn_at": d.where,
                         "stack": d.stack[:4], "encrypt_calls_using_it": len(users), "first_call": users[0].where})
        table = monitors.CtrLedger.expand(c for c in calls if c.op == "enc")
        drawn = {d.value for d in draws if d.length >= 8}
        for (key, _blk), ent in table.items():
            if len({e[0] for e in ent}) > 1 and key in drawn:
                reuse_notes += 1
    if reuse_notes:
        ctx.note("repo_tests_keystream_reuse_with_drawn_key_blocks (not judged: tests share objects on purpose)", reuse_notes)
    for mech, e in sorted(fnd.by_mech.items()):
        ctx.violation(mech, {"where": "repository tests under M-RNG/M-CTR", "rules": e["rules"], "observations": e["count"],
                             "witnesses": e["witnesses"]})
    if not fnd.by_mech:
        ctx.ok(["repo-tests", " ".join(mods)], n=max(1, judged),
               sample={"modules": mods, "pytest": tail[0][:120], "ledgers": len(dumps), "draws": sum(len(d["draws"]) for d in dumps),
                       "ctr_calls": sum(len(d["ctr"]) for d in dumps)})


def run_case(case, ctx):
    if MON is None:
        raise core.Inconclusive("monitors not installed")
    kind = case["kind"]
    if kind == "directed":
        return _run_history(case, ctx, list(case["kinds"]))
    if kind == "history":
        return _run_history(case, ctx, pick_kinds(ctx.rng, case["n"]))
    if kind == "restarts":
        return _run_restarts(case, ctx)
    if kind == "repo_tests":
        return _run_repo_tests(case, ctx)
    if kind == "rng_stream":
        return _run_rng_stream(case, ctx)
    if kind == "forked":
        return _case_forked(case, ctx)
    raise core.Inconclusive(f"unknown case kind {kind}")


def _report_replays(ctx, draws: list, who: str) -> None:
    ctx.count("rng_stream_bytes_checked", sum(d.length for d in draws if d.length >= 16))
    rep = stream_replays(draws)
    if rep:
        seq, earlier, off, where, ewhere = rep[0]
        ctx.violation("rng-output-replayed-within-one-interpreter",
                      {"interpreter": who, "replayed_draws": len(rep), "first": {"draw": seq, "earlier_draw": earlier, "offset": off,
                                                                               "site": where, "earlier_site": ewhere},
                       "bytes_drawn": sum(d.length for d in draws)})


def _run_rng_stream(case, ctx):
    """One fresh interpreter builds cheap artifacts until far more random bytes were drawn than any plausible buffer
    holds; the whole M-RNG ledger of that interpreter is checked for replays (rule 5)."""
    rng = ctx.rng
    kinds = []
    for _ in range(case["n"]):
        kinds.append(core.pick(rng, ["iee_keyblob", "iee_keyblob", "otfad_keyblob", "sb21_advparams", "sb20_advparams", "bee_header", "load_hex_none"]))
    plan = make_plan(rng, kinds, f"{ctx.seed}/{ID}/{ctx.case_index}/stream", interleave=False)
    base = os.path.join(ctx.workdir, f"stream{ctx.case_index}")
    os.makedirs(base, exist_ok=True)
    spec, out = os.path.join(base, "plan.json"), os.path.join(base, "child.json")
    with open(spec, "w", encoding="utf-8") as f:
        json.dump(plan, f)
    try:
        try:
            r = subprocess.run([PY, CHILD, spec, out, os.path.join(base, "w")], env=_child_env(ctx, "0", _child_cache(ctx)),
                               cwd=core.VERIF_ROOT, capture_output=True, text=True, timeout=900, check=False)
        except subprocess.TimeoutExpired as e:
            raise core.Inconclusive("stream child hit the wall-clock watchdog (900 s)") from e
        if r.returncode != 0 or not os.path.exists(out):
            raise core.Inconclusive(f"stream child failed rc={r.returncode}: {r.stderr[-400:]}")
        with open(out, encoding="utf-8") as f:
            rec = json.load(f)
    finally:
        shutil.rmtree(base, ignore_errors=True)
    if rec.get("error"):
        raise core.Inconclusive(f"stream child: {rec['error'][-900:]}")
    draws = [monitors.Draw.from_json(d) for d in rec["draws"]]
    calls = [monitors.CtrCall.from_json(c) for c in rec["ctr"]]
    total = sum(d.length for d in draws)
    if total < case["min_bytes"]:
        raise core.Inconclusive(f"stream child drew only {total} bytes (wanted >= {case['min_bytes']})")
    ctx.count("rng_stream_children")
    v0 = ctx._viol_in_case  # pylint: disable=protected-access
    _report_replays(ctx, draws, "fresh interpreter, one long batch")
    # (the pairwise rules (1)-(4) are quadratic in the number of artifacts; they are judged on the ordinary histories)
    del calls
    if ctx._viol_in_case == v0:  # pylint: disable=protected-access
        ctx.ok(["rng_stream", total // 16384], sample={"artifacts": len(rec["arts"]), "draws": len(draws), "bytes_drawn": total})


def finish(ctx):
    if MON is None:
        return
    # rule 5 over everything this worker's interpreter drew (all its histories together)
    _report_replays(ctx, list(MON.rng.draws), "check worker (all histories of the shard)")
    imp = [d for d in MON.rng.draws if d.at_import]
    ctx.note("import_time_draws", sorted({f"{d.where} ({d.length} bytes)" for d in imp}))
    ctx.note("draw_sites", sorted({d.where.split(":")[0] for d in MON.rng.draws})[:40])
    ctx.count("import_time_draws_seen", len(imp))
    if MON.ctr.unrecorded:
        ctx.note("mctr_unrecorded_calls", MON.ctr.unrecorded)
