"""C05 - Secure Binary 3.1: hash chain, block keys and commands decode to the input.

Runtime monitoring: the real ``SecureBinary31`` (API path, ``load_from_config`` path for every family
of the database, ``nxpimage sb31 export`` through CliRunner) builds containers from generated inputs;
every exported file - also the 2nd and 3rd ``export()`` of one object - is handed to the independent
loader model ``vf.refs.sb31_rom`` which is told only the *device state* (fused RKTH, PCK, KDK access
rights, whether the device decrypts).  The model must accept, the decoded commands / manifest fields /
certificate-block facts must equal the inputs, the bytes handed to the signer (M-SIGN) must be the
region the model authenticates, and every single-bit flip of the file must make the model reject.
"""
from __future__ import annotations

import json
import os
import struct

from vf import core, pki
from vf.refs import sb31_rom as rom

ID = "C05"
ROTATING_PKI = 0.3  # fraction of the key / certificate paths that are rotating slots (vf/pki.py)
DECOY_CWD = True  # the worker runs in a directory that holds other bytes under every input file name (vf/worker.py)
LEVEL = "exploration"
TECHNIQUE = "runtime monitoring: independent ROM-loader model over exported files + signer hook + bit-flip sweep"
RULE = (
    "command lists over all 14 SB3.1 command classes with boundary/random field values; the last load length is chosen so "
    "that the command data ends at every offset mod 256 (quick: each offset once, thorough: each offset x block counts 1..12); "
    "P-256/P-384 root sets of 1..4 keys from the committed pool, every used index, no ISK / ISK on the same / other curve, "
    "ISK user data 0..96 B; PCK 128/256 bit; KDK access rights 0..3; encrypted and plain; description length 0..20; "
    "boundary timestamps / firmware versions / flags; API path, load_from_config path for every family of the database "
    "(all config spellings: file / values / value, numbers as int / decimal / hex strings, certBlock as YAML or binary), "
    "nxpimage sb31 export through CliRunner; each object exported 1..3 times, optionally with a command added in between. "
    "A case signature is (path, curves, roots, ISK kind, encryption, PCK size, rights, block count, end offset mod 256, "
    "export index); non-trivial = export succeeded and the loader model processed the file."
)
ASSUMPTIONS = [
    "the loader is modelled from the format description in DESIGN.md Appendix A (vf/refs/sb31_rom.py); PCK, KDK access "
    "rights, the fused RKTH and whether the device decrypts are device state, not file content",
    "the 'hash of next block' field of the LAST data block has no successor and is not interpreted (SPSDK writes zeros on "
    "the first export and a stale hash on later ones); it is covered by the block's own hash",
    "alignment padding inside commands and behind the section is required to be zero (format description: zero padded)",
    "programFuses data is a whole number of 32-bit words; key-blob offset and wrap id are 16-bit; `value:` loads are judged "
    "as a little-endian number (the width is not documented)",
    "load with `values: 0` / `value: 0` is refused by SPSDK (falsy) - counted as a refusal, not judged",
    "keys are consistent (the root private key that signs the ISK certificate belongs to the used root certificate)",
]
REQUIRED_COUNTERS = [
    "exports_judged", "model_accepted", "commands_compared", "manifest_compared", "certblock_compared",
    "msign_compared", "bitflips", "reexports_judged", "cfg_path_exports", "cli_exports", "negative_controls", "wrong_signer_refused",
]
CASE_TIMEOUT_S = 3000  # wall clock, generous: the machine may be shared
WATCHDOG_S = {"quick": 3000, "thorough": 14400}

CURVES = ("p256", "p384")
HASHLEN = {"p256": 32, "p384": 48}
HASHNAME = {"p256": "sha256", "p384": "sha384"}
COUNTER_IDS = {"none": 0, "nonsecure": 1, "secure": 2, "radio": 3, "snt": 4, "bootloader": 5}
KEY_WRAPS = {1: {"NXP_CUST_KEK_INT_SK": 16, "NXP_CUST_KEK_EXT_SK": 17}, 2: {"NXP_CUST_KEK_INT_SK": 18, "NXP_CUST_KEK_EXT_SK": 19}}
ALL_CMDS = ("erase", "load", "execute", "call", "programFuses", "programIFR", "loadCMAC", "copy", "loadHashLocking",
            "loadKeyBlob", "configureMemory", "fillMemory", "checkFwVersion", "reset")
LOAD_LIKE = ("load", "programIFR", "loadCMAC", "loadHashLocking", "loadKeyBlob")
GOLDEN_BASE = "tests/nxpimage/data"

SIGN_LOG: list[dict] = []  # M-SIGN records of the current case


# ------------------------------------------------------------------------------------------ cases
def cases(tier, seed):  # noqa: ARG001
    thorough = tier == "thorough"
    # directed witnesses / boundary cases first (cheap, deterministic)
    yield {"kind": "all14"}
    yield {"kind": "reexport_witness"}
    yield {"kind": "timestamp_zero"}
    yield {"kind": "pck_leading_zeros"}
    yield {"kind": "zero_value_loads"}
    # API path: every end offset mod 256 (x block counts in the thorough tier)
    block_targets = list(range(1, 13)) if thorough else [None]
    k = 0
    for nb in block_targets:
        for end in range(256):
            yield {"kind": "api", "end": end, "blocks": nb if nb else 1 + (end * 7 + 3) % 12, "k": k}
            k += 1
    # configuration path: every family of the database (index resolved at run time)
    per_family = 60 if thorough else 4
    for rep in range(per_family):
        for fam in range(31):
            yield {"kind": "cfg", "fam": fam, "rep": rep}
    yield {"kind": "cfg_extra_families"}  # families beyond the 31 known at design time, if the database grew
    for k in range(96 if thorough else 16):
        yield {"kind": "cli", "k": k}
    for k in range(200 if thorough else 2):
        yield {"kind": "bitflip_full", "k": k}
    for k in range(240 if thorough else 24):
        yield {"kind": "wrong_signer", "k": k}


# --------------------------------------------------------------------------------------- monitors
def install_monitors(ctx):  # noqa: ARG001
    """M-SIGN: record the exact bytes handed to the signer and what came back."""
    if not os.environ.get(core.GUARD):
        return
    from spsdk.crypto import keys as _keys
    from spsdk.crypto.signature_provider import SignatureProvider

    if getattr(_keys.PrivateKeyEcc.sign, "_vf_c05", False):
        return
    orig_sign = _keys.PrivateKeyEcc.sign

    def sign(self, data, *a, **kw):
        sig = orig_sign(self, data, *a, **kw)
        try:
            nums = self.key.private_numbers().public_numbers
            SIGN_LOG.append({"hook": "key", "x": nums.x, "y": nums.y, "bits": self.key.curve.key_size, "data": bytes(data),
                             "sig": bytes(sig), "prehashed": bool(kw.get("prehashed", False)),
                             "algorithm": getattr(kw.get("algorithm"), "label", None)})
        except Exception:  # pylint: disable=broad-except  (the hook must never disturb the code under test)
            SIGN_LOG.append({"hook": "key", "broken": True})
        return sig

    sign._vf_c05 = True  # type: ignore[attr-defined]
    _keys.PrivateKeyEcc.sign = sign  # type: ignore[method-assign]
    orig_get = SignatureProvider.get_signature

    def get_signature(self, data, *a, **kw):
        sig = orig_get(self, data, *a, **kw)
        SIGN_LOG.append({"hook": "provider", "data": bytes(data), "sig": bytes(sig)})
        return sig

    SignatureProvider.get_signature = get_signature  # type: ignore[method-assign]


# ------------------------------------------------------------------------------------- key material
def xy(name: str) -> bytes:
    x, y = pki.ecc_pub_bytes(name)
    return x + y


def pick_keys(rng, root_curve=None, isk_kind=None, n_roots=None, used=None):
    """Root set / ISK choice from the committed pool; returns the *environment* the device would have."""
    root_curve = root_curve or core.pick(rng, CURVES)
    n_roots = n_roots or core.pick(rng, [1, 2, 3, 4])
    pool = pki.names(root_curve)
    order = list(range(len(pool)))
    rng.shuffle(order)
    roots = [pool[i] for i in order[:n_roots]]
    used = rng.randrange(n_roots) if used is None else used % n_roots
    isk_kind = isk_kind or core.pick(rng, ["none", "none", "same", "same", "other"])
    isk = None
    if isk_kind != "none":
        icurve = root_curve if isk_kind == "same" else [c for c in CURVES if c != root_curve][0]
        cand = [n for n in pki.names(icurve) if n not in roots]
        isk = core.pick(rng, cand)
    user_data = b""
    if isk and rng.random() < 0.6:
        user_data = core.rand_bytes(rng, 4 * core.pick(rng, [1, 2, 3, 8, 16, 23, 24]))
    constraints = core.pick(rng, [0, 0, 1, 7, 0xFFFF, 0xFFFFFFFF, rng.getrandbits(32)]) if isk else 0
    signer = isk or roots[used]
    return {
        "root_curve": root_curve, "roots": roots, "used": used, "isk": isk, "isk_kind": isk_kind, "user_data": user_data,
        "constraints": constraints, "signer": signer, "sign_curve": pki.kind_of(signer),
        "rkth": rom.rkth_of(root_curve, [xy(n) for n in roots]),
    }


def gen_container_params(rng, keys):
    enc = rng.random() < 0.7
    pck = None
    if enc:
        n = core.pick(rng, [16, 32])
        pck = core.pick(rng, [core.rand_bytes(rng, n)] * 6 + [bytes(n), b"\xff" * n, bytes(n - 1) + b"\x01"])
    dlen = core.pick(rng, list(range(0, 21)))
    desc = "".join(chr(rng.randrange(0x20, 0x7F)) for _ in range(dlen))
    return {
        "encrypted": enc, "pck": pck, "rights": rng.randrange(4),
        "timestamp": core.pick(rng, [1, 2, 0x7FFFFFFF, 0xFFFFFFFF, 0x100000000, (1 << 63), (1 << 64) - 1, 0x123456789ABCDEF,
                                     rng.getrandbits(32) or 1, rng.getrandbits(64) or 1, rng.getrandbits(40) or 1]),
        "firmware_version": core.pick(rng, [0, 1, 2, 0x7FFFFFFF, 0xFFFFFFFF, rng.getrandbits(32), rng.getrandbits(16)]),
        "flags": core.pick(rng, [0, 0, 1, 0x80000000, 0xFFFFFFFF, rng.getrandbits(32)]),
        "description": desc, "nxp": rng.random() < 0.2,
    }


# ---------------------------------------------------------------------------------- command specs
def u32(rng):
    return core.pick(rng, [0, 1, 0xF, 0x10, 0xFF, 0x100, 0xFFFF, 0x10000, 0x7FFFFFFF, 0x80000000, 0xFFFFFFFE, 0xFFFFFFFF]
                     + [rng.getrandbits(32)] * 6 + [rng.getrandbits(16)] * 2)


def small_len(rng):
    return core.pick(rng, [0, 1, 2, 3, 4, 5, 15, 16, 17, 31, 32, 33, 63, 64, 65, 100, 200, 239, 240, 241, 255, 256, 257, rng.randrange(0, 600)])


def gen_spec(rng, name, data_len=None):
    """A command in *format terms* (what the loader must end up with); built independently of SPSDK objects."""
    s = {"cmd": name}
    if name in ("erase",):
        s.update(address=u32(rng), length=u32(rng), memory_id=u32(rng))
    elif name in ("load", "loadCMAC", "loadHashLocking"):
        s.update(address=u32(rng), memory_id=u32(rng), data=core.rand_bytes(rng, small_len(rng) if data_len is None else data_len))
    elif name in ("execute", "call"):
        s.update(address=u32(rng))
    elif name == "programFuses":
        n = (small_len(rng) // 4 or 1) if data_len is None else data_len // 4
        s.update(address=u32(rng), data=core.rand_bytes(rng, 4 * n))
    elif name == "programIFR":
        s.update(address=u32(rng), data=core.rand_bytes(rng, small_len(rng) if data_len is None else data_len))
    elif name == "copy":
        s.update(address=u32(rng), length=u32(rng), destination_address=u32(rng), memory_id_from=u32(rng), memory_id_to=u32(rng))
    elif name == "loadKeyBlob":
        s.update(blob_offset=core.pick(rng, [0, 1, 0x1256, 0xFFFF, rng.getrandbits(16)]),
                 key_wrap_id=core.pick(rng, [16, 17, 18, 19, 0, 0xFFFF, rng.getrandbits(16)]),
                 data=core.rand_bytes(rng, small_len(rng) if data_len is None else data_len))
    elif name == "configureMemory":
        s.update(address=u32(rng), memory_id=u32(rng))
    elif name == "fillMemory":
        s.update(address=u32(rng), length=u32(rng), pattern=u32(rng))
    elif name == "checkFwVersion":
        s.update(value=u32(rng), counter_id=rng.randrange(6))
    elif name == "reset":
        pass
    else:  # pragma: no cover
        raise core.Inconclusive(f"unknown command {name}")
    return s


def a16(n):
    return (n + 15) & ~15


def spec_size(s) -> int:
    """Serialized size by the format table (own arithmetic)."""
    name = s["cmd"]
    if "data" not in s and "value_le" in s:
        s = dict(s, data=bytes(8))  # a `value:` load is at most 8 bytes here: padded size 16 whatever width SPSDK picks
    if name in ("erase", "copy", "fillMemory"):
        return 32
    if name in ("execute", "call", "configureMemory", "checkFwVersion", "reset"):
        return 16
    if name in ("load", "loadCMAC"):
        return 32 + a16(len(s["data"]))
    if name == "loadHashLocking":
        return 32 + a16(len(s["data"])) + 64
    if name in ("programFuses", "programIFR", "loadKeyBlob"):
        return 16 + a16(len(s["data"]))
    raise core.Inconclusive(f"unknown command {name}")


def header_size(name) -> int:
    return {"load": 32, "loadCMAC": 32, "loadHashLocking": 32, "programIFR": 16, "loadKeyBlob": 16, "programFuses": 16}[name]


def gen_command_list(rng, names, end_mod=None, blocks=None, n_cmds=None):
    """Random list; when ``end_mod`` is given the last command is load-like and its data ends at that offset mod 256
    of the decrypted stream (section header included), with the stream needing ``blocks`` 256-byte chunks if possible."""
    n_cmds = n_cmds if n_cmds is not None else core.pick(rng, [0, 1, 2, 3, 4, 6, 8])
    specs = [gen_spec(rng, core.pick(rng, names)) for _ in range(n_cmds)]
    if end_mod is None:
        return specs
    if blocks:
        # keep the prefix inside the wanted number of chunks
        while specs and 16 + sum(spec_size(s) for s in specs) + 32 + 64 + 16 > (blocks - 1) * 256 + 16:
            specs.pop(rng.randrange(len(specs)))
    last_names = [n for n in LOAD_LIKE if n in names] or ["load"]
    last = core.pick(rng, last_names)
    prefix = 16 + sum(spec_size(s) for s in specs)
    tail = 64 if last == "loadHashLocking" else 0
    ln = (end_mod - prefix - header_size(last)) % 256
    if blocks:
        need = lambda n: (prefix + header_size(last) + a16(n) + tail + 255) // 256  # noqa: E731
        while need(ln) < blocks:
            ln += 256
    specs.append(gen_spec(rng, last, data_len=ln))
    return specs


def build_cmd(s):
    from spsdk.sbfile.sb31 import commands as C

    n = s["cmd"]
    if n == "erase":
        return C.CmdErase(address=s["address"], length=s["length"], memory_id=s["memory_id"])
    if n == "load":
        return C.CmdLoad(address=s["address"], data=s["data"], memory_id=s["memory_id"])
    if n == "execute":
        return C.CmdExecute(address=s["address"])
    if n == "call":
        return C.CmdCall(address=s["address"])
    if n == "programFuses":
        return C.CmdProgFuses(address=s["address"], data=s["data"])
    if n == "programIFR":
        return C.CmdProgIfr(address=s["address"], data=s["data"])
    if n == "loadCMAC":
        return C.CmdLoadCmac(address=s["address"], data=s["data"], memory_id=s["memory_id"])
    if n == "copy":
        return C.CmdCopy(address=s["address"], length=s["length"], destination_address=s["destination_address"],
                         memory_id_from=s["memory_id_from"], memory_id_to=s["memory_id_to"])
    if n == "loadHashLocking":
        return C.CmdLoadHashLocking(address=s["address"], data=s["data"], memory_id=s["memory_id"])
    if n == "loadKeyBlob":
        return C.CmdLoadKeyBlob(offset=s["blob_offset"], data=s["data"], key_wrap_id=s["key_wrap_id"])
    if n == "configureMemory":
        return C.CmdConfigureMemory(address=s["address"], memory_id=s["memory_id"])
    if n == "fillMemory":
        return C.CmdFillMemory(address=s["address"], length=s["length"], pattern=s["pattern"])
    if n == "checkFwVersion":
        return C.CmdFwVersionCheck(value=s["value"], counter_id=C.CmdFwVersionCheck.CounterID.from_tag(s["counter_id"]))
    if n == "reset":
        return C.CmdReset()
    raise core.Inconclusive(f"unknown command {n}")


# ----------------------------------------------------------------------------- configuration forms
def num(rng, v):
    """A number in one of the spellings the schema allows (int, decimal string, hex string)."""
    return core.pick(rng, [v, str(v), hex(v), "0x%08X" % v if v < 1 << 32 else hex(v)])


def write(workdir, name, data, text=False):
    p = os.path.join(workdir, name)
    with open(p, "w" if text else "wb") as f:
        f.write(data)
    return p


def cfg_cmd(rng, s, workdir, fam_wraps, uniq, keep_data=False):
    """Configuration spelling of a spec; may adjust the spec to what the spelling can express. Returns (dict, spec)."""
    n = s["cmd"]
    s = dict(s)

    def datafile(tag):
        if rng.random() < 0.3 and len(s["data"]):
            # a firmware file rebuilt in place by a reproducible build: same path, same size, same (clamped) time stamp as
            # the file an earlier build of this process read - other content
            rot = os.path.join(os.path.dirname(os.path.abspath(workdir)), "rebuilt_in_place")
            os.makedirs(rot, exist_ok=True)
            p = os.path.join(rot, f"fw_{len(s['data'])}_{next(uniq)}.bin")
            with open(p, "wb") as f:
                f.write(s["data"])
            os.utime(p, (1_600_000_000, 1_600_000_000))
            return p
        return os.path.basename(write(workdir, f"d{next(uniq)}_{tag}.bin", s["data"]))

    def words_of(data):
        return [int.from_bytes(data[i:i + 4], "little") for i in range(0, len(data), 4)]

    if n == "erase":
        d = {"address": num(rng, s["address"]), "size": num(rng, s["length"])}
        if s["memory_id"] or rng.random() < 0.5:
            d["memoryId"] = num(rng, s["memory_id"])
        return {"erase": d}, s
    if n in ("load", "programIFR"):
        d = {"address": num(rng, s["address"])}
        if n == "load":
            if s["memory_id"] or rng.random() < 0.5:
                d["memoryId"] = num(rng, s["memory_id"])
            if rng.random() < 0.2:
                d["authentication"] = "none"
        form = "file" if keep_data else core.pick(rng, ["file", "file", "values", "value"])
        if form == "file" and len(s["data"]) == 0 and not keep_data:
            form = "values"
        if form == "values":
            k = max(1, min(8, len(s["data"]) // 4))
            s["data"] = (s["data"] + bytes(4))[: 4 * k] if len(s["data"]) < 4 * k else s["data"][: 4 * k]
            w = words_of(s["data"])
            if w == [0]:
                w = [1]
                s["data"] = struct.pack("<L", 1)
            if len(w) == 1 and rng.random() < 0.4:
                # one small number is still one 32-bit word, in whatever notation
                w = [core.pick(rng, [1, 5, 0xFF, 0x100, 0x8000, 0xFFFF, 0x10000])]
                s["data"] = struct.pack("<L", w[0])
            if len(w) == 1 and rng.random() < 0.5:
                d["values"] = core.pick(rng, [w[0], hex(w[0]), str(w[0])])
            else:
                d["values"] = core.pick(rng, [", ", ","]).join(core.pick(rng, [hex(x), str(x)]) for x in w)
        elif form == "value":
            v = int.from_bytes(s["data"][:8], "little") or 0x1234
            d["value"] = core.pick(rng, [v, hex(v), str(v)])
            s.pop("data")
            s["value_le"] = v
        else:
            d["file"] = datafile(n)
        return {n: d}, s
    if n in ("execute", "call"):
        return {n: {"address": num(rng, s["address"])}}, s
    if n == "programFuses":
        w = words_of(s["data"][:32]) or [0]
        if len(w) == 1 and rng.random() < 0.4:
            w = [core.pick(rng, [1, 5, 0xFF, 0x100, 0x8000, 0xFFFF, 0x10000])]
        s["data"] = struct.pack(f"<{len(w)}L", *w)
        if len(w) == 1 and rng.random() < 0.5:
            v = core.pick(rng, [w[0], hex(w[0])])
        else:
            v = core.pick(rng, [", ", ","]).join(core.pick(rng, [hex(x), str(x)]) for x in w)
        return {n: {"address": num(rng, s["address"]), "values": v}}, s
    if n in ("loadCMAC", "loadHashLocking"):
        d = {"address": num(rng, s["address"]), "file": datafile(n)}
        if s["memory_id"] or rng.random() < 0.5:
            d["memoryId"] = num(rng, s["memory_id"])
        if rng.random() < 0.3:  # backward-compatible spelling: load + authentication
            d["authentication"] = "cmac" if n == "loadCMAC" else "hashlocking"
            return {"load": d}, s
        return {n: d}, s
    if n == "copy":
        return {n: {"addressFrom": num(rng, s["address"]), "size": num(rng, s["length"]), "addressTo": num(rng, s["destination_address"]),
                    "memoryIdFrom": num(rng, s["memory_id_from"]), "memoryIdTo": num(rng, s["memory_id_to"])}}, s
    if n == "loadKeyBlob":
        wrap = core.pick(rng, sorted(fam_wraps))
        s["key_wrap_id"] = fam_wraps[wrap]
        d = {"offset": num(rng, s["blob_offset"]), "wrappingKeyId": wrap}
        pi = core.pick(rng, [None, "bin", "hex", "no"])
        if pi == "hex":
            d["file"] = os.path.basename(write(workdir, f"d{next(uniq)}_blob.txt", s["data"].hex(), text=True))
        else:
            d["file"] = datafile("blob")
        if pi:
            d["plainInput"] = pi
        return {n: d}, s
    if n == "configureMemory":
        return {n: {"configAddress": num(rng, s["address"]), "memoryId": num(rng, s["memory_id"])}}, s
    if n == "fillMemory":
        return {n: {"address": num(rng, s["address"]), "size": num(rng, s["length"]), "pattern": num(rng, s["pattern"])}}, s
    if n == "checkFwVersion":
        label = [k for k, v in COUNTER_IDS.items() if v == s["counter_id"]][0]
        return {n: {"value": num(rng, s["value"]), "counterId": label}}, s
    if n == "reset":
        return {n: {}}, s
    raise core.Inconclusive(f"unknown command {n}")


def expected_from_config(cmds_cfg, resolve, wraps):
    """Format-level meaning of a ``commands`` configuration list (used for the repository's golden files)."""
    from vf.refs import numgrammar

    def N(v, default=None):
        if v is None:
            return default
        if isinstance(v, int):
            return v
        r = numgrammar.parse_number(str(v))
        if r is None:
            raise core.Inconclusive(f"cannot read number {v!r}")
        return r

    def payload(d):
        if d.get("file"):
            with open(resolve(d["file"]), "rb") as f:
                return {"data": f.read()}
        if d.get("values") is not None:
            vals = [d["values"]] if isinstance(d["values"], int) else [N(x.strip()) for x in str(d["values"]).split(",")]
            return {"data": struct.pack(f"<{len(vals)}L", *vals)}
        return {"value_le": N(d["value"])}

    out = []
    for item in cmds_cfg:
        (n, d), = item.items()
        d = d or {}
        if n == "load" and d.get("authentication") in ("cmac", "hashlocking"):
            n = "loadCMAC" if d["authentication"] == "cmac" else "loadHashLocking"
        s = {"cmd": n}
        if n == "erase":
            s.update(address=N(d["address"]), length=N(d["size"]), memory_id=N(d.get("memoryId"), 0))
        elif n in ("load", "loadCMAC", "loadHashLocking"):
            s.update(address=N(d["address"]), memory_id=N(d.get("memoryId"), 0), **payload(d))
        elif n in ("execute", "call"):
            s.update(address=N(d["address"]))
        elif n in ("programFuses", "programIFR"):
            s.update(address=N(d["address"]), **payload(d))
        elif n == "copy":
            s.update(address=N(d["addressFrom"]), length=N(d["size"]), destination_address=N(d["addressTo"]),
                     memory_id_from=N(d.get("memoryIdFrom"), 0), memory_id_to=N(d.get("memoryIdTo"), 0))
        elif n == "loadKeyBlob":
            with open(resolve(d["file"]), "rb") as f:
                raw = f.read()
            if d.get("plainInput") == "hex":
                raw = bytes.fromhex(raw.decode())
            s.update(blob_offset=N(d["offset"]), key_wrap_id=wraps[d["wrappingKeyId"]], data=raw)
        elif n == "configureMemory":
            s.update(address=N(d["configAddress"]), memory_id=N(d.get("memoryId"), 0))
        elif n == "fillMemory":
            s.update(address=N(d["address"]), length=N(d["size"]), pattern=N(d["pattern"]))
        elif n == "checkFwVersion":
            s.update(value=N(d["value"]), counter_id=COUNTER_IDS[d["counterId"]])
        out.append(s)
    return out


# ------------------------------------------------------------------------------------------ judging
def compare_commands(decoded, specs, value_any_endian=False):
    """List of (mechanism suffix, detail) for every disagreement between the loader's view and the input.

    ``value_any_endian`` is for the committed golden files only: one of them (made by an older tool version) carries a
    `value:` number in written byte order although the schema text says little endian."""
    bad = []
    if [c["cmd"] for c in decoded] != [s["cmd"] for s in specs]:
        bad.append(("sequence", {"decoded": [c["cmd"] for c in decoded][:40], "input": [s["cmd"] for s in specs][:40]}))
        return bad
    for i, (c, s) in enumerate(zip(decoded, specs)):
        for k, v in s.items():
            if k == "cmd":
                continue
            if k == "value_le":
                got = c.get("data")
                if value_any_endian and got and int.from_bytes(got, "big") == v:
                    continue
                if got is None or len(got) < 1 or int.from_bytes(got, "little") != v:
                    bad.append((f"{s['cmd']}:value", {"index": i, "decoded": got, "input": v}))
                continue
            want = v
            if k == "data" and s["cmd"] == "programFuses":
                if c.get("length") != len(v) // 4:
                    bad.append((f"{s['cmd']}:word-count", {"index": i, "decoded": c.get("length"), "input": len(v) // 4}))
            elif k == "data" and c.get("length") != len(v):
                bad.append((f"{s['cmd']}:length", {"index": i, "decoded": c.get("length"), "input": len(v)}))
            if c.get(k) != want:
                bad.append((f"{s['cmd']}:{k}", {"index": i, "decoded": c.get(k), "input": want}))
        if s["cmd"] in ("execute", "call", "reset") and c.get("length") != 0:
            bad.append((f"{s['cmd']}:length", {"index": i, "decoded": c.get("length")}))
    return bad


def data_end(specs) -> int:
    """Offset in the decrypted stream where the last command's own bytes end (alignment padding not counted)."""
    if not specs:
        return 16
    prefix = 16 + sum(spec_size(x) for x in specs[:-1])
    last = specs[-1]
    if last["cmd"] in LOAD_LIKE and "data" in last:
        return prefix + header_size(last["cmd"]) + len(last["data"])
    return prefix + spec_size(last)


def stream_blocks(specs) -> int:
    return (16 + sum(spec_size(s) for s in specs) + 255) // 256


def check_msign(ctx, data, img, keys, first_export, tag):
    """The bytes handed to the signer must be the region the model authenticated."""
    log = list(SIGN_LOG)
    prov = [r for r in log if r.get("hook") == "provider"]
    keyr = [r for r in log if r.get("hook") == "key" and not r.get("broken")]
    if not prov or not keyr:
        raise core.Inconclusive("M-SIGN saw no signing call during export (hook points moved?)")
    lo, hi = img["signed_region"]
    region = data[lo:hi]
    hit = [r for r in prov if r["sig"] == img["signature"]]
    if not hit:
        ctx.violation(f"sb31-signature-in-file-not-from-signer{tag}", {"records": len(prov)})
    elif hit[-1]["data"] != region:
        d = hit[-1]["data"]
        ctx.violation(f"sb31-signed-bytes-differ-from-authenticated-region{tag}",
                      {"signed_len": len(d), "region": [lo, hi], "first_diff": next((i for i in range(min(len(d), len(region))) if d[i] != region[i]), None)})
    sx = pki.numbers(keys["signer"])
    raw = [r for r in keyr if r["data"] == region]
    if not raw:
        ctx.violation(f"sb31-private-key-signed-other-bytes{tag}", {"records": len(keyr)})
    elif (raw[-1]["x"], raw[-1]["y"]) != (sx["x"], sx["y"]) or raw[-1]["prehashed"]:
        ctx.violation(f"sb31-signed-with-unexpected-key{tag}", {"expected": keys["signer"], "prehashed": raw[-1]["prehashed"]})
    elif raw[-1]["algorithm"] not in (None, HASHNAME[keys["sign_curve"]]):
        ctx.violation(f"sb31-signature-hash-algorithm{tag}", {"algorithm": raw[-1]["algorithm"], "curve": keys["sign_curve"]})
    n = 1
    isk = img["cert_block"]["isk"]
    if isk and first_export and keys.get("isk_signed_here", True):
        rx = pki.numbers(keys["roots"][keys["used"]])
        cand = [r for r in keyr if r["data"] == isk["signed_data"]]
        if not cand:
            ctx.violation(f"sb31-isk-signed-bytes-differ-from-authenticated-region{tag}", {"records": len(keyr)})
        elif (cand[-1]["x"], cand[-1]["y"]) != (rx["x"], rx["y"]):
            ctx.violation(f"sb31-isk-signed-with-unexpected-key{tag}", {"expected": keys["roots"][keys["used"]]})
        n += 1
    ctx.count("msign_compared", n)


def flip(data: bytes, bit: int) -> bytes:
    b = bytearray(data)
    b[bit >> 3] ^= 1 << (bit & 7)
    return bytes(b)


def region_class(name: str) -> str:
    if name.startswith("block") and "_" in name and name != "block1_hash":
        return "block_" + name.split("_", 1)[1]
    return name


def bitflips(ctx, data, img, dev, full=False, per_region=2):
    """Single-bit flips: the loader model must reject every one. Returns the number tried."""
    rng = ctx.rng
    n = 0
    covered = 0
    regs = img["regions"]
    for name, lo, hi in regs:
        covered += hi - lo
    if covered != len(data) or sorted(r[1] for r in regs) != sorted(set(r[1] for r in regs)):
        raise core.Inconclusive(f"model regions do not tile the file ({covered} of {len(data)})")
    for name, lo, hi in regs:
        if full:
            bits = range(8 * lo, 8 * hi)
        else:
            k = per_region if not name.startswith("block") or name == "block1_hash" else 1
            bits = sorted({rng.randrange(8 * lo, 8 * hi) for _ in range(k)} | ({8 * hi - 1} if name.endswith("payload") and hi == len(data) else set()))
        for bit in bits:
            n += 1
            try:
                rom.load(flip(data, bit), **dev)
            except rom.Sb31Reject:
                continue
            ctx.violation(f"sb31-bitflip-accepted:{region_class(name)}", {"region": name, "byte": bit >> 3, "bit": bit & 7, "file_len": len(data)})
    # length changes: a byte more / less must not go unnoticed either
    for mutated in (data + b"\x00", data[:-1], data + data[-img["header"]["block_size"]:]):
        n += 1
        try:
            rom.load(mutated, **dev)
        except rom.Sb31Reject:
            continue
        ctx.violation("sb31-length-change-accepted", {"len": len(mutated), "original": len(data)})
    ctx.count("bitflips", n)
    return n


def judge(ctx, data, keys, par, specs, export_no, path, flips="quick", msign=True, sig_extra=None):
    """Judge one exported file independently. ``export_no`` counts from 1."""
    ctx.count("exports_judged")
    if export_no > 1:
        ctx.count("reexports_judged")
    re = "" if export_no == 1 else "-reexport"
    dev = {"rkth": keys["rkth"], "pck": par["pck"], "kdk_access_rights": par["rights"] if par["encrypted"] else 0,
           "encrypted": par["encrypted"]}
    strict_ok = True
    try:
        img = rom.load(data, **dev)
    except rom.Sb31Reject as e:
        strict_ok = False
        img = None
        if e.code == "total-length-mismatch":
            try:
                img = rom.load(data, trust_total_length=False, **dev)
            except rom.Sb31Reject as e2:
                ctx.violation(f"sb31-rom-reject{re}:{e2.code}", {"export": export_no, "reason": str(e2), "path": path})
            if img is not None:
                field = img["header"]["image_total_length"]
                actual = img["block0_end"]
                if export_no > 1 and field - rom.MANIFEST_SIZE == export_no * (actual - rom.MANIFEST_SIZE):
                    ctx.violation("sb31-reexport-image-total-length-accumulates",
                                  {"export": export_no, "field": field, "block0_actual": actual, "path": path, "reason": str(e)})
                else:
                    ctx.violation(f"sb31-total-length-wrong{re}", {"export": export_no, "field": field, "block0_actual": actual, "path": path})
        else:
            ctx.violation(f"sb31-rom-reject{re}:{e.code}", {"export": export_no, "reason": str(e), "path": path, "len": len(data)})
        if img is None:
            return None
    if strict_ok:
        ctx.count("model_accepted")
    h = img["header"]
    # manifest
    hl = HASHLEN[keys["sign_curve"]]
    want = {
        "flags": par["flags"], "timestamp": par["timestamp"], "firmware_version": par["firmware_version"],
        "image_type": 7 if par["nxp"] else 6, "block_size": 4 + 256 + hl, "cert_block_offset": 60 + hl,
        "description": par["description"].encode("ascii")[:16].ljust(16, b"\x00"), "block_count": stream_blocks(specs),
    }
    if par["timestamp"] is None:
        want.pop("timestamp")
    for k, v in want.items():
        if h[k] != v:
            ctx.violation(f"sb31-manifest-field{re}:{k}", {"export": export_no, "file": h[k], "input": v, "path": path})
    if h["block_count"] * h["block_size"] + img["blocks_at"] != len(data):
        ctx.violation(f"sb31-manifest-field{re}:block_count", {"export": export_no, "file": h["block_count"], "len": len(data)})
    ctx.count("manifest_compared")
    # certificate block
    cb = img["cert_block"]
    wantcb = {"root_curve": keys["root_curve"], "root_count": len(keys["roots"]), "used_root": keys["used"], "ca": keys["isk"] is None,
              "root_pub": xy(keys["roots"][keys["used"]]), "sign_pub": xy(keys["signer"])}
    for k, v in wantcb.items():
        if cb[k] != v:
            ctx.violation(f"sb31-certblock-field{re}:{k}", {"export": export_no, "file": cb[k], "input": v, "path": path})
    if keys["isk"] and cb["isk"]:
        for k, v in {"pub": xy(keys["isk"]), "user_data": keys["user_data"], "constraints": keys["constraints"], "curve": pki.kind_of(keys["isk"])}.items():
            if cb["isk"][k] != v:
                ctx.violation(f"sb31-certblock-field{re}:isk-{k}", {"export": export_no, "file": cb["isk"][k], "input": v, "path": path})
    ctx.count("certblock_compared")
    # commands
    bad = compare_commands(img["commands"], specs)
    for suffix, detail in bad[:6]:
        detail.update(export=export_no, path=path)
        ctx.violation(f"sb31-command-mismatch{re}:{suffix}", detail)
    ctx.count("commands_compared", len(specs) or 1)
    if any(img["last_next_hash"]):
        ctx.note("next_hash_field_of_last_block", f"non-zero on export #{export_no} (not interpreted by a loader; first exports carry zeros)")
    if msign:
        check_msign(ctx, data, img, keys, export_no == 1, re)
    nflips = 0
    if strict_ok and flips:
        nflips = bitflips(ctx, data, img, dev, full=(flips == "full"))
    end = data_end(specs) % 256
    sig = {"path": path, "roots": f"{keys['root_curve']}x{len(keys['roots'])}u{keys['used']}", "isk": keys["isk_kind"] + ("+data" if keys["user_data"] else ""),
           "enc": par["encrypted"], "pck": 8 * len(par["pck"]) if par["pck"] else 0, "rights": par["rights"] if par["encrypted"] else None,
           "blocks": h["block_count"], "end": end, "export": export_no}
    if sig_extra:
        sig.update(sig_extra)
    if strict_ok and not bad:
        ctx.ok(sig, sample={"file_len": len(data), "commands": [s["cmd"] for s in specs][:12], "timestamp": par["timestamp"],
                            "firmware_version": par["firmware_version"], "description": par["description"], "bitflips_rejected": nflips})
    return img


def negative_controls(ctx, data, keys, par):
    """Sanity of the monitor itself: a device with another RKTH / PCK / access rights must not load the file."""
    dev = {"rkth": keys["rkth"], "pck": par["pck"], "kdk_access_rights": par["rights"] if par["encrypted"] else 0, "encrypted": par["encrypted"]}
    trials = [dict(dev, rkth=bytes(len(keys["rkth"])))]
    if par["encrypted"]:
        trials.append(dict(dev, pck=bytes(b ^ 0x80 if i == 0 else b for i, b in enumerate(par["pck"]))))
        trials.append(dict(dev, kdk_access_rights=(par["rights"] + 1) % 4))
        trials.append(dict(dev, encrypted=False))
    else:
        trials.append(dict(dev, encrypted=True, pck=bytes(16)))
    for t in trials:
        try:
            rom.load(data, **t)
        except rom.Sb31Reject:
            ctx.count("negative_controls")
            continue
        raise core.Inconclusive("the loader model accepted a file under a wrong device state - model too weak")


# ------------------------------------------------------------------------------------ building (API)
def key_input(rng, name, allow_raw=True):
    """One of the input forms CertBlockV21 accepts for a public key."""
    from spsdk.crypto.keys import PublicKeyEcc

    form = core.pick(rng, ["obj", "pub.pem", "pub.der", "crt.pem", "crt.der", "nonca.der"] + (["raw"] if allow_raw else []))
    if form == "obj":
        return PublicKeyEcc.load(pki.path(name, "pub", "pem"))
    if form == "raw":
        return xy(name)
    what, fmt = {"pub.pem": ("pub", "pem"), "pub.der": ("pub", "der"), "crt.pem": ("cert", "pem"), "crt.der": ("cert", "der"),
                 "nonca.der": ("nonca", "der")}[form]
    return pki.data(name, what, fmt)


def build_api(rng, family, keys, par, specs):
    from spsdk.crypto.signature_provider import PlainFileSP
    from spsdk.sbfile.sb31.images import SecureBinary31
    from spsdk.utils.crypto.cert_blocks import CertBlockV21

    root_inputs = [key_input(rng, n) for n in keys["roots"]]
    kw = {}
    if keys["isk"]:
        kw = {"signature_provider": PlainFileSP(pki.path(keys["roots"][keys["used"]], "priv", core.pick(rng, ["pem", "der"]))),
              "isk_cert": key_input(rng, keys["isk"]), "user_data": keys["user_data"] or None, "constraints": keys["constraints"]}
        if rng.random() < 0.5:
            kw["family"] = family
    cb = CertBlockV21(root_certs=root_inputs, ca_flag=keys["isk"] is None, used_root_cert=keys["used"], **kw)
    cb.calculate()
    sb = SecureBinary31(
        family=family, cert_block=cb, firmware_version=par["firmware_version"],
        signature_provider=PlainFileSP(pki.path(keys["signer"], "priv", core.pick(rng, ["pem", "der"]))),
        pck=par["pck"], kdk_access_rights=par["rights"] if par["encrypted"] or rng.random() < 0.5 else None,
        description=par["description"] if par["description"] or rng.random() < 0.5 else None,
        is_nxp_container=par["nxp"], flags=par["flags"], timestamp=par["timestamp"], is_encrypted=par["encrypted"],
    )
    if rng.random() < 0.5:
        sb.sb_commands.set_commands([build_cmd(s) for s in specs])
    else:
        for s in specs:
            sb.sb_commands.add_command(build_cmd(s))
    return sb


def families():
    from spsdk.utils.database import DatabaseManager, get_families

    return sorted(get_families(DatabaseManager.SB31))


def family_facts(fam):
    from spsdk.utils.database import DatabaseManager, get_db

    db = get_db(fam, "latest")
    return {"supported": list(db.get_list(DatabaseManager.SB31, "supported_commands")),
            "wraps": KEY_WRAPS[db.get_int(DatabaseManager.SB31, "key_wraps_version")]}


def history(ctx, sb, keys, par, specs, n_exports, path, names, flips="quick", sig_extra=None, add_between=True):
    """Export the same object 1..3 times, optionally adding a command in between; judge every output on its own."""
    rng = ctx.rng
    specs = list(specs)
    first = None
    for no in range(1, n_exports + 1):
        if no > 1 and add_between and rng.random() < 0.5:
            s = gen_spec(rng, core.pick(rng, names))
            pos = core.pick(rng, [-1, -1, 0, rng.randrange(len(specs) + 1)])
            if pos == -1:
                if rng.random() < 0.5:
                    sb.sb_commands.add_command(build_cmd(s))
                else:
                    sb.sb_commands.insert_command(-1, build_cmd(s))
                specs.append(s)
            else:
                sb.sb_commands.insert_command(pos, build_cmd(s))
                specs.insert(pos, s)
        del SIGN_LOG[:]
        ok, data = ctx.call(sb.export)
        if not ok:
            ctx.refused({"path": path, "export": no}, core.exc_brief(data))
            return first
        data = bytes(data)
        img = judge(ctx, data, keys, par, specs, no, path, flips=flips if no == 1 or rng.random() < 0.5 else None, sig_extra=sig_extra)
        if no == 1:
            first = (data, img)
            if img is not None and rng.random() < 0.25:
                negative_controls(ctx, data, keys, par)
    return first


# ---------------------------------------------------------------------------------- config building
def build_config(ctx, rng, fam, facts, keys, par, specs, workdir):  # noqa: ARG001
    """Write key / data files and return (config dict, adjusted specs, keys)."""
    import itertools

    uniq = itertools.count()
    os.makedirs(workdir, exist_ok=True)

    def keyfile(name, kinds):
        what, fmt = core.pick(rng, kinds)
        return pki.path(name, what, fmt)

    pubkinds = [("pub", "pem"), ("pub", "der"), ("cert", "pem"), ("cert", "der"), ("nonca", "pem")]
    cb = {"useIsk": keys["isk"] is not None}
    written = list(enumerate(keys["roots"]))
    if rng.random() < 0.4:
        rng.shuffle(written)  # a mapping has no order: the slot of a root certificate is the number in its key
    for i, n in written:
        cb[f"rootCertificate{i}File"] = keyfile(n, pubkinds)
    if len(set(keys["roots"])) == len(keys["roots"]) and rng.random() < 0.25 and keys["isk"] is not None:
        pass  # mainRootCertId omitted: found by matching the root private key
    else:
        cb["mainRootCertId"] = core.pick(rng, [keys["used"], str(keys["used"])])
    cb_mode = core.pick(rng, ["yaml", "yaml", "json", "bin"])
    if keys["isk"]:
        cb[core.pick(rng, ["iskPublicKey", "signingCertificateFile"])] = keyfile(keys["isk"], pubkinds)
        if keys["user_data"]:
            cb[core.pick(rng, ["iskCertData", "signCertData"])] = write(workdir, "isk_user_data.bin", keys["user_data"])
        if keys["constraints"] or rng.random() < 0.5:
            cb[core.pick(rng, ["iskCertificateConstraint", "signingCertificateConstraint"])] = num(rng, keys["constraints"])
        rootpriv = pki.path(keys["roots"][keys["used"]], "priv", core.pick(rng, ["pem", "der"]))
        sp = core.pick(rng, ["mainRootCertPrivateKeyFile", "signPrivateKey", "signProvider"])
        cb[sp] = f"type=file;file_path={rootpriv}" if sp == "signProvider" else rootpriv
    elif "mainRootCertId" not in cb:
        cb["mainRootCertId"] = keys["used"]
    cfg = {"family": fam, "containerOutputFile": os.path.join(workdir, "out.sb3")}
    if cb_mode == "bin":
        from spsdk.utils.crypto.cert_blocks import CertBlockV21

        cbo = CertBlockV21.from_config(dict(cb, family=fam), search_paths=[workdir])
        cfg["certBlock"] = write(workdir, "cert_block.bin", cbo.export())
    elif cb_mode == "json":
        cfg["certBlock"] = write(workdir, "cert_block.json", json.dumps(cb, indent=1), text=True)
    else:
        import yaml

        cfg["certBlock"] = write(workdir, "cert_block.yaml", yaml.safe_dump(cb), text=True)
    signpriv = pki.path(keys["signer"], "priv", core.pick(rng, ["pem", "der"]))
    sp = core.pick(rng, ["mainRootCertPrivateKeyFile", "signPrivateKey", "signProvider"])
    if sp == "signProvider" and rng.random() < 0.5:
        # a plug-in style provider (HSM back end) that returns DER encoded ECDSA signatures: the container carries r||s
        from vf.props.mbi_gen import der_signature_provider

        cfg[sp] = f"type={der_signature_provider()};file_path={signpriv}"
        ctx.count("signed_through_der_provider")
    else:
        cfg[sp] = f"type=file;file_path={signpriv}" if sp == "signProvider" else signpriv
    if par["firmware_version"] != 1 or rng.random() < 0.5:
        cfg["firmwareVersion"] = num(rng, par["firmware_version"])
    else:
        par = dict(par, firmware_version=1)
    if par["encrypted"]:
        form = core.pick(rng, ["hex", "txt", "bin"])
        if par["pck"][0] == 0 and form != "bin":
            form = "bin"  # leading-zero keys as text are the subject of a directed case, not of the sweep
        cfg["containerKeyBlobEncryptionKey"] = {
            "hex": lambda: par["pck"].hex(), "txt": lambda: write(workdir, "pck.txt", par["pck"].hex(), text=True),
            "bin": lambda: write(workdir, "pck.bin", par["pck"]),
        }[form]()
        if par["rights"] or rng.random() < 0.5:
            cfg["kdkAccessRights"] = par["rights"]
        if rng.random() < 0.3:
            cfg["isEncrypted"] = True
    else:
        cfg["isEncrypted"] = False
        if rng.random() < 0.3:
            cfg["kdkAccessRights"] = par["rights"]
    if par["nxp"] or rng.random() < 0.3:
        cfg["isNxpContainer"] = par["nxp"]
    if par["flags"] or rng.random() < 0.5:
        cfg["containerConfigurationWord"] = num(rng, par["flags"])
    if par["description"] or rng.random() < 0.3:
        cfg["description"] = par["description"]
    if rng.random() < 0.9:
        cfg["timestamp"] = num(rng, par["timestamp"])
    else:
        par = dict(par, timestamp=None)  # SPSDK takes the clock; the loader reads the value from the manifest
    out_cmds, out_specs = [], []
    for i, s in enumerate(specs):
        c, s2 = cfg_cmd(rng, s, workdir, facts["wraps"], uniq, keep_data=i == len(specs) - 1)
        out_cmds.append(c)
        out_specs.append(s2)
    cfg["commands"] = out_cmds
    keys = dict(keys, isk_signed_here=cb_mode != "bin")
    return cfg, out_specs, keys, par


# --------------------------------------------------------------------------------------- self test
def selftest(ctx):  # noqa: ARG001
    """KDF vectors, decoder vectors, and the repository's committed SB3.1 files with their keys and configurations."""
    import glob

    import yaml
    from cryptography import x509
    from cryptography.hazmat.primitives import serialization

    res = {"sb31_rom": rom.selftest()}
    base = os.path.join(core.repo_root(), GOLDEN_BASE)

    def P(p):
        return os.path.join(base, p.replace("\\", "/"))

    def pub_of(path):
        with open(path, "rb") as f:
            b = f.read()
        for ld in (lambda: serialization.load_pem_public_key(b), lambda: x509.load_pem_x509_certificate(b).public_key(),
                   lambda: serialization.load_pem_private_key(b, None).public_key(), lambda: serialization.load_der_public_key(b),
                   lambda: x509.load_der_x509_certificate(b).public_key()):
            try:
                key = ld()
                break
            except Exception:  # pylint: disable=broad-except
                continue
        else:
            raise AssertionError(f"cannot read key {path}")
        n = key.public_numbers()
        size = (key.curve.key_size + 7) // 8
        return {256: "p256", 384: "p384"}[key.curve.key_size], n.x.to_bytes(size, "big") + n.y.to_bytes(size, "big")

    accepted = rejected_as_expected = compared = 0
    names = []
    for cfgp in sorted(glob.glob(os.path.join(base, "workspace", "cfgs", "*", "sb3*.yaml"))):
        with open(cfgp, encoding="utf-8") as f:
            cfg = yaml.safe_load(f)
        out = P(cfg["containerOutputFile"])
        if not os.path.exists(out) or not cfg.get("certBlock"):
            continue
        try:
            with open(P(cfg["certBlock"]), encoding="utf-8") as f:
                cb = yaml.safe_load(f)
        except (UnicodeDecodeError, yaml.YAMLError):
            continue  # binary certificate block: the same output file is covered by its YAML twin
        roots = [pub_of(P(cb[f"rootCertificate{i}File"])) for i in range(4) if cb.get(f"rootCertificate{i}File")]
        curve = roots[0][0]
        candidates = [rom.rkth_of(curve, [r[1] for r in roots])]
        # one committed file (k32w1xx/sb3_384_none) predates its configuration: built with the standard four roots
        std = [pub_of(P(f"workspace/keys_certs/ec_secp{curve[1:]}r1_cert{i}.pem"))[1] for i in range(4)]
        candidates.append(rom.rkth_of(curve, std))
        expect_isk_reject = False
        if cb.get("useIsk"):
            rootpriv = cb.get("signPrivateKey", cb.get("mainRootCertPrivateKeyFile"))
            used = int(cb.get("mainRootCertId", 0))
            if rootpriv and pub_of(P(rootpriv))[1] != roots[used][1]:
                expect_isk_reject = True  # the configuration signs the ISK certificate with a key that is not the used root
        enc = cfg.get("isEncrypted", True)
        pck = None
        if enc:
            with open(P(cfg["containerKeyBlobEncryptionKey"]), encoding="utf-8") as f:
                pck = bytes.fromhex(f.read().strip())
        with open(out, "rb") as f:
            data = f.read()
        img, why = None, None
        for rk in candidates:
            try:
                img = rom.load(data, rkth=rk, pck=pck, kdk_access_rights=int(cfg.get("kdkAccessRights", 0)), encrypted=enc)
                break
            except rom.Sb31Reject as e:
                why = e
                if e.code != "rkth-mismatch":
                    break
        rel = os.path.relpath(cfgp, base)
        if expect_isk_reject:
            assert img is None and why is not None and why.code == "isk-signature-invalid", f"{rel}: expected an ISK signature rejection, got {why}"
            rejected_as_expected += 1
            continue
        assert img is not None, f"golden {rel} rejected: {why}"
        accepted += 1
        names.append(os.path.basename(os.path.dirname(cfgp)) + "/" + os.path.basename(out))
        # decoded commands against the configuration that (nominally) produced the file
        fam_wraps = KEY_WRAPS[2 if "mcxn" in rel else 1]
        try:
            exp = expected_from_config(cfg["commands"], P, fam_wraps)
        except FileNotFoundError:
            continue
        bad = compare_commands(img["commands"], exp, value_any_endian=True)
        assert not bad, f"golden {rel}: decoded commands differ from its configuration: {bad[:2]}"
        compared += 1
        # a flipped bit in every region must be rejected by the model (model sanity on third-party files)
        for name, lo, hi in img["regions"][:9]:
            try:
                rom.load(flip(data, 8 * lo + 3), rkth=rk, pck=pck, kdk_access_rights=int(cfg.get("kdkAccessRights", 0)), encrypted=enc)
            except rom.Sb31Reject:
                continue
            raise AssertionError(f"golden {rel}: flipped bit in {name} accepted")
    # a committed NXP-container file without a configuration of its own: standard P-384 roots, the test PCK, rights 3
    nxp = P("workspace/output_images/lpc55s3x/sb3_384_384_nxp.sb3")
    if os.path.exists(nxp):
        std = [pub_of(P(f"workspace/keys_certs/ec_secp384r1_cert{i}.pem"))[1] for i in range(4)]
        with open(P("workspace/keys/userkey.txt"), encoding="utf-8") as f:
            pck = bytes.fromhex(f.read().strip())
        with open(nxp, "rb") as f:
            img = rom.load(f.read(), rkth=rom.rkth_of("p384", std), pck=pck, kdk_access_rights=3, encrypted=True)
        assert img["header"]["image_type"] == 7, "sb3_384_384_nxp.sb3 is not an NXP container"
        accepted += 1
    # (tests/sbfile/sb31/data/sb3_384_384.sb3 is byte-identical to lpc55s3x/sb3_384_384.sb3; six other committed *.sb3
    #  files from 2020 are referenced by no test and use a pre-release layout - 16-byte erase, other manifest - skipped)
    assert accepted >= 15, f"only {accepted} committed SB3.1 files found/accepted"
    res.update(goldens_accepted=accepted, goldens_with_inconsistent_isk_rejected=rejected_as_expected, goldens_commands_compared=compared)
    return res


# ---------------------------------------------------------------------------------------- run_case
def run_case(case, ctx):  # noqa: C901
    from spsdk.exceptions import SPSDKError

    rng = ctx.rng
    kind = case["kind"]
    fams = families()

    if kind == "api":
        keys = pick_keys(rng, root_curve=CURVES[case["k"] % 2], used=None)
        par = gen_container_params(rng, keys)
        specs = gen_command_list(rng, ALL_CMDS, end_mod=case["end"], blocks=case["blocks"])
        fam = fams[case["k"] % len(fams)]
        sb = build_api(rng, fam, keys, par, specs)
        history(ctx, sb, keys, par, specs, 1 + case["k"] % 3, "api", ALL_CMDS)
        return

    if kind == "all14":
        # one container holding every command class (both curves, encrypted and plain)
        for curve in CURVES:
            for enc in (True, False):
                keys = pick_keys(rng, root_curve=curve, isk_kind="same", n_roots=4)
                par = dict(gen_container_params(rng, keys), encrypted=enc, pck=core.rand_bytes(rng, 32) if enc else None)
                specs = [gen_spec(rng, n) for n in ALL_CMDS]
                sb = build_api(rng, fams[0], keys, par, specs)
                history(ctx, sb, keys, par, specs, 1, "api", ALL_CMDS, sig_extra={"all14": True})
                # and the other extreme: no command at all (one block holding only the section header)
                sb = build_api(rng, fams[0], keys, par, [])
                history(ctx, sb, keys, par, [], 2, "api", ALL_CMDS, sig_extra={"empty": True})
        return

    if kind == "reexport_witness":
        # directed: same object, no change in between, three exports; every output must be an equally valid file
        keys = pick_keys(rng, root_curve="p256", isk_kind="none", n_roots=1)
        par = dict(gen_container_params(rng, keys), encrypted=True, pck=bytes(range(16)), rights=0, timestamp=0x12345678)
        specs = [gen_spec(rng, "erase"), gen_spec(rng, "load", data_len=300)]
        sb = build_api(rng, fams[0], keys, par, specs)
        history(ctx, sb, keys, par, specs, 3, "api", ALL_CMDS, add_between=False, sig_extra={"directed": "reexport"})
        return

    if kind == "timestamp_zero":
        # "all timestamps": 0 is a timestamp; the manifest and the KDF must use it
        keys = pick_keys(rng, root_curve="p256", isk_kind="none", n_roots=1)
        for enc in (True, False):
            par = dict(gen_container_params(rng, keys), encrypted=enc, pck=bytes(range(16)) if enc else None, timestamp=0)
            specs = [gen_spec(rng, "execute")]
            sb = build_api(rng, fams[0], keys, par, specs)
            del SIGN_LOG[:]
            data = bytes(sb.export())
            ctx.count("exports_judged")
            ts = struct.unpack_from("<Q", data, 20)[0]
            if ts != 0:
                ctx.violation("sb31-timestamp-zero-replaced-by-clock", {"input": 0, "manifest_timestamp": ts, "encrypted": enc})
            else:
                judge(ctx, data, keys, par, specs, 1, "api", sig_extra={"directed": "timestamp0"})
        return

    if kind == "pck_leading_zeros":
        # a 256-bit PCK given as hex text whose upper half is zero is still a 256-bit key
        fam = fams[0]
        facts = family_facts(fam)
        for pck in (bytes(31) + b"\x01", bytes(16) + bytes(range(1, 17)), bytes(32)):
            keys = pick_keys(rng, root_curve="p256", isk_kind="none", n_roots=1)
            par = dict(gen_container_params(rng, keys), encrypted=True, pck=pck)
            specs = [gen_spec(rng, "erase")]
            wd = os.path.join(ctx.workdir, f"pz{pck[-1]}_{pck[16]}")
            cfg, specs2, keys2, par2 = build_config(ctx, rng, fam, facts, keys, dict(par, pck=b"\x01" + pck[1:]), specs, wd)
            cfg["containerKeyBlobEncryptionKey"] = pck.hex()
            from spsdk.sbfile.sb31.images import SecureBinary31

            ok, sb = ctx.call(SecureBinary31.load_from_config, cfg, search_paths=[wd])
            if not ok:
                ctx.refused({"directed": "pck-leading-zeros"}, core.exc_brief(sb))
                continue
            ctx.count("exports_judged")
            if sb.pck != pck:
                ctx.violation("sb31-config-pck-leading-zero-bytes-dropped",
                              {"configured_hex": pck.hex(), "configured_bits": 8 * len(pck), "used_bits": 8 * len(sb.pck or b""), "used": (sb.pck or b"").hex()})
            else:
                del SIGN_LOG[:]
                judge(ctx, bytes(sb.export()), keys2, dict(par2, pck=pck), specs2, 1, "cfg", sig_extra={"directed": "pck0"})
        return

    if kind == "zero_value_loads":
        # `values: 0` / `value: 0` are falsy for SPSDK and refused ("Unsupported LOAD command args"): a refusal is
        # not a violation; if a later version accepts them they are judged like any other load
        from spsdk.sbfile.sb31.images import SecureBinary31

        fam = fams[0]
        facts = family_facts(fam)
        forms = [({"values": 0}, {"data": bytes(4)}), ({"value": 0}, {"value_le": 0}), ({"values": "0"}, {"data": bytes(4)})]
        for j, (form, spec_extra) in enumerate(forms):
            keys = pick_keys(rng, root_curve="p384", isk_kind="none", n_roots=2)
            par = gen_container_params(rng, keys)
            wd = os.path.join(ctx.workdir, f"zv{j}")
            cfg, specs, keys, par = build_config(ctx, rng, fam, facts, keys, par, [gen_spec(rng, "erase")], wd)
            cfg["commands"].append({"load": dict(form, address=0x100)})
            specs.append(dict({"cmd": "load", "address": 0x100, "memory_id": 0}, **spec_extra))
            ok, sb = ctx.call(SecureBinary31.load_from_config, cfg, search_paths=[wd])
            if not ok:
                ctx.refused({"path": "cfg", "directed": "zero-value-load", "form": sorted(form)[0]}, core.exc_brief(sb))
                continue
            history(ctx, sb, keys, par, specs, 1, "cfg", ALL_CMDS, sig_extra={"directed": "zero-value-load", "form": str(form)})
        return

    if kind in ("cfg", "cfg_extra_families"):
        from spsdk.sbfile.sb31.images import SecureBinary31

        if kind == "cfg":
            todo = [fams[case["fam"] % len(fams)]]
        else:
            todo = fams[31:]
            if not todo:
                ctx.ok({"path": "cfg", "extra_families": 0}, nontrivial=False)
                return
        for fam in todo:
            facts = family_facts(fam)
            keys = pick_keys(rng)
            par = gen_container_params(rng, keys)
            rep = case.get("rep", 0)
            names = ALL_CMDS if rep % 2 == 0 else tuple(facts["supported"])
            end_mod = rng.randrange(256)
            specs = gen_command_list(rng, names, end_mod=end_mod, blocks=core.pick(rng, [1, 1, 2, 3, 5, 8, 12]))
            wd = os.path.join(ctx.workdir, f"cfg{case.get('fam', 99)}_{rep}_{fam}")
            cfg, specs, keys, par = build_config(ctx, rng, fam, facts, keys, par, specs, wd)
            ok, sb = ctx.call(SecureBinary31.load_from_config, cfg, search_paths=[wd])
            if not ok:
                ctx.refused({"path": "cfg", "family": fam}, core.exc_brief(sb))
                continue
            first = history(ctx, sb, keys, par, specs, 1 + (rep + case.get("fam", 0)) % 3, "cfg", names, sig_extra={"family": fam})
            if first:
                ctx.count("cfg_path_exports")
        return

    if kind == "cli":
        import yaml
        from click.testing import CliRunner

        from spsdk.apps import nxpimage

        fam = fams[(case["k"] * 7 + 3) % len(fams)]
        facts = family_facts(fam)
        keys = pick_keys(rng)
        par = gen_container_params(rng, keys)
        names = tuple(n for n in facts["supported"] if n in ALL_CMDS)
        specs = gen_command_list(rng, names, end_mod=rng.randrange(256), blocks=core.pick(rng, [1, 2, 4]), n_cmds=core.pick(rng, [1, 2, 4]))
        wd = os.path.join(ctx.workdir, f"cli{case['k']}")
        cfg, specs, keys, par = build_config(ctx, rng, fam, facts, keys, par, specs, wd)
        cfgfile = write(wd, "sb31.yaml", yaml.safe_dump(cfg), text=True)
        del SIGN_LOG[:]
        res = CliRunner().invoke(nxpimage.main, ["sb31", "export", "-c", cfgfile])
        if res.exit_code != 0:
            exc = res.exception
            if exc is not None and not isinstance(exc, (SPSDKError, SystemExit)):
                raise exc
            ctx.refused({"path": "cli", "family": fam}, f"exit {res.exit_code}: {(res.output or '')[-160:]}")
            return
        with open(cfg["containerOutputFile"], "rb") as f:
            data = f.read()
        ctx.count("cli_exports")
        shown = [ln.split(":", 1)[1].strip() for ln in res.output.splitlines() if ln.startswith("RKTH:")]
        if shown != [keys["rkth"].hex()]:
            ctx.violation("sb31-cli-printed-rkth-differs", {"printed": shown, "independent": keys["rkth"].hex()})
        judge(ctx, data, keys, par, specs, 1, "cli", sig_extra={"family": fam})
        return

    if kind == "wrong_signer":
        # the signing key handed over is not the key the certificate block certifies (another key of the same curve): the
        # build has to be refused - a file that comes out anyway cannot be authentic, the loader model says why
        from spsdk.sbfile.sb31.images import SecureBinary31

        keys = pick_keys(rng, isk_kind=["none", "same", "none", "other"][case["k"] % 4])
        right = keys["signer"]
        cand = [n for n in pki.names(pki.kind_of(right)) if n != right and n not in keys["roots"] and n != keys["isk"]]
        wrong = core.pick(rng, cand)
        par = gen_container_params(rng, keys)
        fam = fams[case["k"] % len(fams)]
        facts = family_facts(fam)
        specs = gen_command_list(rng, tuple(n for n in facts["supported"] if n in ALL_CMDS), end_mod=rng.randrange(256), blocks=1, n_cmds=2)
        path = "cfg" if case["k"] % 3 else "api"
        sig = {"path": path, "directed": "wrong-signer", "isk": keys["isk_kind"]}
        data = None
        if path == "cfg":
            wd = os.path.join(ctx.workdir, f"ws{case['k']}")
            cfg, specs, keys2, par = build_config(ctx, rng, fam, facts, dict(keys, signer=wrong), par, specs, wd)
            sig["cert_block"] = os.path.splitext(cfg["certBlock"])[1]
            ok, sb = ctx.call(SecureBinary31.load_from_config, cfg, search_paths=[wd])
            if ok:
                ok, data = ctx.call(lambda: bytes(sb.export()))
        else:
            ok, sb = ctx.call(build_api, rng, fam, dict(keys, signer=wrong), par, specs)
            if ok:
                ok, data = ctx.call(lambda: bytes(sb.export()))
        ctx.count("wrong_signer_builds")
        if not ok:
            ctx.count("wrong_signer_refused")
            ctx.ok(dict(sig, outcome="refused"))
            return
        dev = {"rkth": keys["rkth"], "pck": par["pck"], "kdk_access_rights": par["rights"] if par["encrypted"] else 0, "encrypted": par["encrypted"]}
        try:
            rom.load(data, **dev)
        except rom.Sb31Reject as e:
            ctx.violation("sb31-built-with-a-signing-key-the-certificate-block-does-not-certify",
                          dict(sig, family=fam, loader_model=e.code, certified=right, given=wrong))
            return
        raise core.Inconclusive("the loader model accepted a container signed with an uncertified key")

    if kind == "bitflip_full":
        # every single bit of a small container
        keys = pick_keys(rng, root_curve=CURVES[case["k"] % 2], isk_kind=["none", "same", "other", "same"][case["k"] % 4],
                         n_roots=1 + case["k"] % 4)
        par = gen_container_params(rng, keys)
        specs = gen_command_list(rng, ALL_CMDS, end_mod=rng.randrange(256), blocks=core.pick(rng, [1, 1, 2, 2, 3]), n_cmds=core.pick(rng, [0, 1, 2, 3]))
        sb = build_api(rng, fams[case["k"] % len(fams)], keys, par, specs)
        history(ctx, sb, keys, par, specs, 1, "api", ALL_CMDS, flips="full", sig_extra={"sweep": "every-bit"})
        return

    raise core.Inconclusive(f"unknown case kind {kind}")


# --------------------------------------------------------------------------------- extra coverage
def extra_coverage(events, counters):  # noqa: ARG001
    ends, blocks, fams, paths = set(), set(), set(), set()
    for ev in events:
        if ev.get("t") == "ok" and "sig" in ev:
            try:
                s = json.loads(ev["sig"])
            except ValueError:
                continue
            if isinstance(s, dict):
                if "end" in s:
                    ends.add(s["end"])
                if "blocks" in s:
                    blocks.add(s["blocks"])
                if "family" in s:
                    fams.add(s["family"])
                if "path" in s:
                    paths.add(s["path"])
    return {"end_offsets_mod_256_seen": len(ends), "block_counts_seen": sorted(blocks), "families_seen": len(fams), "paths": sorted(paths)}
