"""Child interpreter of the C17 check: a fresh python runs one plan under M-RNG / M-CTR and dumps its ledgers.

usage: python c17_child.py <plan.json> <out.json> <workdir>
env:   PYTHONPATH=$VERIF_REPO:/verif, SPSDK_VERIF_MONITORS=1, private SPSDK_CACHE_FOLDER, PYTHONHASHSEED chosen by the parent

The output is a JSON object {"arts": [...], "refused": [...], "draws": [...], "ctr": [...], "patched": [...]} or
{"error": traceback}.  Nothing is judged here: the parent applies the offline checker to the dump.
"""
from __future__ import annotations

import json
import os
import shutil
import sys
import traceback


def main(argv: list[str]) -> int:
    plan_path, out_path, workdir = argv[0], argv[1], argv[2]
    result: dict = {}
    try:
        from vf import core

        core.setup_import_path()  # asserts that spsdk comes from VERIF_REPO
        from vf import monitors

        mon = monitors.install(core.repo_root())  # before any spsdk module that draws secrets is imported
        from vf.props import c17

        with open(plan_path, encoding="utf-8") as f:
            plan = json.load(f)
        record = c17.run_plan(plan, mon, workdir)
        result.update(record)
        result.update(c17.ledger_json(mon))
        import spsdk

        result["spsdk_file"] = os.path.abspath(spsdk.__file__)
        result["hashseed"] = os.environ.get("PYTHONHASHSEED")
        result["pid"] = os.getpid()
    except Exception:  # pylint: disable=broad-except
        result = {"error": traceback.format_exc()[-3000:]}
    finally:
        shutil.rmtree(workdir, ignore_errors=True)
    tmp = out_path + ".tmp"
    with open(tmp, "w", encoding="utf-8") as f:
        json.dump(result, f)
    os.replace(tmp, out_path)
    return 0


if __name__ == "__main__":
    sys.exit(main(sys.argv[1:]))
