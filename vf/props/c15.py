"""C15 - debug authentication: credentials and responses are bound and verifiable.

Runtime monitoring.  The real `spsdk.dat` code creates, signs, exports and re-parses debug credentials
(DC) for every DAT family / revision of the database under test and every protocol key type, builds
authentication responses (DAR) for model-synthesised challenges (DAC), and an independent field-level
model (`vf.refs.dat_ref`: layouts with struct, hashes with hashlib, pure-Python RSA / ECDSA
verification, keys as raw numbers from the committed pool) judges the bytes:

 (1) parse(export(dc)) returns equal field values and re-exports identically (auto-detecting parse);
 (2) the tail signature verifies under the RoT key the credential names over ALL preceding bytes; every
     configured value sits where the specification puts it; the bytes handed to the signer (M-SIGN hook
     on PrivateKeyRsa/Ecc.sign) equal the model's body byte for byte;
 (3) calculate_hash() equals the independent construction and - where a counterpart exists - the image
     tools' `Rot(family, revision, keys)`;
 (4) every response embeds DC, authentication beacon (and, protocol 2.x, the device UUID) and is signed by the
     DCK over DC || beacon || (UUID, protocol 2.x) || challenge: the M-SIGN record equals the model's message;
     the verifier rejects when exactly one of {challenge, DC, UUID, beacon} is changed in its expected message;
 (5) DebugAuthenticationChallenge.parse returns the synthesised fields, validate_against_dc accepts the
     matching credential and rejects another SOCC / UUID.
"""
from __future__ import annotations

import functools
import json
import os
import random
import struct

from vf import core, pki
from vf.refs import dat_ref as R

ID = "C15"
ROTATING_PKI = 0.3  # fraction of the key / certificate paths that are rotating slots (vf/pki.py)
LEVEL = "exploration"
TECHNIQUE = ("runtime monitoring: independent field-level decoder + pure-Python signature verification of real "
             "credentials/responses, signer hook (M-SIGN) compared with the model message, metamorphic binding checks")
RULE = (
    "every (family, revision) with the DAT feature in the database under test x RoT key type {RSA-2048, RSA-4096, P-256, "
    "P-384, P-521} x RoT set size 1..4 x used index (EdgeLock: 4 keys x used index; EdgeLock v2: AHAB certificate x SRK "
    "index; RSA-4096, 0.3 s per key load, on every 3rd (quick) / 2nd (thorough) non-EdgeLock device and all EdgeLock ones); "
    "six directed witnesses of the defects seen on the unchanged tree; SOCC from the database (or legacy 'socc' key), UUID / CC_SOCU / CC_VU / beacons random + edge values, key "
    "sources pub PEM/DER and certificates, signer by key file or file signature provider; per credential 1..2 model-"
    "synthesised challenges with random/edge challenge vectors. A case signature is (class, family, revision, key type, "
    "set size, used index); non-trivial = the credential was created, exported and judged by the model."
)
ASSUMPTIONS = [
    "DAT layouts, signature schemes and RoT-hash constructions as written in vf/refs/dat_ref.py (self-tested on five stored "
    "credentials, three device challenges and four RoT-hash values pinned in the repository's tests)",
    "RSA-3072 is not a DAT protocol key (1.0 = RSA-2048, 1.1 = RSA-4096) and is not generated; DCK has the RoT key type",
    "the RoT hash is compared with Rot(family, ...) only where a counterpart exists: cert_block_1 <-> RSA, cert_block_21 <-> "
    "P-256/P-384, srk_table_ahab <-> any type with 4 keys; P-521 has no cert-block counterpart; EdgeLock v2 credentials "
    "carry no RoT hash (calculate_hash() == b'' by design)",
    "EdgeLock needs exactly 4 super root keys (other counts are refusals); refusals (SPSDKError) are counted, never judged",
    "UUID is part of the signed response in protocol 2.x only (RSA protocol 1.x has none, also on EdgeLock)",
    "EdgeLock v2 response = AHAB signed message: the DCK signature covers header, message (unique id, challenge, beacon) "
    "and SRK table array but - by format - not the embedded certificate; the message unique id may be the credential's or "
    "the challenge's UUID (first 8 bytes, little-endian words); the configuration needs an extra 'output' key",
    "Dilithium/PQC second keys are not installed in this environment and are skipped",
    "object equality parse(export(dc)) == dc is judged for the classic classes; for EdgeLock v2 field values are compared "
    "(an absent UUID and 16 zero bytes are the same value)",
]
REQUIRED_COUNTERS = [
    "dc_created", "dc_roundtrip", "dc_signature", "dc_fields", "msign_dc", "rot_hash_model", "rot_hash_imagetool",
    "dac_parse", "dac_validate_accept", "dac_validate_reject", "dar_verified", "dar_metamorphic", "msign_dar",
]
CASE_TIMEOUT_S = 180
WATCHDOG_S = {"quick": 1500, "thorough": 7200}

KINDS = ("rsa2048", "rsa4096", "p256", "p384", "p521")
FIX = os.path.join(core.VERIF_ROOT, "fixtures", "c15")

# mechanism keys of the defects known on the unchanged tree (DESIGN.md section 3 + this implementation)
K_P521_TABLE = "p521-rotmeta-item-size"
K_P521_SINGLE = "p521-single-key-hash-label"
K_V2_SOCC = "ele-v2-socc-zeroed-by-base-ctor"
K_V2_UUID = "ele-v2-uuid-leading-zero-bytes-dropped"
K_PARSE_REV = "dc-parse-ele-v1-credential-of-v2-family"
K_SP_PSS = "sp-config-drops-pss-padding"  # same mechanism (and key) as the C08 finding in SignatureProvider.filter_params

_SIGN_LOG: list = []


# ------------------------------------------------------------------------------------------
def selftest(ctx):
    def load(name):
        with open(os.path.join(FIX, name), "rb") as f:
            return f.read()

    with open(os.path.join(FIX, "rot_goldens.json"), encoding="utf-8") as f:
        g = json.load(f)

    def key(k):
        k = dict(k)
        for f_ in ("n", "x", "y"):
            if f_ in k:
                k[f_] = int(k[f_], 16)
        return k

    samples = {
        "dc": [("new_dck_rsa2048.cert", "rsa", load("new_dck_rsa2048.cert")),
               ("new_dck_secp256r1.cert", "ecc", load("new_dck_secp256r1.cert")),
               ("lpc55s3x_dck_secp384r1.cert", "ecc", load("lpc55s3x_dck_secp384r1.cert")),
               ("rt118x_ecc256.dc", "ele", load("rt118x_ecc256.dc")),
               ("rt118x_rsa2048.dc", "ele", load("rt118x_rsa2048.dc"))],
        "dac": [("sample_dac.bin", 32, load("sample_dac.bin")), ("sample_dac_ecc.bin", 32, load("sample_dac_ecc.bin")),
                ("sample_dac_lpc55s3x.bin", 48, load("sample_dac_lpc55s3x.bin"))],
        "srkh": [(n, [key(k) for k in ks], ca, exp) for n, ks, ca, exp in g["srkh"]],
        "rkth": [(n, kl, [key(k) for k in ks], exp) for n, kl, ks, exp in g["rkth"]],
    }
    res = R.selftest(samples)
    # the verifier must accept the pool's own keys only on matching data (guards the pki <-> verifier glue)
    from vf.refs import ecdsa, rsa  # noqa: F401  (their own KATs run in vf.refs.selftest / setup.sh)
    for kind in KINDS:
        assert len(pki.names(kind)) >= 4, kind
    return res


# ------------------------------------------------------------------------------------------
def install_monitors(ctx):
    """M-SIGN: record exactly what is handed to the private keys and what comes back."""
    from spsdk.crypto import keys

    def wrap(cls):
        orig = cls.sign
        if getattr(orig, "_vf_msign", False):
            return

        @functools.wraps(orig)
        def sign(self, data, *a, **kw):
            sig = orig(self, data, *a, **kw)
            try:
                nums = self.key.public_key().public_numbers()
                pub = ("rsa", nums.n, nums.e) if hasattr(nums, "n") else ("ecc", nums.curve.key_size, nums.x, nums.y)
            except Exception:  # pylint: disable=broad-except
                pub = None
            _SIGN_LOG.append({"data": bytes(data), "sig": bytes(sig), "pub": pub, "pss": bool(kw.get("pss_padding", False))})
            return sig

        sign._vf_msign = True
        cls.sign = sign

    wrap(keys.PrivateKeyRsa)
    wrap(keys.PrivateKeyEcc)


def _pub_tuple(num):
    if num["type"] == "rsa":
        return ("rsa", num["n"], num["e"])
    return ("ecc", {"p256": 256, "p384": 384, "p521": 521}[num["curve"]], num["x"], num["y"])


def _spsdk_pub_tuple(pub):
    nums = pub.key.public_numbers()
    return ("rsa", nums.n, nums.e) if hasattr(nums, "n") else ("ecc", nums.curve.key_size, nums.x, nums.y)


# ------------------------------------------------------------------------------------------
@functools.lru_cache(None)
def _inventory():
    """(family, revision) pairs with the DAT feature, read from the database under test."""
    from spsdk.utils.database import DatabaseManager, get_db, get_device, get_families

    DAT = DatabaseManager.DAT
    inv = []
    for fam in sorted(get_families(DAT)):
        dev = get_device(fam)
        latest = dev.latest_rev
        for rev in sorted(r.name for r in dev.revisions):
            db = get_db(fam, rev)
            if DAT not in db.features:
                continue
            ele = db.get_bool(DAT, "based_on_ele", False)
            e = {
                "family": fam, "rev": rev, "latest": rev == latest, "socc": db.get_int(DAT, "socc"),
                "ele": ele, "ele_ver": db.get_int(DAT, "ele_cnt_version", 1) if ele else 0,
                "sha256_always": db.get_bool(DAT, "dat_is_using_sha256_always", False),
                "swapped": db.get_bool(DAT, "dac_version_is_swapped", False),
                "rot_not_part_of_dac": db.get_bool(DAT, "rot_not_part_of_dac", False),
                "rot_could_be_invalid": db.get_bool(DAT, "rot_could_be_invalid", False),
                "rot_type": None,
            }
            if DatabaseManager.CERT_BLOCK in db.features:
                try:
                    e["rot_type"] = db.get_str(DatabaseManager.CERT_BLOCK, "rot_type")
                except Exception:  # pylint: disable=broad-except
                    e["rot_type"] = None
            inv.append(e)
    return inv


@functools.lru_cache(None)
def _socc_groups():
    """SOCC -> layout facts shared by all (family, revision) with that SOCC (None where they disagree)."""
    g: dict = {}
    for e in _inventory():
        g.setdefault(e["socc"], []).append(e)
    out = {}
    for socc, es in g.items():
        facts = {(x["ele"], x["sha256_always"], x["swapped"]) for x in es}
        latest_v2 = any(x["ele_ver"] == 2 and x["latest"] for x in es)
        out[socc] = {"facts": facts.pop() if len(facts) == 1 else None, "latest_v2": latest_v2,
                     "families": sorted({x["family"] for x in es})}
    return out


def _entry(family, rev):
    for e in _inventory():
        if e["family"] == family and e["rev"] == rev:
            return e
    raise core.Inconclusive(f"{family}/{rev} is not a DAT device of the database under test")


def _hash_len(facts, version):
    ele, sha256_always, _sw = facts
    if ele:
        return 32
    if version[0] == 2 and not sha256_always:
        return {1: 48, 2: 64}.get(version[1], 32)
    return 32


def _klass(entry, kind):
    if entry["ele"]:
        return "ele2" if entry["ele_ver"] == 2 else "ele"
    return "rsa" if kind.startswith("rsa") else "ecc"


# ------------------------------------------------------------------------------------------
def cases(tier, seed):
    """Directed witnesses first, then the sweep.  ``VERIF_C15_STRIDE=N`` (used only when validating the monitors with
    canary mutants on a loaded machine) keeps every N-th sweep case; the default 1 is the frozen budget."""
    stride = max(1, int(os.environ.get("VERIF_C15_STRIDE") or 1))
    yield from _directed()
    for k, c in enumerate(_sweep(tier, seed)):
        if k % stride == 0:
            yield c


def _directed():
    inv = _inventory()
    # directed witnesses of the section-3 defects and of those found while building this check
    first = {}
    for e in inv:
        k = ("ele2" if e["ele_ver"] == 2 else "ele") if e["ele"] else "classic"
        if e["latest"]:
            first.setdefault(k, e)
    if "classic" in first:
        e = first["classic"]
        yield {"kind": "dc", "family": e["family"], "rev": e["rev"], "key": "p521", "n": 3, "used": 1, "w": "p521-table"}
        yield {"kind": "dc", "family": e["family"], "rev": e["rev"], "key": "p521", "n": 1, "used": 0, "w": "p521-single"}
    if "ele2" in first:
        e = first["ele2"]
        yield {"kind": "dc", "family": e["family"], "rev": e["rev"], "key": "p256", "n": 4, "used": 0, "w": "v2-socc"}
        yield {"kind": "dc", "family": e["family"], "rev": e["rev"], "key": "p384", "n": 4, "used": 1, "w": "v2-uuid-leading-zeros"}
    if "ele" in first:
        e = first["ele"]
        yield {"kind": "dc", "family": e["family"], "rev": e["rev"], "key": "rsa2048", "n": 4, "used": 3, "w": "sign-provider-pss"}
    v2_fams = {e["family"] for e in inv if e["ele_ver"] == 2 and e["latest"]}
    for e in inv:
        if e["ele"] and e["ele_ver"] == 1 and e["family"] in v2_fams:
            yield {"kind": "dc", "family": e["family"], "rev": e["rev"], "key": "p384", "n": 4, "used": 2, "w": "v1-on-v2-family"}
            break


def _sweep(tier, seed):
    inv = _inventory()
    rng = random.Random(f"{seed}/C15/cases")
    thorough = tier == "thorough"
    pairs = [(n, u) for n in range(1, 5) for u in range(n)]
    reps = 2 if thorough else 1
    for rep in range(reps):
        for idx, e in enumerate(inv):
            for key in KINDS:
                # RSA-4096 differs from RSA-2048 only in its sizes and costs 0.3 s per private-key load: sampled
                if key == "rsa4096" and not e["ele"] and ((idx + seed) % (2 if thorough else 3) or rep):
                    continue
                base = {"kind": "dc", "family": e["family"], "rev": e["rev"], "key": key}
                if e["ele"]:
                    useds = range(4) if thorough and key != "rsa4096" else [rng.randrange(4)]
                    for u in useds:
                        yield dict(base, n=4, used=u, rep=rep)
                    if e["ele_ver"] == 2 and not thorough:
                        yield dict(base, n=4, used=rng.randrange(4), rep=rep + 1)
                    if e["ele_ver"] == 2 and thorough and key != "rsa4096":
                        for u in range(4):
                            yield dict(base, n=4, used=u, rep=rep + 2)
                else:
                    sel = pairs if thorough else [pairs[rng.randrange(len(pairs))]]
                    for n, u in sel:
                        yield dict(base, n=n, used=u, rep=rep)
    # EdgeLock with another number of keys: must be refused (counted, not judged)
    for e in inv:
        if e["ele"] and e["ele_ver"] == 1 and e["latest"]:
            yield {"kind": "dc", "family": e["family"], "rev": e["rev"], "key": "p256", "n": 1 + rng.randrange(3), "used": 0, "refusal": 1}
    # extra random draws over everything (different value classes, legacy configuration)
    for k in range(600 if thorough else 60):
        e = inv[rng.randrange(len(inv))]
        key = core.pick(rng, ["rsa2048", "rsa2048", "p256", "p256", "p384", "p384", "p521", "p521", "rsa4096"])
        n, u = (4, rng.randrange(4)) if e["ele"] else pairs[rng.randrange(len(pairs))]
        yield {"kind": "dc", "family": e["family"], "rev": e["rev"], "key": key, "n": n, "used": u, "x": k}


# ------------------------------------------------------------------------------------------
EDGE32 = [0, 1, 0xFFFFFFFF, 0x80000000, 0x7FFFFFFF, 0x0FFF, 0xFFFF, 0x10000, 0x03FF]


def _v32(rng):
    return rng.getrandbits(32) if rng.random() < 0.55 else core.pick(rng, EDGE32)


def _repr_num(rng, v):
    return core.pick(rng, [v, v, hex(v), "0x%08X" % v, str(v)])


def _uuid(rng, v2=False, force=None):
    if force == "leading-zeros":
        return bytes(4) + core.rand_bytes(rng, 11) + b"\x01"
    r = rng.random()
    if r < 0.5:
        u = core.rand_bytes(rng, 16)
        if u[0] == 0:
            u = b"\x01" + u[1:]
        return u
    if r < 0.72:
        return bytes(16)
    if r < 0.8:
        return b"\xff" * 16
    if r < 0.88:
        return core.rand_bytes(rng, 12) + bytes(4)  # trailing zeros
    if r < 0.94:
        return b"\x00" + core.rand_bytes(rng, 14) + b"\x01"  # one leading zero byte
    z = 4 if (not v2 or rng.random() < 0.5) else 2  # several leading zero bytes (number-like UUIDs)
    return bytes(z) + core.rand_bytes(rng, 15 - z) + b"\x01"


def _key_source(rng, name, allow_cert=True):
    """-> (path, is_ca_certificate)."""
    forms = [("pub", "pem"), ("pub", "pem"), ("pub", "der")]
    if allow_cert:
        forms += [("cert", "pem"), ("cert", "der"), ("nonca", "pem")]
    what, fmt = core.pick(rng, forms)
    return pki.path(name, what, fmt), what == "cert"


def _names(rng, kind, n, used):
    pool = pki.names(kind)
    names = rng.sample(pool, n)
    rest = [x for x in pool if x not in names]
    dck = core.pick(rng, rest) if rest else core.pick(rng, [x for i, x in enumerate(names) if i != used] or names)
    return names, dck


def _viol(ctx, key, detail):
    ctx.violation(key, detail)


# ------------------------------------------------------------------------------------------
def run_case(case, ctx):  # noqa: C901
    if case["kind"] != "dc":
        raise core.Inconclusive(f"unknown case kind {case['kind']}")
    entry = _entry(case["family"], case["rev"])
    klass = _klass(entry, case["key"])
    os.makedirs(ctx.workdir, exist_ok=True)
    if klass == "ele2":
        return _run_v2(case, entry, ctx)
    return _run_classic(case, entry, klass, ctx)


def _sig(case, klass):
    return ["dc", klass, case["family"], case["rev"], case["key"], case["n"], case["used"]]


def _classify_parse(case, entry, klass, version, exc):
    if klass == "ecc" and case["key"] == "p521" and case["n"] > 1 and isinstance(exc, struct.error):
        return K_P521_TABLE
    if (klass == "ele" and _socc_groups()[entry["socc"]]["latest_v2"] and tuple(version) != (2, 0)
            and "AhabCertificate" in str(exc)):
        return K_PARSE_REV  # classic credential of an older revision handed to the AHAB-certificate parser
    return f"dc-parse-raises:{type(exc).__name__}"


def _classify_hash(case, klass, exc):
    if klass == "ecc" and case["key"] == "p521":
        if case["n"] > 1 and isinstance(exc, KeyError):
            return K_P521_TABLE
        if case["n"] == 1 and "sha521" in str(exc):
            return K_P521_SINGLE
    return f"dc-calculate-hash-raises:{type(exc).__name__}"


def _run_classic(case, entry, klass, ctx):  # noqa: C901
    from spsdk.dat.debug_credential import DebugCredentialCertificate as DC
    from spsdk.exceptions import SPSDKError
    from spsdk.utils.schema_validator import check_config

    rng = ctx.rng
    family, rev, kind, n, used = case["family"], case["rev"], case["key"], case["n"], case["used"]
    sig = _sig(case, klass)
    names, dck_name = _names(rng, kind, n, used)
    keys = [pki.numbers(x) for x in names]
    dck = pki.numbers(dck_name)
    version = R.proto_version(keys[used])
    uuid = _uuid(rng)
    cc_socu, cc_vu, beacon = _v32(rng), _v32(rng), _v32(rng)
    flag_ca = klass == "ele" and rng.random() < 0.35
    if klass == "ele" and not flag_ca:
        # the SRK table verifier refuses records with different flags: all sources CA certificates, or none
        if rng.random() < 0.25:
            sources = [(pki.path(x, "cert", core.pick(rng, ["pem", "der"])), True) for x in names]
        else:
            sources = [(pki.path(x, *core.pick(rng, [("pub", "pem"), ("pub", "der"), ("nonca", "pem")])), False) for x in names]
    else:
        sources = [_key_source(rng, x) for x in names]
    ca = [flag_ca or is_ca for _p, is_ca in sources] if klass == "ele" else False
    legacy = (not entry["ele"]) and entry["latest"] and rng.random() < 0.1
    cfg = {
        "uuid": uuid.hex().upper() if rng.random() < 0.5 else uuid.hex(),
        "cc_socu": _repr_num(rng, cc_socu), "cc_vu": _repr_num(rng, cc_vu), "cc_beacon": _repr_num(rng, beacon),
        "rot_meta": [p for p, _c in sources], "rot_id": core.pick(rng, [used, used, str(used)]),
        "dck": _key_source(rng, dck_name)[0],
    }
    if rng.random() < 0.7 and case.get("w") != "sign-provider-pss":
        cfg["rotk"] = pki.path(names[used], "priv", core.pick(rng, ["pem", "der"]))
    elif keys[used]["type"] == "ecc" and rng.random() < 0.5:
        # a plug-in style provider (HSM, signing server) that hands back DER encoded ECDSA signatures
        from vf.props.mbi_gen import der_signature_provider

        cfg["sign_provider"] = f"type={der_signature_provider()};file_path=" + pki.path(names[used], "priv", "pem")
        ctx.count("dc_signed_through_der_provider")
    else:
        cfg["sign_provider"] = "type=file;file_path=" + pki.path(names[used], "priv", "pem")
    if legacy:
        cfg["socc"] = _repr_num(rng, entry["socc"])
        schema_family = DC.get_family_ambassador(entry["socc"])
        schema_rev = "latest"
    else:
        cfg["family"] = family
        if not entry["latest"] or rng.random() < 0.5:
            cfg["revision"] = rev
        schema_family, schema_rev = family, rev
    if klass == "ele" and (flag_ca or rng.random() < 0.3):
        cfg["flag_ca"] = flag_ca
    cfg_view = {k: v for k, v in cfg.items()}

    # ---- create / sign / export --------------------------------------------------------------
    try:
        check_config(cfg, DC.get_validation_schemas(schema_family, schema_rev))
        dc = DC.create_from_yaml_config(config=cfg)
        del _SIGN_LOG[:]
        dc.sign()
        data = dc.export()
        if dc.export() != data:
            ctx.violation("dc-second-export-of-the-signed-object-differs", {"case": case, "len": len(data)})
            return
    except SPSDKError as e:
        ctx.refused(sig, core.exc_brief(e))
        ctx.count("dc_refused")
        if not case.get("refusal") and not (klass == "ele" and n != 4):
            ctx.note("unexpected_refusal", {"case": case, "why": core.exc_brief(e)})
        return
    log = list(_SIGN_LOG)
    ctx.count("dc_created")
    witness = {"config": cfg_view, "len": len(data)}
    if klass == "ele" and n != 4:
        ctx.note("ele_credential_with_other_key_count", {"case": case})
        return

    # ---- (2) model: fields, body, signature, M-SIGN -------------------------------------------
    slen = R.signature_size(keys[used])
    body, sigbytes = data[:-slen], data[-slen:]
    want_body = R.build_dc_body(klass, version, entry["socc"], uuid, cc_socu, cc_vu, beacon, keys, used, dck, ca)
    fields_ok = True
    try:
        d = R.decode_dc(data, klass)
    except R.Reject as e:
        fields_ok = False
        _viol(ctx, "dc-layout-rejected-by-model", dict(witness, reason=str(e), head=data[:48]))
        d = None
    if d is not None:
        exp = {"version": version, "socc": entry["socc"], "uuid": uuid, "cc_socu": cc_socu, "cc_vu": cc_vu, "beacon": beacon,
               "count": n, "used": used}
        for f, v in exp.items():
            if d[f] != v:
                fields_ok = False
                _viol(ctx, f"dc-field-misplaced:{f}", dict(witness, field=f, in_bytes=d[f], configured=v))
        if not R.same_key(d["rot_pub"], keys[used]):
            fields_ok = False
            _viol(ctx, "dc-field-misplaced:rot_pub", witness)
        if not R.same_key(d["dck_pub"], dck):
            fields_ok = False
            _viol(ctx, "dc-field-misplaced:dck_pub", witness)
        if d["rot_meta"] != R.rot_meta(klass, keys, used, ca):
            fields_ok = False
            _viol(ctx, "dc-rot-meta-differs-from-model", dict(witness, in_bytes=d["rot_meta"][:80], klass=klass, count=d["count"]))
        if d["signed"] != body or d["signature"] != sigbytes:
            fields_ok = False
            _viol(ctx, "dc-signature-not-the-tail", witness)
    if body != want_body:
        if fields_ok:
            _viol(ctx, "dc-body-differs-from-model", dict(witness, got=body[:64], want=want_body[:64]))
        fields_ok = False
    ctx.count("dc_fields")

    pss = klass == "ele"
    sig_ok = R.verify(keys[used], body, sigbytes, pss=pss)
    if not sig_ok:
        other = R.verify(keys[used], body, sigbytes, pss=not pss) if keys[used]["type"] == "rsa" else False
        if other and pss and "sign_provider" in cfg_view:
            key = K_SP_PSS
        else:
            key = "dc-signature-wrong-padding-scheme" if other else "dc-signature-does-not-verify-over-all-preceding-bytes"
        _viol(ctx, key, dict(witness, rot_key=names[used], pss_expected=pss, where="credential signature"))
    else:
        pos = rng.randrange(len(body))
        bad = bytearray(body)
        bad[pos] ^= 1 << rng.randrange(8)
        if R.verify(keys[used], bytes(bad), sigbytes, pss=pss):
            raise core.Inconclusive("reference verifier accepted a modified credential body")
    ctx.count("dc_signature")

    recs = [r for r in log if r["pub"] == _pub_tuple(keys[used])]
    if len(log) != 1:
        ctx.note("signer_calls_per_credential", len(log))  # more than one call is tolerated, the stored signature decides
    def _as_stored(sig_):  # a provider may hand back DER; the credential stores r||s
        if sig_[:1] == b"\x30" and len(sig_) != len(sigbytes):
            try:
                from vf.refs import ecdsa as _E

                r_, s_ = _E.der_decode_sig(sig_)
                half = len(sigbytes) // 2
                return r_.to_bytes(half, "big") + s_.to_bytes(half, "big")
            except Exception:  # pylint: disable=broad-except
                return sig_
        return sig_

    stored = [r for r in recs if _as_stored(r["sig"]) == sigbytes]
    if not recs:
        _viol(ctx, "dc-msign-rot-key-never-signed", dict(witness, calls=len(log)))
    elif not stored:
        # ECDSA comes back as r||s already; anything else means the stored signature is not the signer's
        _viol(ctx, "dc-msign-signature-not-stored", witness)
    elif stored[-1]["data"] != want_body:
        _viol(ctx, "dc-msign-signed-data-differs-from-model",
              dict(witness, signed_len=len(stored[-1]["data"]), model_len=len(want_body)))
    ctx.count("msign_dc")

    # ---- (1) parse / re-export ------------------------------------------------------------------
    parsed = None
    try:
        parsed = DC.parse(data)
    except Exception as e:  # pylint: disable=broad-except
        if core.origin_of(e) != "repo":
            raise
        _viol(ctx, _classify_parse(case, entry, klass, version, e), dict(witness, exception=core.exc_brief(e), version=version))
    if parsed is not None:
        mism = []
        if type(parsed) is not type(dc):
            mism.append("class")
        else:
            got = {"version": (parsed.version.major, parsed.version.minor), "socc": parsed.socc, "uuid": bytes(parsed.uuid),
                   "cc_socu": parsed.cc_socu, "cc_vu": parsed.cc_vu, "beacon": parsed.cc_beacon,
                   "rot_pub": _spsdk_pub_tuple(parsed.rot_pub), "dck_pub": _spsdk_pub_tuple(parsed.dck_pub),
                   "signature": bytes(parsed.signature)}
            want = {"version": version, "socc": entry["socc"], "uuid": uuid, "cc_socu": cc_socu, "cc_vu": cc_vu, "beacon": beacon,
                    "rot_pub": _pub_tuple(keys[used]), "dck_pub": _pub_tuple(dck), "signature": sigbytes}
            mism = [f for f in want if got[f] != want[f]]
            if not mism and not parsed.rot_meta == dc.rot_meta:
                mism.append("rot_meta")
            if not mism and not parsed == dc:
                mism.append("object-equality")
        for f in mism:
            _viol(ctx, f"dc-parse-field-differs:{f}", dict(witness, field=f))
        try:
            again = parsed.export()
        except Exception as e:  # pylint: disable=broad-except
            if core.origin_of(e) != "repo":
                raise
            again = None
            _viol(ctx, f"dc-reexport-raises:{type(e).__name__}", dict(witness, exception=core.exc_brief(e)))
        if again is not None and again != data:
            _viol(ctx, "dc-reexport-differs", dict(witness, first_diff=next((i for i, (a, b) in enumerate(zip(again, data)) if a != b), min(len(again), len(data)))))
    ctx.count("dc_roundtrip")

    # ---- (3) RoT hash ------------------------------------------------------------------------------
    want_hash = R.rot_hash(klass, keys, used, ca)
    got_hash = None
    try:
        got_hash = dc.calculate_hash()
    except Exception as e:  # pylint: disable=broad-except
        if core.origin_of(e) != "repo":
            raise
        _viol(ctx, _classify_hash(case, klass, e), dict(witness, exception=core.exc_brief(e)))
    if got_hash is not None:
        if got_hash != want_hash:
            _viol(ctx, "dc-rothash-differs-from-model", dict(witness, spsdk=got_hash, model=want_hash))
        if parsed is not None:
            try:
                ph = parsed.calculate_hash()
            except Exception as e:  # pylint: disable=broad-except
                if core.origin_of(e) != "repo":
                    raise
                ph = None
                _viol(ctx, _classify_hash(case, klass, e), dict(witness, exception=core.exc_brief(e), on="parsed"))
            if ph is not None and ph != got_hash:
                _viol(ctx, "dc-rothash-changes-on-parse", dict(witness, created=got_hash, parsed=ph))
        ctx.count("rot_hash_model")
        counterpart = ((entry["rot_type"] == "cert_block_1" and klass == "rsa")
                       or (entry["rot_type"] == "cert_block_21" and klass == "ecc" and kind in ("p256", "p384"))
                       or (entry["rot_type"] == "srk_table_ahab" and klass == "ele" and not flag_ca))
        if counterpart:
            from spsdk.utils.crypto.rot import Rot

            tool = Rot(family, rev, keys_or_certs=[p for p, _c in sources]).calculate_hash()
            if tool != got_hash:
                _viol(ctx, "dc-rothash-differs-from-image-tools", dict(witness, dc=got_hash, rot=tool, rot_type=entry["rot_type"]))
            ctx.count("rot_hash_imagetool")
        else:
            ctx.count("rot_hash_no_counterpart")

    # ---- (4)+(5) challenges and responses ---------------------------------------------------------
    dcpath = os.path.join(ctx.workdir, f"dc_{ctx.case_index}.bin")
    with open(dcpath, "wb") as f:
        f.write(data)
    try:
        for _ in range(2 if rng.random() < 0.3 else 1):
            _challenge_and_response(ctx, case, entry, klass, rng, data=data, dcpath=dcpath, dc_obj=parsed if parsed is not None else dc,
                                    parsed_ok=parsed is not None, version=version, uuid=uuid, dck=dck, dck_name=dck_name,
                                    rot_hash=got_hash if got_hash is not None else None, model_hash=want_hash, witness=witness)
    finally:
        os.remove(dcpath)
    if rng.random() < 0.4:
        # one credential object serves a series of devices: another UUID, signed again, exported again - every credential of
        # the series is signed over ITS fields
        uuid2 = core.rand_bytes(rng, 16)
        try:
            dc.uuid = uuid2
            dc.sign()
            data2 = dc.export()
        except SPSDKError as e:
            ctx.note("dc_resign_refused", core.exc_brief(e))
            data2 = None
        if data2 is not None:
            ctx.count("dc_signed_again_for_another_device")
            body2 = R.build_dc_body(klass, version, entry["socc"], uuid2, cc_socu, cc_vu, beacon, keys, used, dck, ca)
            w2 = dict(witness, second_uuid=uuid2)
            if data2[:-slen] != body2:
                _viol(ctx, "dc-signed-again:body-differs-from-model", dict(w2, got=data2[:64], want=body2[:64]))
            elif not R.verify(keys[used], body2, data2[-slen:], pss=pss):
                _viol(ctx, "dc-signed-again:signature-does-not-verify-over-the-new-fields",
                      dict(w2, verifies_over_the_first_fields=R.verify(keys[used], body, data2[-slen:], pss=pss)))
    ctx.ok(sig, sample={"family": family, "revision": rev, "class": klass, "version": list(version), "rot_keys": names, "used": used,
                        "dck": dck_name, "uuid": uuid, "cc_socu": cc_socu, "cc_vu": cc_vu, "cc_beacon": beacon, "dc_len": len(data),
                        "signature_verified": sig_ok, "rot_hash": want_hash})


def _challenge_and_response(ctx, case, entry, klass, rng, *, data, dcpath, dc_obj, parsed_ok, version, uuid, dck, dck_name,
                            rot_hash, model_hash, witness):  # noqa: C901
    from spsdk.dat.dac_packet import DebugAuthenticationChallenge as DAC
    from spsdk.dat.dar_packet import DebugAuthenticateResponse as DAR
    from spsdk.exceptions import SPSDKError

    family, rev = case["family"], case["rev"]
    grp = _socc_groups()[entry["socc"]]
    facts = grp["facts"]
    dev_uuid = uuid if any(uuid) else core.rand_bytes(rng, 16)
    challenge = core.pick(rng, [None, None, None, bytes(32), b"\xff" * 32]) or core.rand_bytes(rng, 32)
    dacv = version if klass != "ele2" else (2, 0)
    cross = klass == "ele" and rng.random() < 0.35
    if cross:
        # EdgeLock-enclave parts do not compare the protocol version of challenge and credential: a challenge may announce the
        # other major version.  The response still belongs to its CREDENTIAL: layout and signed message follow the
        # credential's protocol version
        dacv = core.pick(rng, [(2, 0), (2, 1), (2, 2)] if version[0] == 1 else [(1, 0), (1, 1)])
    dac = None
    if facts is None:
        ctx.count("dac_layout_ambiguous_socc")
    else:
        hl = _hash_len(facts, dacv)
        rk = (rot_hash or model_hash or b"")[:hl].ljust(hl, b"\0")
        if entry["rot_not_part_of_dac"] or not rk:
            rk = core.rand_bytes(rng, hl)
        rev_, pin, dfl, vu = (rng.getrandbits(32) for _ in range(4))
        raw = R.build_dac(dacv, entry["socc"], dev_uuid, rev_, rk, pin, dfl, vu, challenge, swapped=facts[2])
        dac = DAC.parse(raw)
        got = {"version": (dac.version.major, dac.version.minor), "socc": dac.socc, "uuid": bytes(dac.uuid),
               "revocation": dac.rotid_rkh_revocation, "rkth": bytes(dac.rotid_rkth_hash), "cc_pinned": dac.cc_soc_pinned,
               "cc_default": dac.cc_soc_default, "cc_vu": dac.cc_vu, "challenge": bytes(dac.challenge)}
        want = {"version": tuple(dacv), "socc": entry["socc"], "uuid": dev_uuid, "revocation": rev_, "rkth": rk, "cc_pinned": pin,
                "cc_default": dfl, "cc_vu": vu, "challenge": challenge}
        for f in want:
            if got[f] != want[f]:
                _viol(ctx, f"dac-parse-field-differs:{f}", dict(witness, field=f, parsed=got[f], sent=want[f], dac=raw[:40]))
        ctx.count("dac_parse")
        hash_broken = rot_hash is None and klass != "ele2"
        if not hash_broken:
            # matching -> accepted
            try:
                dac.validate_against_dc(family, dc_obj)
                ctx.count("dac_validate_accept")
                if cross:
                    ctx.count("dac_other_major_version_accepted")
            except SPSDKError as e:
                if cross:
                    ctx.count("dac_other_major_version_refused")
                    return dac, dev_uuid, challenge  # a refusal of the odd pair is fine; nothing more to judge
                if klass == "ele2" and dc_obj.socc == 0 and entry["socc"] != 0 and "SOCC" in str(e):
                    _viol(ctx, K_V2_SOCC, dict(witness, where="validate_against_dc rejects the device's own challenge", error=core.exc_brief(e)))
                    return dac, dev_uuid, challenge  # every further validate call would stop at the same SOCC comparison
                _viol(ctx, "dac-validate-rejects-matching", dict(witness, error=core.exc_brief(e)))
            # other SOCC -> rejected (through parse where another SOCC shares the wire layout, else on the object)
            others = [s for s, g in _socc_groups().items() if s != entry["socc"] and g["facts"] is not None
                      and _hash_len(g["facts"], dacv) == hl and g["facts"][2] == facts[2]]
            if others:
                o = core.pick(rng, sorted(others))
                other = DAC.parse(R.build_dac(dacv, o, dev_uuid, rev_, rk, pin, dfl, vu, challenge, swapped=facts[2]))
            else:
                other = DAC.parse(raw)
                other.socc = entry["socc"] ^ (1 << rng.randrange(32))
            socc_matters = not (klass == "ele2" and dc_obj.socc != entry["socc"])  # (already reported as the v2 SOCC defect)
            if socc_matters:
                try:
                    other.validate_against_dc(family, dc_obj)
                    _viol(ctx, "dac-validate-accepts-other-socc", dict(witness, dac_socc=other.socc, dc_socc=entry["socc"]))
                except SPSDKError:
                    ctx.count("dac_validate_reject")
            # other UUID -> rejected unless the credential is a wildcard (all-zero UUID)
            o2 = DAC.parse(raw)
            o2.uuid = bytes(b ^ 0x80 if i == rng.randrange(16) else b for i, b in enumerate(dev_uuid))
            if o2.uuid == dev_uuid:
                o2.uuid = bytes([dev_uuid[0] ^ 1]) + dev_uuid[1:]
            try:
                o2.validate_against_dc(family, dc_obj)
                if any(uuid):
                    _viol(ctx, "dac-validate-accepts-other-uuid", dict(witness, dac_uuid=o2.uuid, dc_uuid=uuid))
                else:
                    ctx.count("dac_validate_wildcard_uuid")
            except SPSDKError as e:
                if any(uuid):
                    ctx.count("dac_validate_reject")
                else:
                    _viol(ctx, "dac-validate-rejects-wildcard-credential", dict(witness, error=core.exc_brief(e)))

    if klass == "ele2":
        return dac, dev_uuid, challenge
    # ---- response -------------------------------------------------------------------------------------
    if dac is None:
        dac = DAC(version=dc_obj.version, socc=entry["socc"], uuid=dev_uuid, rotid_rkh_revocation=0, rotid_rkth_hash=bytes(32),
                  cc_soc_pinned=0, cc_soc_default=0, cc_vu=0, challenge=challenge)
    auth_beacon = core.pick(rng, [rng.getrandbits(16), rng.getrandbits(16), 0, 1, 0xFFFF, rng.getrandbits(32), 0xFFFFFFFF])
    dck_priv = pki.path(dck_name, "priv", "pem")
    del _SIGN_LOG[:]
    used_sp = False
    try:
        if parsed_ok:
            dcfg = {"family": family, "certificate": dcpath, "beacon": auth_beacon}
            if not entry["latest"] or rng.random() < 0.5:
                dcfg["revision"] = rev
            if rng.random() < 0.7:
                dcfg["dck_private_key"] = dck_priv
            else:
                dcfg["sign_provider"] = "type=file;file_path=" + dck_priv
                used_sp = True
            dar = DAR.load_from_config(dcfg, dac)
        elif not entry["ele"]:
            # the auto-detecting parse failed (reported above): the object API still builds the response
            dar = DAR.create(family=family, version=None, dc=dc_obj, auth_beacon=auth_beacon, dac=dac, dck=dck_priv)
        else:
            ctx.count("dar_skipped_after_parse_failure")
            return dac, dev_uuid, challenge
        if rng.random() < 0.4:
            # the response object answered ANOTHER challenge (other device UUID, other beacon) before: what it exports now
            # depends on the challenge, beacon and credential it holds now
            import copy as _copy

            other = _copy.copy(dac)
            other.uuid = bytes(b ^ 0x5A for b in dev_uuid)
            other.challenge = bytes(b ^ 0xC3 for b in challenge)
            dar.dac, dar.auth_beacon = other, auth_beacon ^ 0x1
            dar.export()
            dar.dac, dar.auth_beacon = dac, auth_beacon
            del _SIGN_LOG[:]
            ctx.count("dar_objects_reused")
        out = dar.export()
    except SPSDKError as e:
        ctx.refused(["dar"] + _sig(case, klass), core.exc_brief(e))
        ctx.note("dar_refused", {"case": case, "why": core.exc_brief(e)})
        return dac, dev_uuid, challenge
    log = list(_SIGN_LOG)
    ctx.count("dar_built")
    w = dict(witness, auth_beacon=auth_beacon, challenge=challenge, dac_uuid=dev_uuid)
    try:
        dd = R.decode_dar(out, len(data), dck, version[0])
    except R.Reject as e:
        try:  # the property names the credential and the beacon only: a response without the UUID field is still judged
            dd = R.decode_dar(out, len(data), dck, 3 - version[0])
            ctx.note("dar_uuid_field_unexpected", {"case": case, "dar_len": len(out)})
        except R.Reject:
            _viol(ctx, "dar-layout-rejected-by-model", dict(w, reason=str(e), dar_len=len(out)))
            return dac, dev_uuid, challenge
    if dd["dc"] != data:
        _viol(ctx, "dar-does-not-embed-credential", w)
    if dd["beacon"] != auth_beacon:
        _viol(ctx, "dar-does-not-embed-authentication-beacon", dict(w, in_bytes=dd["beacon"]))
    major = version[0]
    if major == 2 and dd["uuid"] is not None and dd["uuid"] != dev_uuid:
        ctx.note("dar_embedded_uuid_differs_from_device_uuid", {"case": case, "in_bytes": dd["uuid"], "device": dev_uuid})
    msg = R.dar_message(data, auth_beacon, dev_uuid, challenge, major)
    pss = entry["ele"]
    if not R.verify(dck, msg, dd["signature"], pss=pss):
        alt = R.dar_message(data, auth_beacon, dev_uuid, challenge, 3 - major)
        if R.verify(dck, alt, dd["signature"], pss=pss):
            key = "dar-uuid-missing-from-signed-data" if major == 2 else "dar-uuid-signed-in-protocol-1"
        elif dck["type"] == "rsa" and R.verify(dck, msg, dd["signature"], pss=not pss):
            key = K_SP_PSS if (pss and used_sp) else "dar-signature-wrong-padding-scheme"
        else:
            key = "dar-signature-does-not-verify-over-dc-beacon-uuid-challenge"
        _viol(ctx, key, dict(w, major=major))
    else:
        ctx.count("dar_verified")
        # binding by metamorphosis: change exactly one component of the verifier's expected message
        ch2 = bytearray(challenge)
        ch2[rng.randrange(32)] ^= 1 << rng.randrange(8)
        dc2 = bytearray(data)
        dc2[rng.randrange(len(dc2))] ^= 1 << rng.randrange(8)
        uu2 = bytearray(dev_uuid)
        uu2[rng.randrange(16)] ^= 1 << rng.randrange(8)
        variants = {"challenge": R.dar_message(data, auth_beacon, dev_uuid, bytes(ch2), major),
                    "DC": R.dar_message(bytes(dc2), auth_beacon, dev_uuid, challenge, major),
                    "beacon": R.dar_message(data, auth_beacon ^ (1 << rng.randrange(32)), dev_uuid, challenge, major)}
        if major == 2:
            variants["UUID"] = R.dar_message(data, auth_beacon, bytes(uu2), challenge, major)
        for what, m2 in variants.items():
            if m2 == msg:
                raise core.Inconclusive("metamorphic variant equals the original message")
            if R.verify(dck, m2, dd["signature"], pss=pss):
                _viol(ctx, f"dar-verifies-against-other-{what.lower()}", w)
            ctx.count("dar_metamorphic")
    recs = [r for r in log if r["pub"] == _pub_tuple(dck) and r["sig"] == dd["signature"]]
    if not recs:
        _viol(ctx, "dar-msign-signature-not-stored", dict(w, calls=len(log)))
    else:
        recs = recs[-1:]
        if recs[0]["data"] != msg:
            rd = recs[0]["data"]
            if major == 2 and rd == R.dar_message(data, auth_beacon, dev_uuid, challenge, 1):
                key = "dar-uuid-missing-from-signed-data"
            elif rd == data + challenge or rd == data + (dev_uuid if major == 2 else b"") + challenge:
                key = "dar-beacon-missing-from-signed-data"
            else:
                key = "dar-msign-signed-data-differs-from-model"
            _viol(ctx, key, dict(w, signed_len=len(rd), model_len=len(msg)))
    ctx.count("msign_dar")
    return dac, dev_uuid, challenge


# ------------------------------------------------------------------------------------------
def _run_v2(case, entry, ctx):  # noqa: C901
    from spsdk.dat.dar_packet import DebugAuthenticateResponse as DAR
    from spsdk.dat.debug_credential import DebugCredentialCertificate as DC
    from spsdk.dat.debug_credential import DebugCredentialEdgeLockEnclaveV2 as DCV2
    from spsdk.exceptions import SPSDKError
    from spsdk.utils.schema_validator import check_config

    rng = ctx.rng
    family, rev, kind, used = case["family"], case["rev"], case["key"], case["used"]
    sig = _sig(case, "ele2")
    klass_cls = DC._get_class(family=family, revision=rev)
    if klass_cls is not DCV2:
        raise core.Inconclusive(f"{family}/{rev}: database says EdgeLock v2, class selection says {klass_cls.__name__}")
    names, dck_name = _names(rng, kind, 4, used)
    keys = [pki.numbers(x) for x in names]
    dck = pki.numbers(dck_name)
    w = case.get("w")
    uuid = _uuid(rng, v2=True, force="leading-zeros" if w == "v2-uuid-leading-zeros" else None)
    if w == "v2-socc":
        uuid = b"\x11" + core.rand_bytes(rng, 15)
    elif w is None and uuid[:2] == b"\0\0" and any(uuid) and rng.random() < 0.6:
        uuid = b"\x21" + uuid[1:]  # keep most runs clear of the leading-zero defect so that the rest is exercised
    with_uuid = any(uuid) or rng.random() < 0.5
    cc_socu = _v32(rng)
    fuse = core.pick(rng, [0, 0, 1, 7, 255, rng.randrange(256)])
    set_beacon = rng.random() < 0.3
    beacon = _v32(rng) if set_beacon else 0
    cfg = {"family": family, "cc_socu": _repr_num(rng, cc_socu), "fuse_version": fuse,
           "public_key_0": _key_source(rng, dck_name, allow_cert=False)[0]}
    if not entry["latest"] or rng.random() < 0.5:
        cfg["revision"] = rev
    if with_uuid:
        cfg["uuid"] = "0x" + uuid.hex()
    if rng.random() < 0.7:
        cfg["signing_key_0"] = pki.path(names[used], "priv", "pem")
    else:
        cfg["signature_provider_0"] = "type=file;file_path=" + pki.path(names[used], "priv", "pem")
    cfg_view = dict(cfg)
    try:
        check_config(cfg, DCV2.get_validation_schemas(family, rev))
        dc = DCV2.create_from_yaml_config(config=dict(cfg))
        if set_beacon:
            dc.beacon = beacon
        del _SIGN_LOG[:]
        dc.sign()
        data = dc.export()
    except SPSDKError as e:
        ctx.refused(sig, core.exc_brief(e))
        ctx.note("unexpected_refusal", {"case": case, "why": core.exc_brief(e)})
        return
    log = list(_SIGN_LOG)
    ctx.count("dc_created")
    witness = {"config": cfg_view, "len": len(data), "head": data[:40]}

    try:
        d = R.decode_cert_v2(data)
    except R.Reject as e:
        _viol(ctx, "dc-layout-rejected-by-model", dict(witness, reason=str(e)))
        return
    uuid_in_bytes = d["uuid"]
    if d["permissions"] != R.PERM_DEBUG:
        _viol(ctx, "dc-field-misplaced:permissions", dict(witness, in_bytes=d["permissions"]))
    if d["socc"] != entry["socc"]:
        _viol(ctx, K_V2_SOCC if d["socc"] == 0 else "dc-field-misplaced:socc",
              dict(witness, in_bytes=d["socc"], database=entry["socc"], where="permission data of the created credential"))
    if d["cc_socu"] != cc_socu:
        _viol(ctx, "dc-field-misplaced:cc_socu", dict(witness, in_bytes=d["cc_socu"], configured=cc_socu))
    if d["beacon"] != beacon:
        _viol(ctx, "dc-field-misplaced:beacon", dict(witness, in_bytes=d["beacon"], configured=beacon))
    if d["fuse_version"] != fuse:
        _viol(ctx, "dc-field-misplaced:fuse_version", dict(witness, in_bytes=d["fuse_version"], configured=fuse))
    if d["uuid"] != uuid:
        stripped = uuid.lstrip(b"\0")
        dropped = uuid[:4] == bytes(4) and any(uuid) and d["uuid"].rstrip(b"\0") == stripped.rstrip(b"\0") and d["uuid"] != uuid
        _viol(ctx, K_V2_UUID if dropped else "dc-field-misplaced:uuid", dict(witness, in_bytes=d["uuid"], configured=uuid))
    if not R.same_key(d["dck_pub"], dck):
        _viol(ctx, "dc-field-misplaced:dck_pub", witness)
    ctx.count("dc_fields")
    sig_ok = R.verify(keys[used], d["signed"], d["signature"], pss=True)
    if not sig_ok:
        pkcs = keys[used]["type"] == "rsa" and R.verify(keys[used], d["signed"], d["signature"], pss=False)
        if pkcs and "signature_provider_0" in cfg_view:
            key = K_SP_PSS
        else:
            key = "dc-signature-wrong-padding-scheme" if pkcs else "dc-signature-does-not-verify-over-all-preceding-bytes"
        _viol(ctx, key, dict(witness, signer=names[used], where="certificate signature"))
    else:
        bad = bytearray(d["signed"])
        bad[rng.randrange(len(bad))] ^= 1 << rng.randrange(8)
        if R.verify(keys[used], bytes(bad), d["signature"], pss=True):
            raise core.Inconclusive("reference verifier accepted a modified certificate")
    ctx.count("dc_signature")
    recs = [r for r in log if r["pub"] == _pub_tuple(keys[used]) and r["sig"] == d["signature"]]
    if not recs:
        _viol(ctx, "dc-msign-signature-not-stored", dict(witness, calls=len(log)))
    elif recs[-1]["data"] != d["signed"]:
        _viol(ctx, "dc-msign-signed-data-differs-from-model", dict(witness, signed_len=len(recs[-1]["data"]), model_len=len(d["signed"])))
    ctx.count("msign_dc")

    parsed = None
    try:
        parsed = DC.parse(data)
    except Exception as e:  # pylint: disable=broad-except
        if core.origin_of(e) != "repo":
            raise
        _viol(ctx, f"dc-parse-raises:{type(e).__name__}", dict(witness, exception=core.exc_brief(e)))
    if parsed is not None:
        if not isinstance(parsed, DCV2):
            _viol(ctx, "dc-parse-field-differs:class", dict(witness, got=type(parsed).__name__))
        else:
            got = {"socc": parsed.socc, "cc_socu": parsed.socu, "beacon": parsed.beacon,
                   "uuid": bytes(parsed.uuid or b"").ljust(16, b"\0"), "dck_pub": _spsdk_pub_tuple(parsed.dck_pub),
                   "fuse_version": parsed.certificate.fuse_version}
            want = {"socc": d["socc"], "cc_socu": d["cc_socu"], "beacon": d["beacon"], "uuid": d["uuid"], "dck_pub": _pub_tuple(dck),
                    "fuse_version": d["fuse_version"]}
            for f in want:
                if got[f] != want[f]:
                    key = K_V2_SOCC if (f == "socc" and got[f] == 0) else f"dc-parse-field-differs:{f}"
                    _viol(ctx, key, dict(witness, field=f, parsed=got[f], in_bytes=want[f], where="parse"))
            again = parsed.export()
            if again != data:
                d2 = None
                try:
                    d2 = R.decode_cert_v2(again)
                except R.Reject:
                    pass
                key = K_V2_SOCC if (d2 is not None and d2["socc"] == 0 and d["socc"] != 0) else "dc-reexport-differs"
                _viol(ctx, key, dict(witness, where="re-export of the parsed credential"))
    ctx.count("dc_roundtrip")
    if dc.calculate_hash() != b"":
        ctx.note("v2_calculate_hash_not_empty", {"case": case})

    # ---- challenge + response -------------------------------------------------------------------------
    dc_obj = parsed if parsed is not None else dc
    dac, dev_uuid, challenge = _challenge_and_response(
        ctx, case, entry, "ele2", rng, data=data, dcpath=None, dc_obj=dc_obj, parsed_ok=parsed is not None, version=(2, 0),
        uuid=uuid_in_bytes, dck=dck, dck_name=dck_name, rot_hash=None, model_hash=None, witness=witness)
    if parsed is None:
        ctx.count("dar_skipped_after_parse_failure")
        ctx.ok(sig)
        return
    if dac is None:
        from spsdk.dat.dac_packet import DebugAuthenticationChallenge as DAC

        dac = DAC(version=dc_obj.version, socc=entry["socc"], uuid=dev_uuid, rotid_rkh_revocation=0, rotid_rkth_hash=bytes(32),
                  cc_soc_pinned=0, cc_soc_default=0, cc_vu=0, challenge=challenge)
    dcpath = os.path.join(ctx.workdir, f"dc_{ctx.case_index}.bin")
    with open(dcpath, "wb") as f:
        f.write(data)
    auth_beacon = core.pick(rng, [rng.getrandbits(16), 0, 1, 0xFFFF])
    srk_sources = [_key_source(rng, x, allow_cert=False)[0] for x in names]
    dcfg = {"family": family, "revision": rev, "certificate": dcpath, "beacon": auth_beacon, "srk_set": "oem", "used_srk_id": used,
            "srk_revoke_mask": 0, "signing_key": pki.path(dck_name, "priv", "pem"),
            "srk_table": {"flag_ca": False, "srk_array": srk_sources}, "output": os.path.join(ctx.workdir, "unused_dar.bin")}
    del _SIGN_LOG[:]
    try:
        dar = DAR.load_from_config(dcfg, dac)
        out = dar.export()
    except SPSDKError as e:
        ctx.refused(["dar"] + sig, core.exc_brief(e))
        ctx.note("dar_refused", {"case": case, "why": core.exc_brief(e)})
        os.remove(dcpath)
        ctx.ok(sig)
        return
    finally:
        if os.path.exists(dcpath):
            os.remove(dcpath)
    log = list(_SIGN_LOG)
    ctx.count("dar_built")
    ctx.count("dar_v2_built")
    w2 = dict(witness, auth_beacon=auth_beacon, challenge=challenge, dac_uuid=dev_uuid, dar_len=len(out))
    try:
        m = R.decode_dar_v2(out)
    except R.Reject as e:
        _viol(ctx, "dar-layout-rejected-by-model", dict(w2, reason=str(e)))
        return
    if m["certificate"] != data:
        _viol(ctx, "dar-does-not-embed-credential", w2)
    if m["beacon"] != auth_beacon:
        _viol(ctx, "dar-does-not-embed-authentication-beacon", dict(w2, in_bytes=m["beacon"]))
    if m["challenge"] != challenge:
        _viol(ctx, "dar-does-not-embed-challenge", w2)
    if m["uid"] not in (R.uuid_words(uuid_in_bytes[:8]), R.uuid_words(dev_uuid[:8])):
        _viol(ctx, "dar-v2-unique-id-is-neither-credential-nor-device-uuid", dict(w2, uid=m["uid"]))
    if m["used_srk"] != used or not R.same_key(m["srk_key"], keys[used]):
        _viol(ctx, "dar-v2-srk-selection", dict(w2, used_in_flags=m["used_srk"]))
    if not R.verify(dck, m["signed"], m["signature"], pss=True):
        _viol(ctx, "dar-signature-does-not-verify-over-dc-beacon-uuid-challenge", w2)
    else:
        ctx.count("dar_verified")
        for what, (a, b) in m["spans"].items():
            bad = bytearray(m["signed"])
            bad[a + rng.randrange(b - a)] ^= 1 << rng.randrange(8)
            if R.verify(dck, bytes(bad), m["signature"], pss=True):
                _viol(ctx, f"dar-verifies-against-other-{ {'uid': 'uuid'}.get(what, what) }", w2)
            ctx.count("dar_metamorphic")
        other = pki.numbers(core.pick(rng, [x for x in pki.names(kind) if x != dck_name]))
        if R.verify(other, m["signed"], m["signature"], pss=True):
            _viol(ctx, "dar-verifies-against-other-dc", w2)
        ctx.count("dar_metamorphic")
    recs = [r for r in log if r["pub"] == _pub_tuple(dck) and r["sig"] == m["signature"]]
    if not recs:
        _viol(ctx, "dar-msign-signature-not-stored", dict(w2, calls=len(log)))
    elif recs[-1]["data"] != m["signed"]:
        _viol(ctx, "dar-msign-signed-data-differs-from-model", dict(w2, signed_len=len(recs[-1]["data"]), model_len=len(m["signed"])))
    ctx.count("msign_dar")
    ctx.ok(sig, sample={"family": family, "revision": rev, "class": "ele2", "srk_keys": names, "used": used, "dck": dck_name,
                        "uuid": uuid, "cc_socu": cc_socu, "dc_len": len(data), "dar_len": len(out), "signature_verified": sig_ok})


# ------------------------------------------------------------------------------------------
def extra_coverage(events, counters):
    """Measured coverage keys for the evidence file (parent process)."""
    fams, pairs, classes, keys, sets = set(), set(), {}, {}, set()
    for ev in events:
        if ev.get("t") == "ok" and "sig" in ev:
            try:
                tag, klass, fam, rev, key, n, used = json.loads(ev["sig"])
            except (ValueError, TypeError):
                continue
            if tag != "dc":
                continue
            fams.add(fam)
            pairs.add((fam, rev))
            classes[klass] = classes.get(klass, 0) + 1
            keys[key] = keys.get(key, 0) + 1
            sets.add((klass, n, used))
    return {
        "families_judged": len(fams), "family_revisions_judged": len(pairs), "judged_by_class": classes, "judged_by_key_type": keys,
        "distinct_class_setsize_usedindex": len(sets),
        "accepted": {"credentials": counters.get("dc_created", 0), "responses": counters.get("dar_built", 0),
                     "responses_edgelock_v2": counters.get("dar_v2_built", 0)},
        "hooks_reached": {"M-SIGN credential": counters.get("msign_dc", 0), "M-SIGN response": counters.get("msign_dar", 0)},
    }

