"""C10 - bootloader protocols: data arrives intact, results mirror the device, faults surface.

Runtime monitoring against executable device models (vf/refs/mboot_dev.py, vf/refs/sdp_dev.py).  The real
``SerialDevice`` / ``UsbDevice`` and the real ``Mboot*Interface`` / ``Sdp*Interface`` classes are used unchanged; only
their innermost driver object (pyserial ``Serial`` / libusbsio HID handle) is replaced by a fake that talks to the
model through a *link*.  The link records the transcript at the driver boundary (write: call-before, read:
return-after), counts device reads, drives a virtual clock and can inject one fault into the device->host stream.

Oracles: (1) per call: return value / exception / status_code against what the model actually answered and holds
in memory; (2) the model's journal: commands, parameters and data-phase bytes that arrived; (3) an offline checker
over the recorded transcript (exactly once, in order, packet size, every device byte consumed, read data == bytes
on the wire); (4) fault sweep: fault-free run first, then one fault per run - a call that reports success must have
the fault-free result, anything else must be a documented failure within the read bound.
"""
from __future__ import annotations

import struct
import time as _real_time

from vf import core
from vf.refs import mboot_dev as MD
from vf.refs import sdp_dev as SD

ID = "C10"
LEVEL = "exploration"
TECHNIQUE = ("runtime monitoring: real protocol stack over fake drivers against byte-level device models; transcript "
             "checker, status mirror, single-fault injection on the device->host stream with a virtual clock")
RULE = (
    "mboot: random histories of 1..8 operations (write/read/fill/erase/get-set-property/receive-sb-file/program-once/"
    "key-provisioning/load-image/execute/call/reset/key-blob/fuses/configure-memory) with lengths 0..64 KiB in classes "
    "around the packet size, max packet 32..1024, UART framing and USB-HID, cmd_exception on/off; device-status mirror "
    "(error status at every command and stage, aborted / short / mute data phases); fault sweep: one fault per run at a "
    "position of the recorded device->host stream (bit flip, wrong CRC, dropped byte, NAK, ABORT, truncated / missing "
    "emission, not-ready bytes); the calls that follow the faulty one run on the link as the fault left it (40 % of the "
    "histories end in 2..5 calls the device refuses) and are judged by the same rule. SDP: read/write/write-file/dcd/csf/skip-dcd/jump/error-status on open and closed "
    "devices over UART and USB-HID, status-word mirror, fault sweep (drop, truncate, missing); SDPS for every family. "
    "A signature is (protocol, transport, operation, length class, packet class, mode, outcome class); non-trivial = the "
    "call reached the device model and was judged."
)
ASSUMPTIONS = [
    "the device models follow the public protocol descriptions (self-tested on framing examples of the reference manual)",
    "failure = exception of the SPSDKError family (McuBootError, SdpError, SPSDKTimeoutError...) or builtin TimeoutError, "
    "or falsy/None return, or non-success status_code; success = none of these",
    "no payload CRC exists on USB-HID and in SDP: bit flips are injected only into the CRC-framed serial link; a corruption "
    "that still satisfies the 16-bit CRC (checked with the reference CRC) is not judged",
    "a zero-length outgoing data phase is closed by the device with a final response (both blhost and SPSDK wait for one)",
    "bytes that follow the awaited response (duplicates) are outside the listed fault kinds and are not injected",
    "SDP over USB-HID: a 64-byte zero-padded data report carries neither length nor checksum, so a cut inside it is not injected "
    "(it is injected when the model sends unpadded last reports, and always for the HAB and status reports)",
    "USB-HID max packet sizes stop at 1020: a report (4 + payload) never exceeds the 1024 bytes the host requests per read",
    "an empty SDP data phase on the serial link is not generated (the empty write would flush the ROM's answer: timing, not protocol); "
    "SDP set_baudrate is outside the operations the property lists",
    "a call after the faulty one may fail for any documented reason (the host side may be out of step); load_image after a fault is "
    "not judged when it succeeds (bare data packets, no response of its own: a device still inside the abandoned command takes them "
    "for that command and nothing on the link says so); SDP has neither framing nor tags, calls after an SDP fault are not made",
    "bounded time = number of driver read calls <= 10 x fault-free device->host length + 1000 (logical, virtual clock)",
]
REQUIRED_COUNTERS = ["memory_lists", "property_reports", "mboot_ops_judged", "mboot_fault_runs", "mboot_calls_after_fault", "mboot_calls_after_fault_succeeded", "mboot_status_mirror", "transcript_ops_checked",
                     "sdp_ops_judged", "sdp_fault_runs", "sdps_files", "sdps_family_switches"]
CASE_TIMEOUT_S = 600
WATCHDOG_S = {"quick": 1500, "thorough": 7200}


# =============================================================================================
# virtual clock
# =============================================================================================
class VClock:
    """Stands in for the ``time`` module inside the protocol modules: sleeping and waiting is logical."""

    def __init__(self):
        self.t = 1_700_000_000.0

    def time(self):
        return self.t

    def monotonic(self):
        return self.t

    def perf_counter(self):
        return self.t

    def sleep(self, s):
        self.t += max(0.0, float(s))

    def advance(self, s):
        self.t += s

    def __getattr__(self, name):
        return getattr(_real_time, name)


CLOCK = VClock()
_PRISTINE_HID_REPORT: dict = {}


def install_monitors(ctx):
    import spsdk.mboot.mcuboot as m1
    import spsdk.mboot.protocol.serial_protocol as m2
    import spsdk.sdp.protocol.bulk_protocol as m4
    import spsdk.utils.misc as m3

    for m in (m1, m2, m3):
        m.time = CLOCK
    _PRISTINE_HID_REPORT.update(m4.HID_REPORT)


class ReadBudget(BaseException):
    """More driver reads than the bound allows (BaseException: SPSDK wraps every Exception of the driver)."""


# =============================================================================================
# links, faults and fake drivers
# =============================================================================================
class Fault:
    """One fault on the device->host stream.  ``pos`` = byte offset (UART) or emission index (HID)."""

    def __init__(self, kind, pos, arg=0):
        self.kind, self.pos, self.arg = kind, pos, arg
        self.done = False
        self.info = None
        self.undetectable = False
        self.stuck = False

    # -- byte streams (mboot UART, SDP UART) --------------------------------------------------
    def apply_stream(self, start, kind, raw):
        if self.done:
            return raw
        end = start + len(raw)
        k = self.kind
        if k in ("nak", "abort"):
            if kind != "ack" or end <= self.pos:
                return raw
            new = bytes([MD.START, MD.FT_NAK if k == "nak" else MD.FT_ABORT])
        elif k == "stuck":
            # the device hangs while busy: from this emission on the line carries 'not ready' bytes (0x00) for ever
            if not start <= self.pos < end:
                return raw
            new = b""
            self.stuck = True
        else:
            if not start <= self.pos < end:
                return raw
            off = self.pos - start
            if k == "flip":
                new = raw[:off] + bytes([raw[off] ^ (1 << (self.arg & 7))]) + raw[off + 1:]
            elif k == "crc":
                if kind == "pingr":
                    new = raw[:-2] + bytes([raw[-2] ^ (1 + self.arg % 255), raw[-1]])
                elif kind in ("cmd", "data") and len(raw) >= 6:
                    new = raw[:4] + bytes([raw[4] ^ (1 + self.arg % 255), raw[5]]) + raw[6:]
                else:
                    return raw  # no CRC in this emission: not applicable, wait for none
            elif k == "drop":
                new = raw[:off] + raw[off + 1:]
            elif k == "trunc":
                new = raw[:off]
            elif k == "missing":
                new = b""
            elif k == "notready":
                new = bytes(1 + self.arg % 8) + raw
            else:
                raise core.Inconclusive(f"unknown fault kind {k}")
        self.done = True
        self.info = {"emission": kind, "offset": self.pos - start, "orig": raw, "new": new}
        if kind in ("cmd", "data") and k in ("flip", "drop", "trunc", "crc"):
            view = MD.parse_frame_view(new)
            orig = MD.parse_frame_view(raw)
            if view is not None and view != orig:
                self.undetectable = True  # still satisfies the 16-bit CRC with other content
        return new

    # -- report streams (HID) -----------------------------------------------------------------
    def apply_report(self, index, kind, raw):
        if self.done or index != self.pos:
            return [raw]
        k = self.kind
        if k == "trunc":
            new = [raw[: self.arg % len(raw)]]
        elif k == "missing":
            new = []
        elif k == "abort":
            new = [raw[:1] + b"\x00\x00\x00"]
        else:
            raise core.Inconclusive(f"unknown report fault kind {k}")
        self.done = True
        self.info = {"emission": kind, "offset": self.arg % len(raw) if k == "trunc" else 0, "orig": raw, "new": new[0] if new else b""}
        return new


class Link:
    """Driver-boundary recorder between a fake driver and a device model."""

    def __init__(self, dev, fault=None, max_reads=None, stream=True):
        self.dev = dev
        self.fault = fault
        self.stream = stream
        self.inbuf = bytearray()  # stream mode
        self.queue: list = []  # report mode
        self.events: list = []
        self.emissions: list = []  # (start, kind, raw) as the device produced them
        self.cause: dict = {}      # emission start / index -> the host frame that made the device produce it
        self.pos = 0
        self.reads = 0
        self.max_reads = max_reads
        self.flushed = 0

    def mark(self, what):
        self.events.append(("op", what))

    def d2h_len(self):
        return self.pos if self.stream else sum(len(e[2]) for e in self.emissions)

    def host_write(self, data: bytes):
        data = bytes(data)
        self.events.append(("w", data))
        self.dev.host_write(data)
        for kind, raw in self.dev.take():
            if self.stream:
                start = self.pos
                self.pos += len(raw)
                self.cause[start] = data
                self.emissions.append((start, kind, raw))
                self.inbuf += self.fault.apply_stream(start, kind, raw) if self.fault else raw
            else:
                idx = len(self.emissions)
                self.emissions.append((idx, kind, raw))
                self.queue += self.fault.apply_report(idx, kind, raw) if self.fault else [raw]

    def flush_in(self):
        if self.inbuf:
            self.flushed += len(self.inbuf)
            self.events.append(("flush", bytes(self.inbuf)))
            del self.inbuf[:]

    def _count_read(self):
        self.reads += 1
        if self.max_reads is not None and self.reads > self.max_reads:
            raise ReadBudget(f"{self.reads} driver reads")

    def read_stream(self, n: int, timeout_s: float) -> bytes:
        self._count_read()
        if self.fault is not None and self.fault.stuck and not self.inbuf:
            CLOCK.advance(1e-3 * n)  # a busy device repeats its 'not ready' byte about once per millisecond
            self.events.append(("r", n, bytes(n)))
            return bytes(n)
        out = bytes(self.inbuf[:n])
        del self.inbuf[:n]
        CLOCK.advance(timeout_s if len(out) < n else 1e-4 * len(out))
        self.events.append(("r", n, out))
        return out

    def read_report(self, n: int, timeout_ms: int) -> bytes:
        self._count_read()
        if self.queue:
            out = self.queue.pop(0)[:n]
            CLOCK.advance(1e-3)
            if not out:
                CLOCK.advance(timeout_ms / 1000)
        else:
            out = b""
            CLOCK.advance(timeout_ms / 1000)
        self.events.append(("r", n, out))
        return out


class FakeSerial:
    """Stands in for ``serial.Serial`` inside ``SerialDevice``."""

    def __init__(self, link: Link, timeout_s: float):
        self.link = link
        self.is_open = False
        self.timeout = timeout_s
        self.write_timeout = timeout_s
        self.port = "fake-uart"

    def open(self):
        self.is_open = True

    def close(self):
        self.is_open = False

    def reset_input_buffer(self):
        self.link.flush_in()

    def reset_output_buffer(self):
        pass

    def flush(self):
        pass

    def write(self, data):
        self.link.host_write(data)
        return len(data)

    def read(self, size=1):
        return self.link.read_stream(size, self.timeout)


class FakeHid:
    """Stands in for the libusbsio HID handle inside ``UsbDevice``."""

    def __init__(self, link: Link):
        self.link = link
        self.opened = False

    def Open(self, path):  # noqa: N802
        self.opened = True

    def Close(self):  # noqa: N802
        self.opened = False

    def Read(self, length, timeout_ms=0):  # noqa: N802
        data = self.link.read_report(length, timeout_ms)
        return data, (len(data) if data else 0)

    def Write(self, data, timeout_ms=0):  # noqa: N802
        self.link.host_write(data)
        return len(data)


def _serial_device(link, timeout_ms=5000):
    from spsdk.utils.interfaces.device.serial_device import SerialDevice

    dev = SerialDevice(port=None, timeout=timeout_ms)
    if type(dev).__name__ != "SerialDevice":
        raise core.Inconclusive("SerialDevice replaced")
    dev._device = FakeSerial(link, timeout_ms / 1000)
    return dev


def _usb_device(link, timeout_ms=2000):
    from spsdk.utils.interfaces.device.usb_device import UsbDevice

    dev = UsbDevice(vid=0x1FC9, pid=0x0135, timeout=timeout_ms)
    dev._device = FakeHid(link)
    return dev


def documented(exc) -> bool:
    from spsdk.exceptions import SPSDKError

    return isinstance(exc, (SPSDKError, TimeoutError))


class Outcome:
    def __init__(self, ret=None, exc=None, status=None, extra=None):
        self.ret, self.exc, self.status, self.extra = ret, exc, status, extra or {}

    def brief(self):
        r = self.ret
        if isinstance(r, (bytes, bytearray)):
            r = f"bytes[{len(r)}]:{core.hx(r, 24)}"
        return {"ret": r, "exc": core.exc_brief(self.exc) if self.exc else None, "status": self.status, **self.extra}


def lclass(n: int, mps: int) -> str:
    if n == 0:
        return "0"
    if n < mps:
        return "<p"
    if n == mps:
        return "=p"
    if n % mps == 0:
        return "k*p"
    if n < 2 * mps:
        return "p..2p"
    if n <= 4096:
        return ">2p"
    return ">4K"


# =============================================================================================
# mboot: session, operations, expectations
# =============================================================================================
NEEDS_SPLIT = {"write", "sb", "load_image", "kp_set_user_key", "kp_write_key_store", "key_blob", "fuse_program"}
NO_RESPONSE = 10004


class MbootSession:
    def __init__(self, cfg, fault=None, max_reads=None, plans=None, do_open=True):
        from spsdk.mboot.interfaces.uart import MbootUARTInterface
        from spsdk.mboot.interfaces.usb import MbootUSBInterface
        from spsdk.mboot.mcuboot import McuBoot

        self.cfg = cfg
        self.transport = cfg["transport"]
        self.mps = cfg["mps"]
        self.core = MD.MbootCore(max_packet=cfg["mps"], seed=cfg["dev_seed"], has_max_packet_property=cfg.get("has_mps_prop", True))
        for name, val in (plans or {}).items():
            getattr(self.core, name).update(val)
        if self.transport == "uart":
            self.tdev = MD.MbootUart(self.core, ping_dummy=bytes.fromhex(cfg.get("ping_dummy", "")))
            self.link = Link(self.tdev, fault, max_reads, stream=True)
            self.iface = MbootUARTInterface(_serial_device(self.link))
        else:
            self.tdev = MD.MbootHid(self.core, pad=cfg.get("pad", "zeros"), seed=cfg["dev_seed"])
            self.link = Link(self.tdev, fault, max_reads, stream=False)
            self.iface = MbootUSBInterface(_usb_device(self.link))
        self.mb = McuBoot(self.iface, cmd_exception=cfg["cmd_exception"])
        self.negotiated_size = self.mps if cfg.get("has_mps_prop", True) else 32
        self.open_exc = None
        if do_open:
            self.link.mark("open")
            try:
                self.mb.open()
            except Exception as e:  # pylint: disable=broad-except
                self.open_exc = e

    def run(self, op) -> Outcome:
        try:
            ret = mboot_call(self.mb, op)
            return Outcome(ret, None, self.mb.status_code)
        except ReadBudget:
            raise
        except Exception as e:  # pylint: disable=broad-except
            return Outcome(None, e, self.mb.status_code)


def mboot_call(mb, op):  # noqa: C901
    o = op["op"]
    if o == "write":
        return mb.write_memory(op["addr"], op["data"], op["mem"])
    if o == "read":
        return mb.read_memory(op["addr"], op["len"], op["mem"])
    if o == "fill":
        return mb.fill_memory(op["addr"], op["len"], op["pattern"])
    if o == "erase_region":
        return mb.flash_erase_region(op["addr"], op["len"], op["mem"])
    if o == "erase_all":
        return mb.flash_erase_all(op["mem"])
    if o == "erase_all_unsecure":
        return mb.flash_erase_all_unsecure()
    if o == "get_memory_list":
        return mb.get_memory_list()
    if o == "get_property":
        return mb.get_property(op["tag"], op["index"])
    if o == "set_property":
        return mb.set_property(op["tag"], op["value"])
    if o == "sb":
        return mb.receive_sb_file(op["data"], check_errors=op.get("check_errors", False))
    if o == "efuse_read_once":
        return mb.efuse_read_once(op["index"])
    if o == "efuse_program_once":
        return mb.efuse_program_once(op["index"], op["value"], verify=op["verify"])
    if o == "flash_read_once":
        return mb.flash_read_once(op["index"], op["count"])
    if o == "flash_program_once":
        return mb.flash_program_once(op["index"], op["data"])
    if o == "kp_enroll":
        return mb.kp_enroll()
    if o == "kp_set_intrinsic_key":
        return mb.kp_set_intrinsic_key(op["type"], op["size"])
    if o == "kp_write_nonvolatile":
        return mb.kp_write_nonvolatile(op["mem"])
    if o == "kp_read_nonvolatile":
        return mb.kp_read_nonvolatile(op["mem"])
    if o == "kp_set_user_key":
        return mb.kp_set_user_key(op["type"], op["data"])
    if o == "kp_write_key_store":
        return mb.kp_write_key_store(op["data"])
    if o == "kp_read_key_store":
        return mb.kp_read_key_store()
    if o == "load_image":
        return mb.load_image(op["data"])
    if o == "execute":
        return mb.execute(op["addr"], op["arg"], op["sp"])
    if o == "call":
        return mb.call(op["addr"], op["arg"])
    if o == "reset":
        return mb.reset(timeout=op.get("timeout", 2000), reopen=True)
    if o == "configure_memory":
        return mb.configure_memory(op["addr"], op["mem"])
    if o == "reliable_update":
        return mb.reliable_update(op["addr"])
    if o == "security_disable":
        return mb.flash_security_disable(op["key"])
    if o == "read_resource":
        return mb.flash_read_resource(op["addr"], op["len"], op["option"])
    if o == "key_blob":
        return mb.generate_key_blob(op["data"], op["key_sel"], op["count"])
    if o == "fuse_program":
        return mb.fuse_program(op["addr"], op["data"], op["mem"])
    if o == "fuse_read":
        return mb.fuse_read(op["addr"], op["len"], op["mem"])
    if o == "update_life_cycle":
        return mb.update_life_cycle(op["value"])
    raise core.Inconclusive(f"unknown mboot op {o}")


def _words(data: bytes) -> list:
    data = data + bytes(-len(data) % 4)
    return list(struct.unpack(f"<{len(data) // 4}I", data))


def mboot_expected_cmds(op, transport, mps):  # noqa: C901
    """Command packets the protocol prescribes for the call: list of (tag, flags, params)."""
    o = op["op"]
    if o == "write":
        return [(MD.C_WRITE_MEMORY, 1, [op["addr"], len(op["data"]), op["mem"]])]
    if o == "read":
        if transport == "usb":
            n = op["len"]
            return [(MD.C_READ_MEMORY, 0, [op["addr"] + i, min(mps, n - i), op["mem"]]) for i in range(0, n, mps)]
        return [(MD.C_READ_MEMORY, 0, [op["addr"], op["len"], op["mem"]])]
    if o == "fill":
        return [(MD.C_FILL_MEMORY, 0, [op["addr"], op["len"], op["pattern"]])]
    if o == "erase_region":
        return [(MD.C_FLASH_ERASE_REGION, 0, [op["addr"], op["len"], op["mem"]])]
    if o == "erase_all":
        return [(MD.C_FLASH_ERASE_ALL, 0, [op["mem"]])]
    if o == "erase_all_unsecure":
        return [(MD.C_FLASH_ERASE_ALL_UNSECURE, 0, [])]
    if o == "get_property":
        return [(MD.C_GET_PROPERTY, 0, [op["tag"], op["index"]])]
    if o == "set_property":
        return [(MD.C_SET_PROPERTY, 0, [op["tag"], op["value"]])]
    if o == "sb":
        return [(MD.C_RECEIVE_SB_FILE, 1, [len(op["data"])])]
    if o == "efuse_read_once":
        return [(MD.C_FLASH_READ_ONCE, 0, [op["index"], 4])]
    if o == "efuse_program_once":
        c = [(MD.C_FLASH_PROGRAM_ONCE, 0, [op["index"], 4, op["value"]])]
        if op["verify"]:
            c.append((MD.C_FLASH_READ_ONCE, 0, [op["index"] & 0xFFFFFF, 4]))
        return c
    if o == "flash_read_once":
        return [(MD.C_FLASH_READ_ONCE, 0, [op["index"], op["count"]])]
    if o == "flash_program_once":
        return [(MD.C_FLASH_PROGRAM_ONCE, 0, [op["index"], len(op["data"])] + _words(op["data"]))]
    if o == "kp_enroll":
        return [(MD.C_KEY_PROVISIONING, 0, [MD.KP_ENROLL])]
    if o == "kp_set_intrinsic_key":
        return [(MD.C_KEY_PROVISIONING, 0, [MD.KP_SET_INTRINSIC_KEY, op["type"], op["size"]])]
    if o == "kp_write_nonvolatile":
        return [(MD.C_KEY_PROVISIONING, 0, [MD.KP_WRITE_NV, op["mem"]])]
    if o == "kp_read_nonvolatile":
        return [(MD.C_KEY_PROVISIONING, 0, [MD.KP_READ_NV, op["mem"]])]
    if o == "kp_set_user_key":
        return [(MD.C_KEY_PROVISIONING, 1, [MD.KP_SET_USER_KEY, op["type"], len(op["data"])])]
    if o == "kp_write_key_store":
        return [(MD.C_KEY_PROVISIONING, 1, [MD.KP_WRITE_KEY_STORE, 0, len(op["data"])])]
    if o == "kp_read_key_store":
        return [(MD.C_KEY_PROVISIONING, 0, [MD.KP_READ_KEY_STORE])]
    if o == "load_image":
        return []
    if o == "execute":
        return [(MD.C_EXECUTE, 0, [op["addr"], op["arg"], op["sp"]])]
    if o == "call":
        return [(MD.C_CALL, 0, [op["addr"], op["arg"]])]
    if o == "reset":
        return [(MD.C_RESET, 0, [])]
    if o == "configure_memory":
        return [(MD.C_CONFIGURE_MEMORY, 0, [op["mem"], op["addr"]])]
    if o == "reliable_update":
        return [(MD.C_RELIABLE_UPDATE, 0, [op["addr"]])]
    if o == "security_disable":
        k = op["key"]
        return [(MD.C_FLASH_SECURITY_DISABLE, 0, [int.from_bytes(k[:4], "big"), int.from_bytes(k[4:], "big")])]
    if o == "read_resource":
        return [(MD.C_FLASH_READ_RESOURCE, 0, [op["addr"], op["len"], op["option"]])]
    if o == "key_blob":
        return [(MD.C_GENERATE_KEY_BLOB, 1, [op["key_sel"], len(op["data"]), 0]),
                (MD.C_GENERATE_KEY_BLOB, 0, [op["key_sel"], op["count"], 1])]
    if o == "fuse_program":
        return [(MD.C_FUSE_PROGRAM, 1, [op["addr"], len(op["data"]), op["mem"]])]
    if o == "fuse_read":
        return [(MD.C_FUSE_READ, 0, [op["addr"], op["len"], op["mem"]])]
    if o == "update_life_cycle":
        return [(MD.C_UPDATE_LIFE_CYCLE, 0, [op["value"]])]
    raise core.Inconclusive(f"unknown mboot op {o}")


OUT_DATA_OPS = {"read", "kp_read_key_store", "read_resource", "key_blob", "fuse_read"}
VALUE_OPS = {"get_property", "efuse_read_once", "flash_read_once"}


def mboot_peek_expected(core_, op):
    """What the model holds *before* the call (independent of what it will send)."""
    o = op["op"]
    try:
        if o == "read":
            return core_.peek(op["addr"], op["len"], op["mem"])
        if o == "get_property":
            if op["tag"] == MD.P_EXTERNAL_MEMORY_ATTRIBUTES:
                return list(core_.ext_attrs)
            return list(core_.props[op["tag"]])
        if o == "efuse_read_once":
            return core_.otp[op["index"] & 0xFFFFFF]
        if o == "flash_read_once":
            i = op["index"] & 0xFFFFFF
            return struct.pack(f"<{op['count'] // 4}I", *core_.otp[i:i + op["count"] // 4])
        if o == "kp_read_key_store":
            return core_.key_store
        if o == "fuse_read":
            return bytes(core_.fuses[op["addr"]:op["addr"] + op["len"]])
    except (KeyError, IndexError, struct.error):
        return None
    return None


def gen_len(rng, mps, small=False, big=False):
    classes = [0, 1, 3, mps - 1, mps, mps + 1, 2 * mps - 1, 2 * mps, 2 * mps + 1, 3 * mps + 5, rng.randrange(0, 4 * mps + 2)]
    if not small:
        classes += [rng.randrange(0, 3000), 1024, 4096 + rng.randrange(-2, 3)]
    if big:
        classes = [65536, 65535, 65536 - mps, rng.randrange(8192, 65537), 32768 + rng.randrange(-1, 2), 16384]
    return max(0, core.pick(rng, classes))


def gen_addr(rng, core_cls, n, mem=0, bad=0.06):
    if mem == MD.EXT_MEM_ID:
        size = core_cls.EXT_SIZE
        if rng.random() < bad:
            return size - n + 1 + rng.randrange(0, 16)
        return rng.randrange(0, size - n + 1)
    if rng.random() < bad:
        return core.pick(rng, [core_cls.FLASH_BASE + core_cls.FLASH_SIZE - n + 1 + rng.randrange(0, 8), 0x1000_0000, core_cls.RAM_BASE + core_cls.RAM_SIZE - max(0, n - 1)])
    base, size = core.pick(rng, [(core_cls.FLASH_BASE, core_cls.FLASH_SIZE), (core_cls.RAM_BASE, core_cls.RAM_SIZE)])
    a = base + rng.randrange(0, size - n + 1)
    if rng.random() < 0.5:
        a = max(base, a & ~3)
    return a


MBOOT_OP_WEIGHTS = [
    ("write", 14), ("read", 14), ("fill", 6), ("erase_region", 5), ("erase_all", 1), ("erase_all_unsecure", 1),
    ("get_property", 8), ("set_property", 5), ("sb", 7), ("efuse_read_once", 3), ("efuse_program_once", 4),
    ("flash_read_once", 2), ("flash_program_once", 2), ("kp_enroll", 3), ("kp_set_intrinsic_key", 2),
    ("kp_write_nonvolatile", 1), ("kp_read_nonvolatile", 1), ("kp_set_user_key", 3), ("kp_write_key_store", 1),
    ("kp_read_key_store", 2), ("load_image", 4), ("execute", 2), ("call", 2), ("reset", 2), ("configure_memory", 2),
    ("reliable_update", 1), ("security_disable", 1), ("read_resource", 2), ("key_blob", 2), ("fuse_program", 1),
    ("fuse_read", 1), ("update_life_cycle", 1),
]
_OPS_FLAT = [n for n, w in MBOOT_OP_WEIGHTS for _ in range(w)]
FAULT_OPS = ["write", "read", "fill", "get_property", "set_property", "sb", "efuse_read_once", "efuse_program_once",
             "kp_enroll", "kp_set_user_key", "kp_read_key_store", "load_image", "call", "reset", "erase_region", "key_blob"]


def gen_mboot_op(rng, kind, mps, small=False, big=False, mem_choices=(0, 0, 0, MD.EXT_MEM_ID)):  # noqa: C901
    C = MD.MbootCore
    o = {"op": kind}
    mem = core.pick(rng, mem_choices)
    if kind in ("write", "read"):
        n = gen_len(rng, mps, small, big)
        o.update(mem=mem, addr=gen_addr(rng, C, n, mem))
        if kind == "write":
            o["data"] = core.rand_bytes(rng, n)
        else:
            o["len"] = n
    elif kind == "fill":
        n = gen_len(rng, mps, small) if rng.random() < 0.5 else 4 * rng.randrange(0, 300)
        o.update(addr=gen_addr(rng, C, n), len=n, pattern=core.pick(rng, [0xFFFFFFFF, 0, 0x12345678, rng.getrandbits(32)]))
    elif kind == "erase_region":
        if rng.random() < 0.7:
            s = rng.randrange(0, C.FLASH_SIZE // C.SECTOR)
            o.update(addr=C.FLASH_BASE + s * C.SECTOR, len=C.SECTOR * rng.randrange(0, min(5, C.FLASH_SIZE // C.SECTOR - s) + 1), mem=0)
        else:
            n = rng.randrange(0, 10000)
            o.update(addr=gen_addr(rng, C, n), len=n, mem=0)
    elif kind == "erase_all":
        # FlashEraseAll takes the memory ID itself: small IDs (QuadSPI 1, FlexSPI NOR 9 ...) travel as given
        o["mem"] = core.pick(rng, [0, 0, MD.EXT_MEM_ID, 0x101, 1, 9, 8, 0xFF])
    elif kind == "get_property":
        tag = core.pick(rng, [1, 2, 3, 4, 5, 6, 7, 0x0A, 0x0B, 0x0C, 0x0C, 0x0E, 0x0F, 0x10, 0x11, 0x12, 0x12, 0x16, 0x18, 0x19, 0x19, 0x1C, 0x1E, 0x1A, 0x55])
        o.update(tag=tag, index=MD.EXT_MEM_ID if tag == 0x19 and rng.random() < 0.7 else core.pick(rng, [0, 0, 1]))
    elif kind == "set_property":
        o.update(tag=core.pick(rng, [0x0A, 0x0A, 0x16, 0x1C, 0x1E, 0x0B, 0x01, 0x77]), value=core.pick(rng, [0, 1, 2, 5, rng.getrandbits(32)]))
    elif kind in ("sb", "load_image"):
        o["data"] = core.rand_bytes(rng, gen_len(rng, mps, small, big))
        if kind == "sb":
            o["check_errors"] = rng.random() < 0.3
    elif kind == "efuse_read_once":
        o["index"] = core.pick(rng, [rng.randrange(0, C.OTP_WORDS), rng.randrange(0, C.OTP_WORDS), C.OTP_WORDS + rng.randrange(0, 4)])
    elif kind == "efuse_program_once":
        o.update(index=rng.randrange(0, C.OTP_WORDS) | core.pick(rng, [0, 0, 0x0100_0000]), value=rng.getrandbits(32), verify=rng.random() < 0.6)
    elif kind == "flash_read_once":
        o.update(index=rng.randrange(0, C.OTP_WORDS + 1), count=core.pick(rng, [4, 8]))
    elif kind == "flash_program_once":
        o.update(index=rng.randrange(0, C.OTP_WORDS), data=core.rand_bytes(rng, core.pick(rng, [4, 8])))
    elif kind == "kp_set_intrinsic_key":
        o.update(type=core.pick(rng, [2, 3, 7, 11, 12, 13]), size=core.pick(rng, [16, 32, 24]))
    elif kind in ("kp_write_nonvolatile", "kp_read_nonvolatile"):
        o["mem"] = core.pick(rng, [0, 0, 0, 1])
    elif kind == "kp_set_user_key":
        o.update(type=core.pick(rng, [2, 3, 7, 11, 12, 13]), data=core.rand_bytes(rng, core.pick(rng, [16, 32, 32, 24])))
    elif kind == "kp_write_key_store":
        o["data"] = core.rand_bytes(rng, core.pick(rng, [C.KEY_STORE_SIZE, C.KEY_STORE_SIZE, C.KEY_STORE_SIZE - 4]))
    elif kind == "execute":
        o.update(addr=gen_addr(rng, C, 4, bad=0) & ~core.pick(rng, [3, 3, 3, 0]), arg=rng.getrandbits(32), sp=rng.getrandbits(32))
    elif kind == "call":
        o.update(addr=gen_addr(rng, C, 4, bad=0) & ~core.pick(rng, [3, 3, 3, 0]), arg=rng.getrandbits(32))
    elif kind == "configure_memory":
        o.update(addr=gen_addr(rng, C, 4), mem=core.pick(rng, [MD.EXT_MEM_ID, MD.EXT_MEM_ID, 0x101]))
    elif kind == "reliable_update":
        o["addr"] = gen_addr(rng, C, 4, bad=0)
    elif kind == "security_disable":
        o["key"] = core.rand_bytes(rng, 8)  # replaced by the right key half of the time (needs the model)
        o["right_key"] = rng.random() < 0.5
    elif kind == "read_resource":
        o.update(addr=4 * rng.randrange(0, 64), len=4 * rng.randrange(0, 40), option=core.pick(rng, [0, 1, 1, 2]))
    elif kind == "key_blob":
        o.update(data=core.rand_bytes(rng, core.pick(rng, [16, 32, 24, 20])), key_sel=core.pick(rng, [0, 2, 3]), count=core.pick(rng, [72, 80, 96, 40]))
    elif kind == "fuse_program":
        n = rng.randrange(0, 64)
        o.update(addr=rng.randrange(0, 230), data=core.rand_bytes(rng, n), mem=0)
    elif kind == "fuse_read":
        o.update(addr=rng.randrange(0, 250), len=rng.randrange(0, 64), mem=0)
    elif kind == "update_life_cycle":
        o["value"] = rng.randrange(0, 256)
    return o


def _refused_op(rng) -> dict:
    """An operation the device model answers with an error status (read-only / unknown property, fuse index out of range,
    fill outside the memory map)."""
    C = MD.MbootCore
    k = rng.randrange(5)
    if k == 0:
        return {"op": "set_property", "tag": core.pick(rng, [0x01, 0x77]), "value": rng.getrandbits(32)}
    if k == 1:
        return {"op": "get_property", "tag": 0x55, "index": 0}
    if k == 2:
        return {"op": "efuse_read_once", "index": C.OTP_WORDS + rng.randrange(0, 4)}
    if k == 3:
        return {"op": "fill", "addr": 0x1000_0000, "len": 4 * rng.randrange(1, 9), "pattern": rng.getrandbits(32)}
    return {"op": "efuse_program_once", "index": C.OTP_WORDS + rng.randrange(0, 4), "value": rng.getrandbits(32), "verify": False}


def op_len(op) -> int:
    if "data" in op:
        return len(op["data"])
    return int(op.get("len", 0))


def op_brief(op) -> dict:
    return {k: (core.hx(v, 16) if isinstance(v, (bytes, bytearray)) else v) for k, v in op.items()} | ({"data_len": len(op["data"])} if "data" in op else {})


# =============================================================================================
# mboot: judging one call against the model
# =============================================================================================
def reported_success(out: Outcome) -> bool:
    return out.exc is None and out.ret is not None and out.ret is not False and out.status == 0


def _strip_negotiation(entries, op):
    if op["op"] != "get_property" and entries and entries[0]["tag"] == MD.C_GET_PROPERTY and entries[0]["params"] == [MD.P_MAX_PACKET_SIZE, 0] \
            and (op["op"] in NEEDS_SPLIT or op["op"] == "read"):
        return entries[1:], True
    return entries, False


def judge_mboot(sess: MbootSession, op, out: Outcome, j0: int, loose0: int, peek):  # noqa: C901
    """-> (outcome class, [(mechanism, detail)]) for one call on a link without faults."""
    v = []
    o = op["op"]
    tr = sess.transport
    c = sess.core
    raw_entries = c.journal[j0:]
    entries, neg = _strip_negotiation(raw_entries, op)
    if neg:  # the size the host was told (default 32 when the device does not answer the query)
        e0 = raw_entries[0]
        sess.negotiated_size = e0["values"][0] if e0["st0"] == 0 and e0["values"] else 32
    size = sess.negotiated_size
    exp = mboot_expected_cmds(op, tr, size)
    got = [(e["tag"], e["flags"], e["params"]) for e in entries]
    base = {"op": op_brief(op), "transport": tr, "max_packet": sess.mps, "cmd_exception": sess.cfg["cmd_exception"], "observed": out.brief()}
    if out.exc is not None and not documented(out.exc):
        v.append((f"mboot-{tr}-{o}-undocumented-{type(out.exc).__name__}", base))
    if o == "read" and tr == "usb":
        # the host may cut the range as it likes as long as no piece exceeds the size the device announced
        nxt, ok_parts = op["addr"], True
        for t, fl, pr in got:
            ok_parts &= t == MD.C_READ_MEMORY and fl == 0 and len(pr) == 3 and pr[0] == nxt and 0 < pr[1] <= min(size, op["addr"] + op["len"] - nxt) and pr[2] == op["mem"]
            if not ok_parts:
                break
            nxt += pr[1]
        exp = got if ok_parts and (nxt == op["addr"] + op["len"] or any(e["st0"] != 0 or e["st1"] not in (None, 0) or e.get("announced") != len(e["data_out"] or b"") for e in entries)) else exp
        if ok_parts and nxt < op["addr"] + op["len"] and exp is got:
            exp = got + [None]  # stopped early: only legitimate after a device error
    if any(e["malformed"] for e in entries) or got != exp[:len(got)]:
        v.append((f"mboot-{o}-command-packet-mismatch", dict(base, expected=exp[:4], arrived=got[:4])))
        return "command-mismatch", v
    if c.anomalies:
        v.append((f"mboot-{o}-protocol-anomaly", dict(base, anomalies=c.anomalies[:4])))
        del c.anomalies[:]
    hid_bad = getattr(sess.tdev, "malformed", None)
    if hid_bad:
        v.append((f"mboot-usb-{o}-malformed-report", dict(base, reports=hid_bad[:4])))
        del hid_bad[:]
    # what did the device answer?
    dev_status, why = 0, None
    for e in entries:
        if e["st0"] is None:
            why = "mute"
            break
        if e["st0"] != 0:
            dev_status, why = e["st0"], "initial"
            break
        if e.get("aborted"):
            dev_status, why = e["st1"], "abort"
            break
        if e["data_out"] is not None and e.get("announced") != len(e["data_out"]):
            why = "short"
            break
        if e["st1"] not in (None, 0):
            dev_status, why = e["st1"], "final"
            break
        if e["data_in"] is not None and e["st1"] is None:
            why = "incomplete"  # the host never finished the data phase
            break
    complete = why is None and len(entries) == len(exp)
    # packet sizes of incoming data phases
    for e in entries:
        if any(n > size or n == 0 for n in e["in_packets"]):
            v.append((f"mboot-{o}-packet-exceeds-negotiated-size", dict(base, packets=e["in_packets"][:8], negotiated=size)))
    succ = reported_success(out)
    if o == "load_image":
        delta = bytes(c.loose_data[loose0:])
        pk = c.loose_packets
        if any(n > size for n in pk):
            v.append((f"mboot-{o}-packet-exceeds-negotiated-size", dict(base, packets=pk[:8], negotiated=size)))
        del pk[:]
        if out.exc is None and out.ret is True:
            if delta != op["data"]:
                v.append((f"mboot-{tr}-load_image-data-not-delivered-intact", dict(base, arrived=len(delta), sent=len(op["data"]))))
            elif out.status != 0:
                # the call has no device status of its own: after a delivered image the status a caller (blhost) reads must
                # be success, not what an internal query left behind
                v.append(("mboot-load_image-delivered-but-status_code-reports-failure", dict(base, status_code=out.status)))
            return "ok", v
        v.append((f"mboot-{tr}-load_image-failure-on-clean-link", base))
        return "failed", v
    if complete:
        if "data" in op and o not in ("flash_program_once",):
            din = b"".join(e["data_in"] or b"" for e in entries if e["flags"] == 1)
            if din != op["data"]:
                v.append((f"mboot-{tr}-{o}-data-not-delivered-intact", dict(base, arrived=len(din), sent=len(op["data"]))))
        if not exp:  # nothing to ask the device (zero-length USB read)
            if out.exc is not None or out.ret != b"":
                v.append((f"mboot-{tr}-{o}-empty-request-wrong-result", base))
            return "ok-empty", v
        if not succ:
            v.append((f"mboot-{tr}-{o}-failure-reported-on-device-success", base))
            return "failed-on-success", v
        if o in OUT_DATA_OPS:
            sent = b"".join(e["data_out"] or b"" for e in entries)
            if out.ret != sent:
                v.append((f"mboot-{tr}-{o}-returned-data-differ-from-device", dict(base, device_sent=len(sent))))
            if peek is not None and sent != peek:
                raise core.Inconclusive("model inconsistency: data sent differ from memory")
        elif o == "get_property":
            if out.ret != entries[-1]["values"]:
                v.append((f"mboot-{tr}-get_property-values-differ-from-device", dict(base, device=entries[-1]["values"])))
        elif o == "efuse_read_once":
            if out.ret != entries[-1]["values"][1]:
                v.append((f"mboot-{tr}-efuse_read_once-value-differs-from-device", dict(base, device=entries[-1]["values"])))
        elif o == "flash_read_once":
            vals = entries[-1]["values"]
            if out.ret != struct.pack(f"<{len(vals) - 1}I", *vals[1:])[:vals[0]]:
                v.append((f"mboot-{tr}-flash_read_once-value-differs-from-device", dict(base, device=vals)))
        elif out.ret is not True:
            v.append((f"mboot-{tr}-{o}-unexpected-return-on-success", base))
        if o in VALUE_OPS and peek is not None and out.ret != peek:
            raise core.Inconclusive("model inconsistency: value sent differs from state")
        return "ok", v
    # the device refused / misbehaved: the call must not claim success, and mirror the code
    if succ:
        if o == "reset" and why == "mute":
            return "reset-no-response-tolerated", v
        bad_at = next((k for k, e in enumerate(entries) if e["st0"] != 0 or e["st1"] not in (None, 0) or (e["data_out"] is not None and e.get("announced") != len(e["data_out"]))), len(entries))
        if tr == "usb" and o == "read" and why in ("short", "final") and bad_at < len(entries) - 1:
            v.append(("mboot-usb-read-failed-packet-masked-by-next-packet", dict(base, device_status=dev_status, stage=why, failed_packet=bad_at, packets=len(entries))))
            return "success-on-failure", v
        key = {"short": "mboot-short-data-phase-reported-as-success",
               "mute": f"mboot-{tr}-{o}-missing-response-reported-as-success",
               "incomplete": f"mboot-{tr}-{o}-incomplete-data-phase-reported-as-success"}.get(why, f"mboot-{tr}-{o}-device-error-{why}-reported-as-success")
        v.append((key, dict(base, device_status=dev_status, stage=why)))
        return "success-on-failure", v
    if why in ("initial", "final", "abort"):
        from spsdk.mboot.exceptions import McuBootCommandError

        if isinstance(out.exc, McuBootCommandError):
            if out.exc.error_value != dev_status:
                v.append((f"mboot-{tr}-{o}-exception-status-differs-from-device-{why}", dict(base, device_status=dev_status, raised=out.exc.error_value)))
        elif out.exc is None:
            if out.status != dev_status:
                v.append((f"mboot-{tr}-{o}-status-code-differs-from-device-{why}", dict(base, device_status=dev_status)))
        return f"device-error-{why}", v
    return f"device-{why}", v


# =============================================================================================
# offline checker over the transcript recorded at the driver boundary
# =============================================================================================
class TranscriptError(Exception):
    pass


def _parse_uart(stream: bytes, d2h: bool) -> list:
    """Strict parse of a serial byte stream into [(type, payload)]; raises TranscriptError."""
    out = []
    i = 0
    n = len(stream)
    while i < n:
        if stream[i] != MD.START:
            if d2h:  # dummy bytes are legal only in front of a ping response
                j = i
                while j < n and stream[j] != MD.START:
                    j += 1
                if j + 1 < n and stream[j + 1] == MD.FT_PINGR:
                    i = j
                    continue
            raise TranscriptError(f"byte {stream[i]:#x} at {i} outside a frame")
        if i + 2 > n:
            raise TranscriptError("dangling start byte")
        ft = stream[i + 1]
        if ft in (MD.FT_ACK, MD.FT_NAK, MD.FT_ABORT, MD.FT_PING):
            out.append((ft, b""))
            i += 2
        elif ft == MD.FT_PINGR:
            body = stream[i:i + 10]
            if len(body) < 10 or MD.crc16_xmodem(body[:8]) != struct.unpack("<H", body[8:])[0]:
                raise TranscriptError("bad ping response")
            out.append((ft, body[2:8]))
            i += 10
        elif ft in (MD.FT_CMD, MD.FT_DATA):
            if i + 6 > n:
                raise TranscriptError("truncated frame header")
            ln, crc = struct.unpack_from("<HH", stream, i + 2)
            payload = stream[i + 6:i + 6 + ln]
            if len(payload) != ln:
                raise TranscriptError("truncated frame")
            if MD.crc16_xmodem(stream[i:i + 4] + payload) != crc:
                raise TranscriptError(f"frame at {i} has a wrong CRC")
            out.append((ft, bytes(payload)))
            i += 6 + ln
        else:
            raise TranscriptError(f"unknown frame type {ft:#x}")
    return out


def _parse_hid(reports: list, d2h: bool) -> list:
    out = []
    for r in reports:
        if len(r) < 4:
            raise TranscriptError(f"report of {len(r)} bytes")
        rid, z, ln = struct.unpack_from("<BBH", r)
        if z != 0 or len(r) < 4 + ln or (not d2h and len(r) != 4 + ln):
            raise TranscriptError(f"report id {rid} len16 {ln} has {len(r) - 4} payload bytes")
        if rid not in ((3, 4) if d2h else (1, 2)):
            raise TranscriptError(f"report id {rid} in the wrong direction")
        out.append((MD.FT_CMD if rid in (1, 3) else MD.FT_DATA, bytes(r[4:4 + ln])))
    return out


def split_ops(events: list) -> list:
    """[(marker, [events])]"""
    out = []
    for ev in events:
        if ev[0] == "op":
            out.append((ev[1], []))
        elif out:
            out[-1][1].append(ev)
    return out


def check_mboot_transcript(sess: MbootSession, records: list) -> list:
    """records: [(marker, op, outcome, complete)] in call order.  Returns [(mechanism, detail)]."""
    v = []
    uart = sess.transport == "uart"
    segs = {m: evs for m, evs in split_ops(sess.link.events)}
    em_all = sess.link.emissions
    # every byte the device emitted was consumed exactly once, in order, nothing flushed unread
    consumed = b"".join(ev[2] for ev in sess.link.events if ev[0] == "r") if uart else [ev[2] for ev in sess.link.events if ev[0] == "r" and ev[2]]
    emitted = b"".join(e[2] for e in em_all) if uart else [e[2] for e in em_all]
    if uart and (consumed != emitted or sess.link.flushed):
        v.append(("mboot-uart-device-bytes-not-consumed-exactly-once", {"emitted": len(emitted), "consumed": len(consumed), "flushed": sess.link.flushed}))
    if not uart and ([r[:1024] for r in emitted] != consumed or sess.link.queue):
        v.append(("mboot-usb-device-reports-not-consumed-exactly-once", {"emitted": len(emitted), "consumed": len(consumed), "left": len(sess.link.queue)}))
    for marker, op, out, complete in records:
        evs = segs.get(marker, [])
        try:
            if uart:
                h2d = _parse_uart(b"".join(ev[1] for ev in evs if ev[0] == "w"), False)
                d2h = _parse_uart(b"".join(ev[2] for ev in evs if ev[0] == "r"), True)
            else:
                h2d = _parse_hid([ev[1] for ev in evs if ev[0] == "w"], False)
                d2h = _parse_hid([ev[2] for ev in evs if ev[0] == "r" and ev[2]], True)
        except TranscriptError as e:
            v.append((f"mboot-{sess.transport}-{op['op']}-transcript-malformed", {"op": op_brief(op), "why": str(e)}))
            continue
        base = {"op": op_brief(op), "transport": sess.transport, "max_packet": sess.mps}
        data_out = [p for t, p in h2d if t == MD.FT_DATA]
        data_in = [p for t, p in d2h if t == MD.FT_DATA]
        if any(len(p) > sess.negotiated_size for p in data_out):
            v.append((f"mboot-{op['op']}-packet-exceeds-negotiated-size", dict(base, sizes=[len(p) for p in data_out][:8])))
        if uart:
            n_dev_frames = sum(1 for t, _ in d2h if t in (MD.FT_CMD, MD.FT_DATA))
            n_host_acks = sum(1 for t, _ in h2d if t == MD.FT_ACK)
            n_host_frames = sum(1 for t, _ in h2d if t in (MD.FT_CMD, MD.FT_DATA))
            n_dev_acks = sum(1 for t, _ in d2h if t in (MD.FT_ACK, MD.FT_ABORT))
            if n_dev_frames != n_host_acks or n_host_frames != n_dev_acks:
                v.append((f"mboot-uart-{op['op']}-ack-count-mismatch", dict(base, device_frames=n_dev_frames, host_acks=n_host_acks, host_frames=n_host_frames, device_acks=n_dev_acks)))
        if complete:
            if "data" in op and op["op"] != "flash_program_once" and b"".join(data_out) != op["data"]:
                v.append((f"mboot-{sess.transport}-{op['op']}-wire-data-differ-from-argument", dict(base, on_wire=sum(map(len, data_out)))))
            if op["op"] in OUT_DATA_OPS and out.exc is None and out.ret != b"".join(data_in):
                v.append((f"mboot-{sess.transport}-{op['op']}-returned-data-differ-from-wire", dict(base, on_wire=sum(map(len, data_in)))))
    return v


# =============================================================================================
# mboot: case runners
# =============================================================================================
def make_mboot_cfg(rng, transport, small=False):
    if small:
        mps = core.pick(rng, [32, 32, 36, 64])
    elif transport == "usb":  # a HID report (4 + payload) never exceeds the 1024 bytes the host asks for
        mps = core.pick(rng, [32, 32, 56, 64, 128, 256, 512, 1016, 1020, 33, 100])
    else:
        mps = core.pick(rng, [32, 32, 64, 128, 256, 512, 1024, 33, 100, 1000])
    dummy = ""
    if transport == "uart" and rng.random() < 0.3:
        dummy = bytes(rng.choice([0x00, 0xFF, 0x5B, 0xA7, 0x12]) for _ in range(rng.randrange(1, 45))).hex()
    return {"transport": transport, "mps": mps, "cmd_exception": rng.random() < 0.5, "dev_seed": rng.getrandbits(32),
            "pad": core.pick(rng, ["zeros", "none", "junk"]), "ping_dummy": dummy, "has_mps_prop": rng.random() > 0.12}


def _prepare_op(sess, op):
    if op["op"] == "security_disable" and op.get("right_key"):
        w = sess.core.backdoor_key_words()
        op["key"] = w[0:4][::-1] + w[4:8][::-1]


class Shadow:
    """Memory as the API calls prescribe it (independent of the model's own bookkeeping)."""

    def __init__(self, c):
        self.mem = {k: (b, bytearray(buf)) for k, (b, buf) in c.regions.items()}
        self.ext = bytearray(c.ext)

    def _span(self, addr, n, mem):
        if mem == MD.EXT_MEM_ID:
            return self.ext, addr
        for b, buf in self.mem.values():
            if b <= addr and addr + n <= b + len(buf):
                return buf, addr - b
        raise core.Inconclusive("shadow: successful call outside the memory map")

    def apply(self, op):
        o = op["op"]
        if o == "write":
            buf, off = self._span(op["addr"], len(op["data"]), op["mem"])
            buf[off:off + len(op["data"])] = op["data"]
        elif o == "fill":
            buf, off = self._span(op["addr"], op["len"], 0)
            pat = struct.pack("<I", op["pattern"])
            for i in range(op["len"]):
                buf[off + i] = pat[i % 4]
        elif o == "erase_region":
            buf, off = self._span(op["addr"], op["len"], op["mem"])
            buf[off:off + op["len"]] = b"\xff" * op["len"]
        elif o in ("erase_all", "erase_all_unsecure"):
            if op.get("mem", 0) == MD.EXT_MEM_ID:
                self.ext[:] = b"\xff" * len(self.ext)
            else:
                self.mem["flash"][1][:] = b"\xff" * len(self.mem["flash"][1])

    def differs(self, c):
        for k, (b, buf) in c.regions.items():
            if buf != self.mem[k][1]:
                return k
        return "ext" if c.ext != self.ext else None


def run_mboot_history(ctx, cfg, ops, plans=None, family="hist", judge_all=True):
    """Clean link.  Returns (session, outcomes, classes)."""
    sess = MbootSession(cfg, plans=plans)
    tr = cfg["transport"]
    if sess.open_exc is not None:
        ctx.violation(f"mboot-{tr}-open-fails-on-clean-link", {"cfg": cfg, "exception": core.exc_brief(sess.open_exc)})
        return sess, [], []
    shadow = Shadow(sess.core)
    records, outs, classes = [], [], []
    for i, op in enumerate(ops):
        _prepare_op(sess, op)
        peek = mboot_peek_expected(sess.core, op)
        j0, loose0 = len(sess.core.journal), len(sess.core.loose_data)
        sess.link.mark(i)
        out = sess.run(op)
        cls, viol = judge_mboot(sess, op, out, j0, loose0, peek)
        outs.append(out)
        classes.append(cls)
        if cls == "ok":
            shadow.apply(op)
        records.append((i, op, out, cls == "ok"))
        ctx.count("mboot_ops_judged")
        for mech, det in viol:
            ctx.violation(mech, dict(det, family=family, op_index=i, plans=plans))
        if not viol and judge_all:
            ctx.ok(["mboot", tr, family, op["op"], lclass(op_len(op), sess.mps), sess.mps if sess.mps in (32, 64, 1024) else "other",
                    cfg["cmd_exception"], cls], sample={"cfg": cfg, "op": op_brief(op), "observed": out.brief()})
    tv = check_mboot_transcript(sess, records)
    ctx.count("transcript_ops_checked", len(records))
    for mech, det in tv:
        ctx.violation(mech, dict(det, family=family, cfg=cfg))
    d = shadow.differs(sess.core)
    if d:
        ctx.violation(f"mboot-{tr}-device-memory-differs-from-calls", {"cfg": cfg, "region": d, "ops": [op_brief(o) for o in ops][:8]})
    return sess, outs, classes


STATUS_POOL = [1, 4, 101, 10000, 10001, 10002, 10101, 10200, 10301, 52806, 0x12345678, 0xA50AB507]


def run_mboot_status_case(ctx, cfg, ops, rng, budget):
    """Device answers with errors / aborts / short or missing data on a clean link: the call mirrors it."""
    sess0, outs0, classes0 = run_mboot_history(ctx, cfg, ops, family="status-baseline", judge_all=False)
    if sess0.open_exc is not None:
        return
    plans = []
    for e in sess0.core.journal:
        i = e["i"]
        if e["st0"] != 0:
            continue
        for st in rng.sample(STATUS_POOL, 2):
            plans.append({"error_plan": {i: ("initial", st)}})
        if e["data_in"] is not None or e["data_out"] is not None:
            for st in rng.sample(STATUS_POOL, 2):
                plans.append({"error_plan": {i: ("final", st)}})
        if e["data_in"]:
            n = len(e["data_in"])
            for cut in {0, n // 2, max(0, n - 1)}:
                plans.append({"abort_plan": {i: (cut, core.pick(rng, [10002, 10101, 10001, 0x00BADBAD]))}})
        if e["data_out"]:
            n = len(e["data_out"])
            for w in {1, min(n, sess0.mps), n}:
                plans.append({"short_plan": {i: w}})
        plans.append({"mute_plan": {i: True}})
    rng.shuffle(plans)
    for plan in plans[:budget]:
        p = {k: (set(v) if k == "mute_plan" else v) for k, v in plan.items()}
        sess = MbootSession(cfg, plans=None)
        for name, val in p.items():
            getattr(sess.core, name).update(val)
        if sess.open_exc is not None:
            raise core.Inconclusive("open failed in a status run")
        kind = next(iter(plan))
        for i, op in enumerate(ops):
            _prepare_op(sess, op)
            peek = None  # the device deviates on purpose; values are checked against what it sent
            j0, loose0 = len(sess.core.journal), len(sess.core.loose_data)
            out = sess.run(op)
            cls, viol = judge_mboot(sess, op, out, j0, loose0, peek)
            ctx.count("mboot_status_mirror")
            for mech, det in viol:
                ctx.violation(mech, dict(det, family="status", plan=plan, cfg=cfg, op_index=i))
            if not viol:
                ctx.ok(["mboot", cfg["transport"], "status", kind, op["op"], cfg["cmd_exception"], cls],
                       sample={"plan": plan, "op": op_brief(op), "observed": out.brief()})
            if out.exc is not None or cls.startswith("device-"):
                break  # after a refused / broken exchange the rest of the history is not comparable


def _fault_candidates(tr, emissions, rng):
    """All (kind, pos, arg) candidates for a recorded fault-free stream."""
    cands = []
    if tr == "uart":
        for start, kind, raw in emissions:
            for off in range(len(raw)):
                cands.append(("flip", start + off, rng.randrange(8)))
                cands.append(("drop", start + off, 0))
                if off:
                    cands.append(("trunc", start + off, 0))
            cands.append(("missing", start, 0))
            cands.append(("notready", start, rng.randrange(8)))
            if kind in ("cmd", "data", "pingr"):
                cands.append(("crc", start, rng.randrange(255)))
            if kind in ("ack", "cmd"):
                cands.append(("stuck", start, 0))
            if kind == "ack":
                cands.append(("nak", start, 0))
                cands.append(("abort", start, 0))
                for bit in range(8):  # every single-bit corruption of the (unprotected) type byte
                    cands.append(("flip", start + 1, bit))
    else:
        for idx, kind, raw in emissions:
            plen = struct.unpack_from("<H", raw, 2)[0]
            cuts = {0, 1, 2, 3, 4, 4 + plen // 2, 4 + plen - 1, 4 + plen - 2, 4 + plen, len(raw) - 1, 5, 8, 11, 12}
            for cpos in sorted(x for x in cuts if 0 <= x < len(raw)):
                cands.append(("trunc", idx, cpos))
            cands.append(("missing", idx, 0))
            cands.append(("abort", idx, 0))
    return cands


def fault_key(tr, op, f: Fault, out: Outcome, what: str, sess=None) -> str:
    em = f.info["emission"] if f.info else "?"
    if tr == "usb" and f.kind == "trunc":
        plen = struct.unpack_from("<H", f.info["orig"], 2)[0]
        if len(f.info["new"]) < 4 + plen:
            if out.exc is not None and type(out.exc).__name__ == "error":
                return "mboot-usb-truncated-hid-report-struct-error"
            if what == "success":
                return "mboot-usb-truncated-hid-report-accepted"
    if what == "success" and op["op"] in OUT_DATA_OPS and isinstance(out.ret, bytes) and em == "data":
        if tr == "usb" and op["op"] == "read" and sess is not None and f.kind != "flip":
            hit = next((i for i, e in enumerate(sess.link.emissions) if e[2] == f.info["orig"] and e[1] == "data"), None)
            if hit is not None and any(e[1] == "data" for e in sess.link.emissions[hit + 1:]):
                return "mboot-usb-read-failed-packet-masked-by-next-packet"
        return "mboot-short-data-phase-reported-as-success"  # a data packet was lost, the final response said SUCCESS
    if what == "exception" and isinstance(out.exc, AssertionError):
        import traceback

        fn = traceback.extract_tb(out.exc.__traceback__)[-1].name
        return f"mboot-{fn.strip('_')}-unexpected-packet-kind-AssertionError"
    if what == "exception":
        return f"mboot-{tr}-{f.kind}-{em}-undocumented-{type(out.exc).__name__}"
    if what == "bound":
        return f"mboot-{tr}-{f.kind}-{em}-read-bound-exceeded"
    if what == "notready":
        return f"mboot-{tr}-not-ready-bytes-before-{em}-not-tolerated"
    return f"mboot-{tr}-{f.kind}-{em}-{op['op']}-success-with-wrong-result"


def _responses_name_their_command(events, aux_query_allowed=False) -> bool:
    """HID transcript of one call: does the response taken for the answer to each command name that command (if generic)?"""
    last, first = None, False
    for ev in events:
        if ev[0] == "w" and len(ev[1]) > 4 and ev[1][0] == 1:
            last, first = ev[1][4], True
        elif ev[0] == "r" and len(ev[2]) >= 16 and ev[2][0] == 3:
            pay = ev[2][4:]
            if first and pay[0] == 0xA0 and pay[8] != last and not (aux_query_allowed and last == MD.C_GET_PROPERTY):
                # a generic response carries the tag of the command it answers: the host can tell (repaired).  The packet-size
                # query McuBoot makes on its own is exempt: there the host does tell, and goes on with the default size by design
                return False
            # a typed response (GetProperty, ReadMemory, ...) carries no command tag; generic responses that arrive later, inside
            # the data phase, are matched by their command tag by the host itself (it skips those of other commands)
            first = False
    return last is not None


def _judge_after_fault(ctx, sess, tr, op, out, j0, loose0, peek, f, detail, index, pending):
    """A call made after the one that met the fault.  The device model went on as the protocol says, the host side is in
    whatever state its error handling left it: a failure is fine, a reported success has to be true."""
    ctx.count("mboot_calls_after_fault")
    em = f.info["emission"] if f.info else "?"
    d = dict(detail, later_op=op_brief(op), later_observed=out.brief(), later_index=index)
    sig = ["mboot", tr, "after-fault", f.kind, em, op["op"]]
    if out.exc is not None and not documented(out.exc):
        ctx.violation(f"mboot-{tr}-call-after-{f.kind}-{em}-undocumented-{type(out.exc).__name__}", d)
        return
    succ = reported_success(out) or (op["op"] == "load_image" and out.exc is None and out.ret is True)
    if not succ:
        ctx.ok(sig + ["failed"])
        del sess.core.anomalies[:]
        return
    if op["op"] == "load_image":
        # load_image sends bare data packets and gets no response of its own; a device that is still inside the command the
        # host gave up (waiting for its data, or for the acknowledge of its response) takes them for that command.  Nothing
        # on the link tells the host, so a success here is not judged.
        ctx.ok(sig + ["bare-data-after-abandoned-command-not-judged"], nontrivial=False)
        del sess.core.anomalies[:]
        return
    cls, viol = judge_mboot(sess, op, out, j0, loose0, peek)
    if viol or cls not in ("ok", "ok-empty", "reset-no-response-tolerated"):
        why = [m for m, _ in viol][:3]
        key = f"mboot-{tr}-call-after-{f.kind}-{em}-{op['op']}-success-with-wrong-result"
        if pending[0] and all(m.endswith("-reported-as-success") or "-differ" in m for m in why) and cls != "command-mismatch" \
                and _responses_name_their_command(sess.link.events[pending[1]:], aux_query_allowed=op["op"] not in ("get_property", "get_property_ext")):
            # reports were waiting unread when the call began, so every command of the call got the answer to an earlier one;
            # each generic one among them names the very command that was sent (anything else is refused since the repair),
            # the typed ones name no command at all
            key = "mboot-usb-unread-reports-answer-later-commands"
        ctx.violation(key, dict(d, judged=cls, why=why, unread_reports_before_the_call=pending[0],
                               transcript_of_the_call=[(e[0], core.hx(e[1] if e[0] == "w" else e[2], 14)) for e in sess.link.events[pending[1]:] if e[0] in "wr"][:12]))
    else:
        ctx.count("mboot_calls_after_fault_succeeded")
        ctx.ok(sig + ["succeeded"])


def _same_outcome(a: Outcome, b: Outcome) -> bool:
    return a.ret == b.ret and a.status == b.status and type(a.exc) is type(b.exc)


def run_mboot_fault_case(ctx, cfg, ops, rng, budget, cands_fn=None):
    tr = cfg["transport"]
    sess0, outs0, classes0 = run_mboot_history(ctx, cfg, ops, family="fault-baseline", judge_all=False)
    if sess0.open_exc is not None or len(outs0) != len(ops):
        return
    L = sess0.link.d2h_len()
    bound = 10 * L + 1000
    cands = cands_fn(sess0.link.emissions) if cands_fn else _fault_candidates(tr, sess0.link.emissions, rng)
    if len(cands) > budget:
        cands = rng.sample(cands, budget)
    ctx.note("fault_stream_bytes", L)
    stats = {"surfaced": 0, "absorbed": 0, "undetectable": 0, "not-triggered": 0}
    for kind, pos, arg in cands:
        f = Fault(kind, pos, arg)
        try:
            # a line stuck at 'not ready' costs one driver read per millisecond of the host's timeout (5 s on the serial link):
            # the bound for it is four such waits
            sess = MbootSession(cfg, fault=f, max_reads=bound + (20000 if kind == "stuck" else 0))
        except ReadBudget:
            ctx.violation(fault_key(tr, {"op": "open"}, f, Outcome(), "bound"), {"cfg": cfg, "fault": [kind, pos, arg], "bound": bound})
            continue
        ctx.count("mboot_fault_runs")
        detail = {"cfg": cfg, "fault": {"kind": kind, "pos": pos, "arg": arg}, "stream_len": L}
        if f.done:  # the fault hit the ping exchange
            e = sess.open_exc
            detail["fault"].update(emission=f.info["emission"], orig=f.info["orig"], new=f.info["new"])
            if e is not None and not documented(e):
                ctx.violation(fault_key(tr, {"op": "open"}, f, Outcome(exc=e), "exception"), dict(detail, exception=core.exc_brief(e)))
            elif e is None and kind not in ("notready",) and sess.iface.protocol_version != sess0.iface.protocol_version:
                ctx.violation(f"mboot-uart-{kind}-pingr-open-accepts-corrupted-ping-response", detail)
            elif e is not None and kind == "notready":
                ctx.violation(fault_key(tr, {"op": "open"}, f, Outcome(exc=e), "notready"), dict(detail, exception=core.exc_brief(e)))
            else:
                stats["surfaced" if e is not None else "absorbed"] += 1
                ctx.ok(["mboot", tr, "fault", kind, "pingr", "open", "surfaced" if e is not None else "absorbed"])
            continue
        if sess.open_exc is not None:
            raise core.Inconclusive(f"open failed without a fault: {core.exc_brief(sess.open_exc)}")
        judged = False
        for i, op in enumerate(ops):
            _prepare_op(sess, op)
            peek = mboot_peek_expected(sess.core, op)
            j0, loose0 = len(sess.core.journal), len(sess.core.loose_data)
            # reports of an earlier command that the host never read (USB-HID has no flush)
            pending = (len(sess.link.queue) if tr == "usb" else 0, len(sess.link.events))
            try:
                out = sess.run(op)
            except ReadBudget:
                ctx.violation(fault_key(tr, op, f, Outcome(), "bound"), dict(detail, op=op_brief(op), bound=bound, reads=sess.link.reads))
                judged = True
                break
            if judged:  # a call made after the faulty one: the link is as the fault left it, the rule is the same
                _judge_after_fault(ctx, sess, tr, op, out, j0, loose0, peek, f, detail, i, pending)
                continue
            if not f.done:
                if not _same_outcome(out, outs0[i]):
                    raise core.Inconclusive(f"run before the fault differs from the recording at op {i}")
                continue
            judged = True
            detail["fault"].update(emission=f.info["emission"], offset=f.info["offset"], orig=f.info["orig"], new=f.info["new"])
            detail.update(op=op_brief(op), observed=out.brief(), fault_free=outs0[i].brief(), op_index=i)
            sig = ["mboot", tr, "fault", kind, f.info["emission"], op["op"], cfg["cmd_exception"]]
            if f.undetectable:
                stats["undetectable"] += 1
                ctx.ok(sig + ["crc-collision-not-judged"], nontrivial=False)
                break
            if out.exc is not None and not documented(out.exc):
                ctx.violation(fault_key(tr, op, f, out, "exception"), detail)
                break
            if kind == "notready":
                if not _same_outcome(out, outs0[i]):
                    ctx.violation(fault_key(tr, op, f, out, "notready"), detail)
                else:
                    stats["absorbed"] += 1
                    ctx.ok(sig + ["tolerated"])
                    continue
                break
            succ = reported_success(out) or (op["op"] == "load_image" and out.exc is None and out.ret is True)
            ack_of = bytes(sess.link.cause.get(f.pos - f.info["offset"], b"")[:2]) if kind == "flip" and f.info["emission"] == "ack" else b""
            cause = bytes(sess.link.cause.get(f.pos - f.info["offset"], b"")) if ack_of else b""
            # an auxiliary GetProperty (the packet-size query McuBoot makes on its own) may fail silently by design: the
            # rule is about the command the caller asked for
            aux = len(cause) > 6 and cause[6] == 0x07 and op["op"] not in ("get_property", "get_property_ext")
            if succ and kind == "flip" and f.info["emission"] == "ack" and f.info["offset"] == 1 and ack_of == bytes([MD.START, MD.FT_CMD]) and not aux:
                # the acknowledge frame has no CRC: its type byte is all the host has.  A frame whose type byte is not
                # ACK (any single-bit corruption of 0xA1) tells the host nothing, so the call must not go on as if the
                # device had acknowledged - whatever the device really did.
                ctx.violation("mboot-uart-corrupted-ack-of-command-frame-taken-for-acknowledge", dict(detail, type_byte=hex(f.info["new"][1])))
                break
            if succ:
                cls, viol = judge_mboot(sess, op, out, j0, loose0, peek)
                if viol or cls not in ("ok", "ok-empty", "reset-no-response-tolerated"):
                    ctx.violation(fault_key(tr, op, f, out, "success", sess), dict(detail, judged=cls, why=[m for m, _ in viol][:3]))
                    break
                stats["absorbed"] += 1
                ctx.ok(sig + ["absorbed"])
            else:
                stats["surfaced"] += 1
                ctx.ok(sig + ["surfaced", type(out.exc).__name__ if out.exc else "status"])
            if kind == "stuck":
                break  # the line stays stuck: every later call would only repeat the same wait
            # the calls that follow run on the link as the fault left it (section 'after the fault' of the docstring)
            del sess.core.anomalies[:]
            if getattr(sess.tdev, "malformed", None):
                del sess.tdev.malformed[:]
        if not judged:
            stats["not-triggered"] += 1
    for k2, n in stats.items():
        ctx.count("mboot_fault_" + k2.replace("-", "_"), n)


# =============================================================================================
# SDP
# =============================================================================================
SDP_HAB_LOCKED_TAG = 2  # StatusCode.HAB_IS_LOCKED


class SdpSession:
    def __init__(self, cfg, fault=None, max_reads=None, plans=None):
        import spsdk.sdp.protocol.bulk_protocol as bp
        from spsdk.sdp.interfaces.uart import SdpUARTInterface
        from spsdk.sdp.interfaces.usb import SdpUSBInterface
        from spsdk.sdp.sdp import SDP

        bp.HID_REPORT.clear()
        bp.HID_REPORT.update(_PRISTINE_HID_REPORT)
        self.cfg = cfg
        self.transport = cfg["transport"]
        self.core = SD.SdpCore(seed=cfg["dev_seed"], hab_closed=cfg["hab_closed"])
        for name, val in (plans or {}).items():
            getattr(self.core, name).update(val)
        if self.transport == "uart":
            self.tdev = SD.SdpUart(self.core)
            self.link = Link(self.tdev, fault, max_reads, stream=True)
            self.iface = SdpUARTInterface(_serial_device(self.link))
        else:
            self.tdev = SD.SdpHid(self.core, exact_last=cfg.get("exact_last", False))
            self.link = Link(self.tdev, fault, max_reads, stream=False)
            self.iface = SdpUSBInterface(_usb_device(self.link))
        self.sdp = SDP(self.iface, cmd_exception=cfg["cmd_exception"])
        self.sdp.open()

    def run(self, op) -> Outcome:
        s = self.sdp
        try:
            ret = sdp_call(s, op)
            exc = None
        except ReadBudget:
            raise
        except Exception as e:  # pylint: disable=broad-except
            ret, exc = None, e
        sc = s.status_code
        return Outcome(ret, exc, getattr(sc, "tag", sc), {"hab_status": s.hab_status, "cmd_status": s.cmd_status})


def sdp_call(s, op):
    o = op["op"]
    if o == "read":
        return s.read(op["addr"], op["len"], op["fmt"])
    if o == "read_safe":
        return s.read_safe(op["addr"], op["len"], op["fmt"])
    if o == "write":
        return s.write(op["addr"], op["value"], op["count"], op["fmt"])
    if o == "write_safe":
        return s.write_safe(op["addr"], op["value"], op["count"], op["fmt"])
    if o == "write_file":
        return s.write_file(op["addr"], op["data"])
    if o == "write_dcd":
        return s.write_dcd(op["addr"], op["data"])
    if o == "write_csf":
        return s.write_csf(op["addr"], op["data"])
    if o == "skip_dcd":
        return s.skip_dcd()
    if o == "jump":
        return s.jump_and_run(op["addr"])
    if o == "read_status":
        return s.read_status()
    raise core.Inconclusive(f"unknown sdp op {o}")


def sdp_expected_cmd(op):
    o = op["op"]
    if o in ("read", "read_safe"):
        return (SD.T_READ, op["addr"], op["fmt"], op["len"], 0)
    if o in ("write", "write_safe"):
        return (SD.T_WRITE, op["addr"], op["fmt"], op["count"], op["value"])
    if o in ("write_file", "write_dcd", "write_csf"):
        return ({"write_file": SD.T_WRITE_FILE, "write_dcd": SD.T_WRITE_DCD, "write_csf": SD.T_WRITE_CSF}[o], op["addr"], 0, len(op["data"]), 0)
    if o == "skip_dcd":
        return (SD.T_SKIP_DCD, 0, 0, 0, 0)
    if o == "jump":
        return (SD.T_JUMP, op["addr"], 0, 0, 0)
    if o == "read_status":
        return (SD.T_ERROR_STATUS, 0, 0, 0, 0)
    raise core.Inconclusive(o)


SDP_OK_WORD = {"write": SD.WRITE_DATA_OK, "write_safe": SD.WRITE_DATA_OK, "write_file": SD.WRITE_FILE_OK, "write_dcd": SD.WRITE_DATA_OK,
               "write_csf": SD.WRITE_DATA_OK, "skip_dcd": SD.SKIP_DCD_OK}
SDP_FAIL_TAG = {"write": 11, "write_safe": 11, "write_file": 12, "write_dcd": 13, "write_csf": 14, "skip_dcd": 15}
SDP_SEND_OPS = ("write_file", "write_dcd", "write_csf")


def gen_sdp_op(rng, kind, small=False, uart=False):
    C = SD.SdpCore
    o = {"op": kind}
    if kind in ("read", "read_safe"):
        fmt = core.pick(rng, [8, 16, 32, 32])
        n = core.pick(rng, [0, 1, 3, 4, 63, 64, 65, 127, 128, 129, 200, rng.randrange(0, 300)] + ([] if small else [1000, 1024, 4096, rng.randrange(0, 5000)]))
        if kind == "read_safe":
            n = max(1, n)
        base, size = core.pick(rng, [(C.RAM_BASE, C.RAM_SIZE), (C.RAM_BASE, C.RAM_SIZE), (C.REG_BASE, C.REG_SIZE)])
        n = min(n, size)
        a = base + rng.randrange(0, size - n + 1)
        if kind == "read_safe" or rng.random() < 0.5:
            a = max(base, a & ~3)
        if rng.random() < 0.05 and kind == "read":
            a = 0x7000_0000
        o.update(addr=a, len=n, fmt=fmt)
    elif kind in ("write", "write_safe"):
        fmt = core.pick(rng, [8, 16, 32, 32])
        base, size = core.pick(rng, [(C.RAM_BASE, C.RAM_SIZE), (C.REG_BASE, C.REG_SIZE)])
        a = (base + rng.randrange(0, size - 4)) & ~3
        if rng.random() < 0.06:
            a = 0x7000_0000
        o.update(addr=a, value=rng.getrandbits(fmt if kind == "write" else 32), count=fmt // 8, fmt=fmt)
    elif kind in SDP_SEND_OPS:
        n = core.pick(rng, [0, 1, 15, 16, 17, 63, 64, 65, 300, rng.randrange(0, 400)] + ([] if small else [1023, 1024, 1025, 2048, 2049, 5000, rng.randrange(0, 70000), 65536]))
        if uart:  # an empty serial write would flush the ROM's answer: decided by timing, not by the protocol
            n = max(1, n)
        a = C.RAM_BASE + rng.randrange(0, C.RAM_SIZE - n + 1)
        if rng.random() < 0.05:
            a = 0x7000_0000
        o.update(addr=a, data=core.rand_bytes(rng, n))
    elif kind == "jump":
        o["addr"] = C.RAM_BASE + 4 * rng.randrange(0, 1000)
    return o


SDP_OPS = ["read", "read", "read_safe", "write", "write", "write_safe", "write_file", "write_file", "write_dcd", "write_csf", "skip_dcd", "jump", "read_status", "read_status"]


def judge_sdp(sess: SdpSession, op, out: Outcome, j0: int, peek):  # noqa: C901
    v = []
    o = op["op"]
    tr = sess.transport
    c = sess.core
    base = {"op": op_brief(op), "transport": tr, "hab_closed": sess.cfg["hab_closed"], "cmd_exception": sess.cfg["cmd_exception"], "observed": out.brief()}
    if out.exc is not None and not documented(out.exc):
        v.append((f"sdp-{tr}-{o}-undocumented-{type(out.exc).__name__}", base))
    entries = c.journal[j0:]
    exp = sdp_expected_cmd(op)
    got = [(e["tag"], e.get("address"), e.get("format"), e.get("count"), e.get("value")) for e in entries]
    if got != [exp] or entries[0].get("reserved") != 0:
        v.append((f"sdp-{o}-command-mismatch", dict(base, expected=exp, arrived=got[:3])))
        return "command-mismatch", v
    if c.anomalies:
        v.append((f"sdp-{tr}-{o}-protocol-anomaly", dict(base, anomalies=c.anomalies[:4])))
        del c.anomalies[:]
    e = entries[0]
    succ = out.exc is None and out.ret is not None and out.ret is not False
    if o in SDP_SEND_OPS and e["data_in"] != op["data"]:
        v.append((f"sdp-{tr}-{o}-data-not-delivered-intact", dict(base, arrived=len(e["data_in"] or b""))))
    # expected verdict
    if o in ("read", "read_safe"):
        complete = e["data_out"] is not None and len(e["data_out"]) == op["len"]
        if complete:
            if not succ:
                v.append((f"sdp-{tr}-{o}-failure-reported-on-device-success", base))
            elif out.ret != e["data_out"]:
                v.append((f"sdp-{tr}-{o}-returned-data-differ-from-device", dict(base, device_sent=len(e["data_out"]))))
            if peek is not None and e["data_out"] != peek:
                raise core.Inconclusive("sdp model inconsistency")
        elif succ:
            v.append((f"sdp-{tr}-{o}-partial-data-reported-as-success", dict(base, device_sent=len(e["data_out"] or b""))))
        cls = "ok" if complete else "device-refused"
    elif o == "read_status":
        if not succ or out.ret != e["status"]:
            v.append((f"sdp-{tr}-read_status-value-differs-from-device", dict(base, device=e["status"])))
        cls = "ok"
    elif o == "jump":
        if out.ret is not True:
            v.append((f"sdp-{tr}-jump-failure-reported-on-device-success", base))
        cls = "ok"
    else:
        ok_dev = e["status"] == SDP_OK_WORD[o]
        cls = "ok" if ok_dev else "device-error"
        if ok_dev and out.ret is not True:
            v.append((f"sdp-{tr}-{o}-failure-reported-on-device-success", base))
        if not ok_dev:
            from spsdk.sdp.exceptions import SdpCommandError

            if succ:
                v.append((f"sdp-{tr}-{o}-device-error-reported-as-success", dict(base, device_status=e["status"])))
            elif isinstance(out.exc, SdpCommandError):
                if out.exc.error_value != SDP_FAIL_TAG[o]:
                    v.append((f"sdp-{tr}-{o}-exception-code-wrong", dict(base, raised=out.exc.error_value)))
            elif out.exc is None and out.status != SDP_FAIL_TAG[o]:
                v.append((f"sdp-{tr}-{o}-status-code-not-set-on-device-error", dict(base, device_status=e["status"])))
        if o in SDP_SEND_OPS and out.exc is None and out.extra["cmd_status"] != e["status"]:
            v.append((f"sdp-{tr}-{o}-cmd_status-differs-from-device", dict(base, device_status=e["status"])))
    # HAB word mirror
    if out.exc is None:
        hab_ok = out.extra["hab_status"] == e["hab"]
        want_locked = e["hab"] != SD.HAB_OPEN
        st_ok = (out.status == SDP_HAB_LOCKED_TAG) == want_locked if cls == "ok" else True
        if not (hab_ok and st_ok):
            if o in SDP_SEND_OPS and want_locked:
                v.append(("sdp-senddata-hab-status-replaced", dict(base, device_hab_word=e["hab"])))
            else:
                v.append((f"sdp-{tr}-{o}-hab-status-differs-from-device", dict(base, device_hab_word=e["hab"])))
    return cls, v


def check_sdp_transcript(sess: SdpSession, records) -> list:
    v = []
    uart = sess.transport == "uart"
    if uart:
        consumed = b"".join(ev[2] for ev in sess.link.events if ev[0] == "r")
        emitted = b"".join(e[2] for e in sess.link.emissions)
        if consumed != emitted or sess.link.flushed:
            v.append(("sdp-uart-device-bytes-not-consumed-exactly-once", {"emitted": len(emitted), "consumed": len(consumed), "flushed": sess.link.flushed}))
    else:
        consumed = [ev[2] for ev in sess.link.events if ev[0] == "r" and ev[2]]
        if consumed != [e[2] for e in sess.link.emissions] or sess.link.queue:
            v.append(("sdp-usb-device-reports-not-consumed-exactly-once", {"emitted": len(sess.link.emissions), "consumed": len(consumed)}))
    segs = {m: evs for m, evs in split_ops(sess.link.events)}
    for marker, op, out, complete in records:
        evs = segs.get(marker, [])
        w = [ev[1] for ev in evs if ev[0] == "w"]
        exp = struct.pack(">HIBIIB", *sdp_expected_cmd(op), 0)
        base = {"op": op_brief(op), "transport": sess.transport}
        if uart:
            stream = b"".join(w)
            if stream[:16] != exp or stream[16:] != op.get("data", b""):
                v.append((f"sdp-uart-{op['op']}-wire-bytes-differ-from-call", dict(base, on_wire=len(stream))))
            rd = b"".join(ev[2] for ev in evs if ev[0] == "r")
            if complete and op["op"] in ("read", "read_safe") and out.exc is None and rd[4:] != out.ret:
                v.append((f"sdp-uart-{op['op']}-returned-data-differ-from-wire", base))
        else:
            if not w or w[0][0] != 1 or w[0][1:17] != exp or any(w[0][17:]) or len(w[0]) > 1025:
                v.append((f"sdp-usb-{op['op']}-command-report-malformed", dict(base, first=core.hx(w[0] if w else b"", 24))))
            pay = b"".join(r[1:] for r in w[1:])
            data = op.get("data", b"")
            if any(r[0] != 2 or len(r) > 1025 for r in w[1:]) or pay[:len(data)] != data or any(pay[len(data):]) or len(pay) - len(data) >= 1024:
                v.append((f"sdp-usb-{op['op']}-data-reports-differ-from-call", dict(base, reports=[len(r) for r in w[1:]][:6])))
    return v


def run_sdp_history(ctx, cfg, ops, plans=None, family="hist", judge_all=True):
    sess = SdpSession(cfg, plans=plans)
    records, outs = [], []
    for i, op in enumerate(ops):
        peek = None
        if op["op"] in ("read", "read_safe"):
            try:
                peek = sess.core.peek(op["addr"], op["len"])
            except KeyError:
                peek = None
        j0 = len(sess.core.journal)
        sess.link.mark(i)
        out = sess.run(op)
        cls, viol = judge_sdp(sess, op, out, j0, peek)
        outs.append(out)
        records.append((i, op, out, cls == "ok"))
        ctx.count("sdp_ops_judged")
        for mech, det in viol:
            ctx.violation(mech, dict(det, family=family, op_index=i, plans=plans))
        if not viol and judge_all:
            ctx.ok(["sdp", cfg["transport"], family, op["op"], lclass(op_len(op), 64 if op["op"].startswith("read") else 1024), cfg["hab_closed"],
                    cfg["cmd_exception"], cls], sample={"cfg": cfg, "op": op_brief(op), "observed": out.brief()})
        if out.exc is not None:
            break  # a refused read leaves the session in an undefined state
    for mech, det in check_sdp_transcript(sess, records):
        ctx.violation(mech, dict(det, family=family, cfg=cfg))
    ctx.count("transcript_ops_checked", len(records))
    return sess, outs


def make_sdp_cfg(rng, transport):
    return {"transport": transport, "hab_closed": rng.random() < 0.4, "cmd_exception": rng.random() < 0.5, "dev_seed": rng.getrandbits(32),
            "exact_last": transport == "usb" and rng.random() < 0.4}


def run_sdp_status_case(ctx, cfg, ops, rng):
    """The ROM answers with other status words than the success marker."""
    sess0, outs0 = run_sdp_history(ctx, cfg, ops, family="status-baseline", judge_all=False)
    for e in sess0.core.journal:
        if e["status"] is None:
            continue
        for word in (SD.ACCESS_DENIED, 0x33180AF0, rng.getrandbits(32), 0):
            run_sdp_history(ctx, cfg, ops[: len(sess0.core.journal)], plans={"status_plan": {e["i"]: word}}, family="status")


def sdp_fault_key(tr, op, f: Fault, out: Outcome, what: str) -> str:
    em = f.info["emission"] if f.info else "?"
    if what == "exception" and type(out.exc).__name__ == "error" and len(f.info["new"]) - (tr == "usb") < 4:
        return "sdp-short-response-struct-error"
    if what == "exception":
        return f"sdp-{tr}-{f.kind}-{em}-undocumented-{type(out.exc).__name__}"
    if what == "bound":
        return f"sdp-{tr}-{f.kind}-{em}-read-bound-exceeded"
    if tr == "usb" and f.kind == "trunc" and em == "data":
        return "sdp-usb-truncated-data-report-spliced"
    return f"sdp-{tr}-{f.kind}-{em}-{op['op']}-success-with-wrong-result"


def run_sdp_fault_case(ctx, cfg, ops, rng, budget, cands=None):
    tr = cfg["transport"]
    sess0, outs0 = run_sdp_history(ctx, cfg, ops, family="fault-baseline", judge_all=False)
    if len(outs0) != len(ops):
        ops = ops[: len(outs0)]
    L = sess0.link.d2h_len()
    bound = 10 * L + 1000
    if cands is None:
        cands = []
        if tr == "uart":
            for start, kind, raw in sess0.link.emissions:
                offs = range(len(raw)) if len(raw) <= 8 else sorted({0, 1, 2, 3, len(raw) // 2, len(raw) - 2, len(raw) - 1, rng.randrange(len(raw)), rng.randrange(len(raw))})
                for off in offs:
                    cands.append(("drop", start + off, 0))
                    if off:
                        cands.append(("trunc", start + off, 0))
                cands.append(("missing", start, 0))
        else:
            for idx, kind, raw in sess0.link.emissions:
                for cpos in sorted({0, 1, 2, 3, 4, 5, len(raw) // 2, len(raw) - 4, len(raw) - 1} & set(range(len(raw)))):
                    if kind == "data" and not cfg.get("exact_last") and cpos > 0:
                        continue  # a padded 64-byte data report carries no length: a cut is not detectable by protocol
                    cands.append(("trunc", idx, cpos))
                cands.append(("missing", idx, 0))
        if len(cands) > budget:
            cands = rng.sample(cands, budget)
    stats = {"surfaced": 0, "absorbed": 0}
    for kind, pos, arg in cands:
        f = Fault(kind, pos, arg)
        sess = SdpSession(cfg, fault=f, max_reads=bound)
        ctx.count("sdp_fault_runs")
        detail = {"cfg": cfg, "fault": {"kind": kind, "pos": pos, "arg": arg}, "stream_len": L}
        for i, op in enumerate(ops):
            j0 = len(sess.core.journal)
            try:
                out = sess.run(op)
            except ReadBudget:
                ctx.violation(sdp_fault_key(tr, op, f, Outcome(), "bound"), dict(detail, op=op_brief(op), bound=bound))
                break
            if not f.done:
                if not _same_outcome(out, outs0[i]):
                    raise core.Inconclusive(f"sdp run before the fault differs from the recording at op {i}")
                continue
            detail["fault"].update(emission=f.info["emission"], offset=f.info["offset"], orig=f.info["orig"], new=f.info["new"])
            detail.update(op=op_brief(op), observed=out.brief(), fault_free=outs0[i].brief(), op_index=i)
            sig = ["sdp", tr, "fault", kind, f.info["emission"], op["op"], cfg["cmd_exception"]]
            if out.exc is not None and not documented(out.exc):
                ctx.violation(sdp_fault_key(tr, op, f, out, "exception"), detail)
            elif out.exc is None and out.ret is not None and out.ret is not False:
                cls, viol = judge_sdp(sess, op, out, j0, None)
                viol = [x for x in viol if x[0] != "sdp-senddata-hab-status-replaced"]
                if viol or not (out.ret == outs0[i].ret):
                    ctx.violation(sdp_fault_key(tr, op, f, out, "success"), dict(detail, why=[m for m, _ in viol][:3]))
                else:
                    stats["absorbed"] += 1
                    ctx.ok(sig + ["absorbed"])
            else:
                stats["surfaced"] += 1
                ctx.ok(sig + ["surfaced", type(out.exc).__name__ if out.exc else "status"])
            break
    for k2, n in stats.items():
        ctx.count("sdp_fault_" + k2, n)


# =============================================================================================
# SDPS
# =============================================================================================
def run_sdps_case(ctx, family, rng):
    import spsdk.sdp.protocol.bulk_protocol as bp
    from spsdk.sdp.interfaces.usb import SdpUSBInterface
    from spsdk.sdp.sdps import SDPS
    from spsdk.utils.database import DatabaseManager

    params = DatabaseManager().db.devices.get(family).info.isp.rom.protocol_params
    no_cmd, pack = params.get("no_cmd", True), params.get("hid_pack_size", 1020)
    rom = SD.SDPS_ROM_TABLE.get(family)
    if rom is not None:
        ctx.count("sdps_rom_table_compared")
        if (pack, not no_cmd) != rom:
            ctx.violation("sdps-family-parameters-differ-from-the-rom-table",
                          {"family": family, "database": {"hid_pack_size": pack, "command_block_first": not no_cmd},
                           "rom_table": {"hid_pack_size": rom[0], "command_block_first": rom[1]}})
    sizes = [0, 1, pack - 1, pack, pack + 1, 2 * pack, 3 * pack + 7, rng.randrange(0, 20000), core.pick(rng, [65536, 65535, rng.randrange(20000, 65537)])]
    for n in sizes:
        bp.HID_REPORT.clear()
        bp.HID_REPORT.update(_PRISTINE_HID_REPORT)
        dev = SD.SdpsHid(no_cmd=no_cmd, pack_size=pack)
        link = Link(dev, stream=False)
        s = SDPS(SdpUSBInterface(_usb_device(link)), family)
        data = core.rand_bytes(rng, n)
        s.open()
        s.write_file(data)
        s.close()
        ctx.count("sdps_files")
        det = {"family": family, "no_cmd": no_cmd, "pack_size": pack, "length": n, "reports": dev.reports[:4], "anomalies": dev.anomalies[:4]}
        rec = bytes(dev.received)
        bad = None
        if dev.anomalies:
            bad = "sdps-report-anomaly"
        elif not no_cmd and (dev.cbw is None or dev.cbw["signature"] != 0x43544C42 or dev.cbw["length"] != n or dev.cbw["cdb_length"] != n or dev.cbw["command"] != 2):
            bad = "sdps-command-block-wrong"
        elif rec[:n] != data or any(rec[n:]) or len(rec) - n >= pack:
            bad = "sdps-image-not-delivered-intact"
        elif link.reads:
            bad = "sdps-unexpected-read"
        if bad:
            ctx.violation(bad, det)
        else:
            ctx.ok(["sdps", family, no_cmd, lclass(n, pack)], sample=det)
    bp.HID_REPORT.clear()
    bp.HID_REPORT.update(_PRISTINE_HID_REPORT)


def run_sdps_family_switch(ctx, families, rng):
    """ONE SDPS object serves several boards in turn (``sdps.family = ...`` is a public setter): every file is framed with
    the protocol parameters of the family that is set NOW (command block or not, report size)."""
    import spsdk.sdp.protocol.bulk_protocol as bp
    from spsdk.sdp.interfaces.usb import SdpUSBInterface
    from spsdk.sdp.sdps import SDPS
    from spsdk.utils.database import DatabaseManager

    if len(families) < 2:
        return
    seq = [core.pick(rng, families) for _ in range(6)]
    seq[1] = next(f for f in families if f != seq[0])
    bp.HID_REPORT.clear()
    bp.HID_REPORT.update(_PRISTINE_HID_REPORT)
    link = Link(None, stream=False)
    s = None
    hist = []
    for step, family in enumerate(seq):
        params = DatabaseManager().db.devices.get(family).info.isp.rom.protocol_params
        no_cmd, pack = params.get("no_cmd", True), params.get("hid_pack_size", 1020)
        dev = SD.SdpsHid(no_cmd=no_cmd, pack_size=pack)
        link.dev = dev
        link.reads = 0
        if s is None:
            s = SDPS(SdpUSBInterface(_usb_device(link)), family)
        else:
            s.family = family
        n = core.pick(rng, [1, pack - 1, pack, pack + 1, 2 * pack + 5, rng.randrange(1, 9000)])
        data = core.rand_bytes(rng, n)
        s.open()
        s.write_file(data)
        s.close()
        ctx.count("sdps_files")
        ctx.count("sdps_family_switches")
        hist.append(family)
        det = {"families_served_by_the_object": list(hist), "family": family, "no_cmd": no_cmd, "pack_size": pack, "length": n,
               "reports": dev.reports[:4], "anomalies": dev.anomalies[:4]}
        rec = bytes(dev.received)
        bad = None
        if dev.anomalies:
            bad = "sdps-report-anomaly"
        elif not no_cmd and (dev.cbw is None or dev.cbw["signature"] != 0x43544C42 or dev.cbw["length"] != n or dev.cbw["command"] != 2):
            bad = "sdps-command-block-wrong"
        elif rec[:n] != data or any(rec[n:]) or len(rec) - n >= pack:
            bad = "sdps-image-not-delivered-intact"
        if bad:
            ctx.violation(bad + "-after-family-switch" if step else bad, det)
            break
    else:
        ctx.ok(["sdps", "family-switch", len(set(seq))], sample={"families": seq})
    bp.HID_REPORT.clear()
    bp.HID_REPORT.update(_PRISTINE_HID_REPORT)


# =============================================================================================
# framework entry points
# =============================================================================================
def selftest(ctx):
    return {"mboot_dev": MD.selftest(), "sdp_dev": SD.selftest()}


SDPS_FAMILIES_FALLBACK = ["mimx8x", "mimx9352", "mimx28"]


def cases(tier, seed):
    th = tier == "thorough"
    yield {"kind": "directed_mboot"}
    for tr in ("uart", "usb"):
        for k in range(40 if th else 8):
            yield {"kind": "mboot_memory_list", "transport": tr, "k": k}
    yield {"kind": "directed_sdp"}
    yield {"kind": "property_reports"}
    for tr in ("uart", "usb"):
        for k in range(5000 if th else 500):
            yield {"kind": "mboot_hist", "transport": tr, "k": k}
        for k in range(120 if th else 8):
            yield {"kind": "mboot_big", "transport": tr, "k": k}
        for k in range(600 if th else 40):
            yield {"kind": "mboot_status", "transport": tr, "k": k, "budget": 60 if th else 40}
        for k in range(1000 if th else 90):
            yield {"kind": "mboot_fault", "transport": tr, "k": k, "budget": 250 if th else 160}
        for k in range(16 if th else 1):
            yield {"kind": "mboot_fault_exhaustive", "transport": tr, "k": k}
        for k in range(3000 if th else 300):
            yield {"kind": "sdp_hist", "transport": tr, "k": k}
        for k in range(200 if th else 16):
            yield {"kind": "sdp_status", "transport": tr, "k": k}
        for k in range(900 if th else 80):
            yield {"kind": "sdp_fault", "transport": tr, "k": k, "budget": 150 if th else 80}
    for k in range(4 if th else 1):
        yield {"kind": "sdps", "k": k}


def _directed_mboot(ctx):
    ram = MD.MbootCore.RAM_BASE
    for tr in ("usb", "uart"):
        for exc in (False, True):
            # a device without the max-packet-size property: the very first data phase of a fresh McuBoot object
            cfg = {"transport": tr, "mps": 32, "cmd_exception": exc, "dev_seed": 9, "pad": "zeros", "ping_dummy": "", "has_mps_prop": False}
            for first in ("load_image", "write"):
                op = {"op": first, "data": bytes(range(200)) + bytes(100)}
                if first == "write":
                    op.update({"addr": ram + 0x40, "mem": 0})
                run_mboot_history(ctx, cfg, [op, dict(op)], family="directed-no-packet-size-property")
            cfg = {"transport": tr, "mps": 32, "cmd_exception": exc, "dev_seed": 7, "pad": "zeros", "ping_dummy": "", "has_mps_prop": True}
            ops = [{"op": "read", "addr": ram + 0x100, "len": 70, "mem": 0}]
            # the device delivers 6 bytes fewer than its ReadMemory response announced and closes with SUCCESS
            idx = 1 if tr == "usb" else 0
            run_mboot_history(ctx, cfg, ops, plans={"short_plan": {idx: 6}}, family="directed-short-data")
            run_mboot_history(ctx, cfg, ops, plans={"short_plan": {idx + (2 if tr == "usb" else 0): 3}}, family="directed-short-data-last-packet")
            run_mboot_history(ctx, cfg, ops, plans={"error_plan": {idx: ("final", 10200)}}, family="directed-final-error")
            ctx.count("mboot_status_mirror", 3)
            if tr == "usb":
                def cands(ems):
                    d = next(e for e in ems if e[1] == "data")
                    c = next(e for e in ems if e[1] == "cmd")
                    plen = struct.unpack_from("<H", d[2], 2)[0]
                    c2 = [e for e in ems if e[1] == "cmd"][1]  # the ReadMemory response (the first one answers the size query)
                    return [("trunc", d[0], 4 + plen - 2), ("trunc", c[0], 3), ("trunc", c[0], 10), ("missing", d[0], 0), ("abort", d[0], 0),
                            ("missing", c2[0], 0), ("trunc", c2[0], 9)]
                run_mboot_fault_case(ctx, cfg, ops, ctx.rng, 100, cands_fn=cands)

                # known finding: the data report of a one-packet read is cut, the host gives the command up and leaves its
                # final response unread; the next call takes it (refused since the repair: it names another command), the
                # call after that takes the answer of ITS predecessor - the same command, so a refused fill reports success
                def cands2(ems):
                    return [("trunc", next(e for e in ems if e[1] == "data")[0], 2)]
                ops2 = [{"op": "read", "addr": ram + 0x100, "len": 20, "mem": 0},
                        {"op": "fill", "addr": ram + 0x200, "len": 16, "pattern": 0x11223344},
                        {"op": "fill", "addr": 0x1000_0000, "len": 16, "pattern": 0x55667788}]
                run_mboot_fault_case(ctx, cfg, ops2, ctx.rng, 10, cands_fn=cands2)
                # repaired: the unread final response of the read was taken for the answer to ANOTHER command - a refused
                # set_property reported success, a fuse read died with AssertionError
                for later in ({"op": "set_property", "tag": 0x77, "value": 5}, {"op": "efuse_read_once", "index": 3},
                              {"op": "write", "addr": ram + 0x300, "data": bytes(range(40)), "mem": 0}):
                    run_mboot_fault_case(ctx, cfg, [ops2[0], later], ctx.rng, 10, cands_fn=cands2)
            else:
                def cands(ems):
                    d = next(e for e in ems if e[1] == "data")
                    return [("trunc", d[0] + len(d[2]) - 2, 0), ("crc", d[0], 7), ("flip", d[0] + 9, 3), ("drop", d[0] + 9, 0), ("missing", d[0], 0)]
                run_mboot_fault_case(ctx, cfg, ops, ctx.rng, 100, cands_fn=cands)


def _directed_sdp(ctx):
    ram = SD.SdpCore.RAM_BASE
    for tr in ("uart", "usb"):
        for exc in (False, True):
            # known finding: data-phase commands on a closed device
            cfg = {"transport": tr, "hab_closed": True, "cmd_exception": exc, "dev_seed": 11, "exact_last": False}
            ops = [{"op": "write_file", "addr": ram + 0x40, "data": bytes(range(200))}, {"op": "read", "addr": ram + 0x40, "len": 200, "fmt": 32},
                   {"op": "write_dcd", "addr": ram + 0x400, "data": bytes(60)}, {"op": "write_csf", "addr": ram + 0x800, "data": bytes(33)}]
            run_sdp_history(ctx, cfg, ops, family="directed-closed")
            # a response shorter than four bytes
            cfg = dict(cfg, hab_closed=False)
            ops = [{"op": "jump", "addr": ram + 0x40}]
            cands = [("trunc", 3, 0), ("trunc", 1, 0), ("drop", 0, 0)] if tr == "uart" else [("trunc", 0, 3), ("trunc", 0, 1), ("trunc", 0, 4)]
            run_sdp_fault_case(ctx, cfg, ops, ctx.rng, 100, cands=cands)


def _property_report_case(ctx, rng):
    """What a property value is reported as (name, text) depends on the words the device sent, the tag and the family given -
    not on which families this process decoded for before.  Every (family class, tag, words) is decoded, then decoded again
    after the others had their turn; the two reports must be the same."""
    from spsdk.mboot.properties import parse_property_value
    from spsdk.utils.database import DatabaseManager, get_db, get_families

    fams: dict = {None: None}
    for f in get_families(DatabaseManager.BLHOST):
        try:
            series = get_db(f).get_str(DatabaseManager.BLHOST, "overridden_properties", "")
        except Exception:  # pylint: disable=broad-except
            series = ""
        fams.setdefault(series or "-", f)
    order = list(fams.values())
    probes = []
    for tag in range(0x01, 0x20):
        for words in ([0], [1], [2], [1024], [0x4B030000], [rng.getrandbits(32)], [rng.getrandbits(32), rng.getrandbits(32)]):
            probes.append((tag, words))

    def report(tag, words, fam):
        v = parse_property_value(tag, list(words), family=fam)
        return None if v is None else (type(v).__name__, getattr(v, "name", None), v.to_str())

    first = {}
    for rnd in range(3):
        rng.shuffle(order)
        for fam in order:
            for tag, words in probes:
                try:
                    r = report(tag, words, fam)
                except Exception as e:  # pylint: disable=broad-except
                    r = ("raised", type(e).__name__, "")
                key = (fam, tag, tuple(words))
                ctx.count("property_reports")
                if key not in first:
                    first[key] = r
                elif first[key] != r:
                    ctx.violation("mboot-property-report-depends-on-families-decoded-before",
                                  {"family": fam, "tag": tag, "words": words, "first_report": first[key], "later_report": r, "round": rnd})
                    return
    ctx.ok(["mboot", "property-reports", len(order)], n=len(first), sample={"families": [str(f) for f in order], "probes": len(probes)})


def _memory_list_case(ctx, case):
    """get_memory_list() on a device with several internal flash / RAM regions: every region must be reported with ITS
    start, size and sector size (each is a GetProperty with the region index), in the device's order."""
    rng = ctx.rng
    cfg = make_mboot_cfg(rng, case["transport"], small=True)
    nf, nr = rng.randrange(1, 5), rng.randrange(1, 4)
    fl, a = [], 0x0800_0000 * rng.randrange(0, 3)
    for _ in range(nf):
        sec = core.pick(rng, [0x100, 0x200, 0x800, 0x1000, 0x2000, 0x8000])
        size = sec * rng.randrange(1, 64)
        fl.append((a, size, sec))
        a += size + sec * rng.randrange(0, 4)
    rm, a = [], 0x2000_0000
    for _ in range(nr):
        size = 0x400 * rng.randrange(1, 200)
        rm.append((a, size))
        a += size + 0x1000 * rng.randrange(0, 3)
    regions = {MD.P_FLASH_START: [[x[0]] for x in fl], MD.P_FLASH_SIZE: [[x[1]] for x in fl], MD.P_FLASH_SECTOR_SIZE: [[x[2]] for x in fl],
               MD.P_RAM_START: [[x[0]] for x in rm], MD.P_RAM_SIZE: [[x[1]] for x in rm]}
    sess = MbootSession(cfg, plans={"prop_regions": regions})
    detail = {"cfg": cfg, "flash_regions": [[hex(v) for v in x] for x in fl], "ram_regions": [[hex(v) for v in x] for x in rm]}
    if sess.open_exc is not None:
        raise core.Inconclusive(f"open failed on a fault-free link: {core.exc_brief(sess.open_exc)}")
    out = sess.run({"op": "get_memory_list"})
    ctx.count("memory_lists")
    if out.exc is not None:
        if not documented(out.exc):
            raise out.exc
        ctx.violation("mboot-get_memory_list-fails-on-fault-free-link", dict(detail, exception=core.exc_brief(out.exc)))
        return
    got_f = [(r.index, r.start, r.end - r.start + 1, r.sector_size) for r in out.ret.get("internal_flash", [])]
    got_r = [(r.index, r.start, r.end - r.start + 1) for r in out.ret.get("internal_ram", [])]
    want_f = [(i, *x) for i, x in enumerate(fl)]
    want_r = [(i, *x) for i, x in enumerate(rm)]
    if got_f != want_f:
        ctx.violation("mboot-get_memory_list-flash-regions-not-as-the-device-reports", dict(detail, got=[[hex(v) for v in x] for x in got_f]))
    elif got_r != want_r:
        ctx.violation("mboot-get_memory_list-ram-regions-not-as-the-device-reports", dict(detail, got=[[hex(v) for v in x] for x in got_r]))
    else:
        ctx.ok(["mboot", case["transport"], "get_memory_list", nf, nr, cfg["cmd_exception"]], sample=detail)


def run_case(case, ctx):  # noqa: C901
    rng = ctx.rng
    kind = case["kind"]
    if kind == "directed_mboot":
        return _directed_mboot(ctx)
    if kind == "mboot_memory_list":
        return _memory_list_case(ctx, case)
    if kind == "directed_sdp":
        return _directed_sdp(ctx)
    if kind in ("mboot_hist", "mboot_big"):
        cfg = make_mboot_cfg(rng, case["transport"])
        n = rng.randrange(1, 9) if kind == "mboot_hist" else rng.randrange(1, 3)
        ops = []
        for _ in range(n):
            if kind == "mboot_big":
                ops.append(gen_mboot_op(rng, core.pick(rng, ["write", "read", "sb", "load_image"]), cfg["mps"], big=True))
            else:
                ops.append(gen_mboot_op(rng, rng.choice(_OPS_FLAT), cfg["mps"]))
        if kind == "mboot_big" and ops[0]["op"] == "write":
            ops.append({"op": "read", "addr": ops[0]["addr"], "len": len(ops[0]["data"]), "mem": ops[0]["mem"]})
        run_mboot_history(ctx, cfg, ops, family="hist" if kind == "mboot_hist" else "big")
        return None
    if kind == "mboot_status":
        cfg = make_mboot_cfg(rng, case["transport"], small=True)
        ops = [gen_mboot_op(rng, rng.choice(FAULT_OPS), cfg["mps"], small=True) for _ in range(rng.randrange(1, 4))]
        run_mboot_status_case(ctx, cfg, ops, rng, case["budget"])
        return None
    if kind in ("mboot_fault", "mboot_fault_exhaustive"):
        cfg = make_mboot_cfg(rng, case["transport"], small=True)
        ex = kind.endswith("exhaustive")
        kinds = [k for k in FAULT_OPS if k != "kp_read_key_store"] if ex else FAULT_OPS
        ops = [gen_mboot_op(rng, rng.choice(kinds), cfg["mps"], small=True, mem_choices=(0,)) for _ in range(1 if ex else rng.randrange(1, 4))]
        if not ex and rng.random() < 0.4:
            # probe tail: calls the device refuses.  Whatever the fault left behind on the host side (a response nobody
            # read, a half-consumed data phase), none of them may come back as a success.
            ops += [_refused_op(rng) for _ in range(rng.randrange(2, 6))]
        run_mboot_fault_case(ctx, cfg, ops, rng, 2500 if ex else case["budget"])
        return None
    if kind == "sdp_hist":
        cfg = make_sdp_cfg(rng, case["transport"])
        ops = [gen_sdp_op(rng, rng.choice(SDP_OPS), uart=case["transport"] == "uart") for _ in range(rng.randrange(1, 9))]
        run_sdp_history(ctx, cfg, ops)
        return None
    if kind == "sdp_status":
        cfg = make_sdp_cfg(rng, case["transport"])
        ops = [gen_sdp_op(rng, core.pick(rng, ["write", "write_file", "write_dcd", "write_csf", "skip_dcd", "read_status", "write_safe"]), small=True, uart=case["transport"] == "uart") for _ in range(rng.randrange(1, 4))]
        run_sdp_status_case(ctx, cfg, ops, rng)
        return None
    if kind == "sdp_fault":
        cfg = make_sdp_cfg(rng, case["transport"])
        ops = [gen_sdp_op(rng, rng.choice(SDP_OPS), small=True, uart=case["transport"] == "uart") for _ in range(rng.randrange(1, 4))]
        run_sdp_fault_case(ctx, cfg, ops, rng, case["budget"])
        return None
    if kind == "property_reports":
        _property_report_case(ctx, rng)
        return None
    if kind == "sdps":
        from spsdk.sdp.sdps import SDPS

        fams = SDPS.get_supported_families() or SDPS_FAMILIES_FALLBACK
        for fam in fams:
            run_sdps_case(ctx, fam, rng)
        for _ in range(3):
            run_sdps_family_switch(ctx, fams, rng)
        return None
    raise core.Inconclusive(f"unknown case kind {kind}")
