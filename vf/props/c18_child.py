"""C18 child interpreter (launched by vf/props/c18.py, never imported by it).

One process = one "SPSDK process" of the property: it is started with ``SPSDK_CACHE_FOLDER`` pointing
at a prepared folder, optionally instruments itself *from the outside* (``sys.addaudithook``: event
log, seeded stall scheduler, hold / rendezvous points, kill failpoint), does first use of the
database through the real public API and writes what it observed to a result file.

    python c18_child.py <config.json>

config keys (all optional except ``mode`` and ``out``):
    mode      "digest"   : run the query set, write {"digest", "parts", ...}
              "prefixes" : in-process loop over prefix lengths of one cache file (see run_prefixes)
              "clear"    : call DatabaseManager.clear_cache() ``rounds`` times (the concurrent clearer)
              "cli"      : run ``nxpimage`` entry points in-process through their real main()
    out       result file (written with a rename, so a killed child leaves none)
    idx       index of this child in a schedule
    log       shared append-only event log (one os.write per line -> global order)
    barrier   directory used as a start barrier (ready.<idx> / go) and for done.<idx> markers
    sched     {"kind": "none" | "random" | "hold" | "rendezvous", ...}   stall scheduler
    kill_at   k: SIGKILL ourselves right before the k-th audited cache-folder event (1-based)
    queries   "full" | "light"

Exit status: 0 normal; 1 an exception escaped the SPSDK calls (traceback on stderr, summary in
``<out>.err``); 97 harness problem (wrong spsdk imported etc.).
"""
from __future__ import annotations

import hashlib
import json
import os
import random
import signal
import sys
import time
import traceback

CFG: dict = {}
CACHE = ""
_LOG_FD = -1
_IDX = 0
_IN_HOOK = False
_NEV = 0
_RNG: random.Random | None = None
_LOCKED = False  # between a flock(LOCK_EX) attempt and flock(LOCK_UN): maybe inside the critical section
_T_ARMED = False
OPENS: dict = {}

WATCHED = {"open", "os.remove", "os.mkdir", "os.listdir", "os.scandir", "os.rmdir", "os.rename", "shutil.rmtree",
           "fcntl.flock"}


# --------------------------------------------------------------------------------------------
# audit hook: event log + stall scheduler + kill failpoint
def _fd_path(fd) -> str:
    try:
        return os.readlink(f"/proc/self/fd/{int(fd)}")
    except OSError:
        return ""


def _norm(path: str) -> str:
    """Path relative to the cache folder with the version / hash parts removed ('' = not ours)."""
    if path == CACHE:
        return "."
    if not path.startswith(CACHE + os.sep):
        return ""
    rel = path[len(CACHE) + 1:]
    if rel.endswith(" (deleted)"):
        rel = rel[: -len(" (deleted)")]
    lock = rel.endswith(".lock")
    base = rel[:-5] if lock else rel
    if base.startswith("db_quick_info_"):
        base = "Q"
    elif base.startswith("db_data_"):
        base = "D"
    return base + (".lock" if lock else "")


def _event_path(event: str, args) -> tuple[str, str]:
    """(normalised path, detail) of a watched event, ('', '') when it is not inside the cache folder."""
    detail = ""
    if event == "fcntl.flock":
        import fcntl

        p = _fd_path(args[0])
        op = args[1]
        detail = "UN" if op & fcntl.LOCK_UN else ("EX" if op & fcntl.LOCK_EX else "SH")
    else:
        p = args[0]
        if isinstance(p, int):
            p = _fd_path(p)
        else:
            try:
                p = os.fsdecode(p)
            except TypeError:
                return "", ""
            dir_fd = None
            if event in ("os.remove", "os.rmdir", "shutil.rmtree") and len(args) > 1:
                dir_fd = args[1]
            elif event == "os.mkdir" and len(args) > 2:
                dir_fd = args[2]
            if isinstance(dir_fd, int) and dir_fd >= 0 and not os.path.isabs(p):
                p = os.path.join(_fd_path(dir_fd), p)
            elif not os.path.isabs(p):
                p = os.path.abspath(p)
        if event == "open":
            mode = args[1] if len(args) > 1 else None
            flags = args[2] if len(args) > 2 and isinstance(args[2], int) else 0
            wr = bool(flags & (os.O_WRONLY | os.O_RDWR)) or (isinstance(mode, str) and any(c in mode for c in "wax+"))
            detail = "w" if wr else "r"
    return _norm(p), detail


def _log(line: str) -> None:
    if _LOG_FD >= 0:
        os.write(_LOG_FD, (line + "\n").encode())


def _others_done(n: int) -> bool:
    bdir = CFG["barrier"]
    for j in range(n):
        if j != _IDX and not os.path.exists(os.path.join(bdir, f"done.{j}")):
            return False
    return True


def _hook(event: str, args) -> None:  # noqa: C901
    global _IN_HOOK, _NEV, _LOCKED
    if event not in WATCHED or _IN_HOOK or not _T_ARMED:
        return
    _IN_HOOK = True
    try:
        try:
            rel, detail = _event_path(event, args)
        except Exception as e:  # pylint: disable=broad-except
            _log(f"{_IDX} {os.getpid()} {_NEV} HOOK-ERROR:{type(e).__name__} -")
            return
        if not rel:
            return
        # in_cs: this process may hold a cache lock while the event executes.  The hook runs BEFORE
        # the operation: at flock(EX) nothing is held yet, at flock(UN) the lock is still held.
        if event == "open" and rel.endswith(".lock"):
            _LOCKED = False  # a new acquire attempt: the previous one failed (or nothing is held)
        in_cs = _LOCKED
        if event == "fcntl.flock":
            _LOCKED = detail != "UN"
        _NEV += 1
        if event == "open" and rel in ("Q", "D"):  # lock discipline: observed, not judged
            key = ("w" if detail == "w" else "r") + ("_locked" if in_cs else "_unlocked")
            OPENS[key] = OPENS.get(key, 0) + 1
        kill_at = CFG.get("kill_at")
        tag = f"{event}{':' + detail if detail else ''}"
        if kill_at is not None and _NEV == int(kill_at):
            _log(f"{_IDX} {os.getpid()} {_NEV} KILL-BEFORE:{tag} {rel}")
            os.kill(os.getpid(), signal.SIGKILL)
            time.sleep(60)
        _log(f"{_IDX} {os.getpid()} {_NEV} {tag} {rel}")
        sched = CFG.get("sched") or {}
        kind = sched.get("kind", "none")
        if kind == "random":
            assert _RNG is not None
            q = _RNG.choice(sched.get("quanta_ms", [0, 1, 5, 50]))
            if in_cs:
                # a stall inside the lock only serialises the others; keep it short so that nobody
                # can be starved past filelock's 10 s wall-clock timeout by the harness
                q = min(q, sched.get("in_lock_max_ms", 5))
            if q:
                time.sleep(q / 1000.0)
        elif kind == "hold":
            # systematic sweep: child `who` is held at its k-th event until all others finished
            if _IDX == sched["who"] and _NEV == sched["k"]:
                if in_cs:
                    # never starve the others past the lock timeout: bounded stall inside the lock
                    _log(f"{_IDX} {os.getpid()} {_NEV} HOLD-IN-LOCK {rel}")
                    time.sleep(sched.get("in_lock_ms", 250) / 1000.0)
                else:
                    _log(f"{_IDX} {os.getpid()} {_NEV} HOLD {rel}")
                    t_end = time.monotonic() + sched.get("max_s", 8.0)
                    while not _others_done(sched["n"]) and time.monotonic() < t_end:
                        time.sleep(0.002)
                    _log(f"{_IDX} {os.getpid()} {_NEV} RELEASE {rel}")
        elif kind == "stall_at":
            # child 0 runs ahead alone and stalls at its first event of class `at` - inside the locked region, with the cache
            # file about to be rewritten (hook before 'open:w') or just completed (hook before the unlock): a slow disk, a
            # suspended process.  The other children begin their first use once the stall has begun (see main), so all of
            # it falls into the stall.  2.5 s is well below filelock's 10 s: they wait for the lock and go on
            at = sched["at"]
            token = os.path.join(CFG["barrier"], "stall.token")
            if _IDX == 0:
                if tag.startswith(at[0]) and rel == at[1] and not CFG.get("_stall_done"):
                    CFG["_stall_done"] = True
                    with open(token, "w"):
                        pass
                    _log(f"{_IDX} {os.getpid()} {_NEV} STALL{'-IN-LOCK' if in_cs else ''} {rel}")
                    time.sleep(sched.get("ms", 2500) / 1000.0)
        elif kind == "rendezvous":
            # every child waits at its first event of class `at` (event, path) until all N have
            # arrived, finished, or `wait_ms` passed since its own arrival; then they go on together
            at = sched["at"]
            if tag.startswith(at[0]) and rel == at[1] and not CFG.get("_rdv_done"):
                CFG["_rdv_done"] = True
                bdir = CFG["barrier"]
                with open(os.path.join(bdir, f"rdv.{_IDX}"), "w"):
                    pass
                _log(f"{_IDX} {os.getpid()} {_NEV} RDV-WAIT {rel}")
                n = sched["n"]
                # inside a lock the others cannot arrive anyway: token wait only
                t_end = time.monotonic() + (20 if in_cs else sched.get("wait_ms", 600)) / 1000.0
                while time.monotonic() < t_end:
                    arrived = sum(
                        1 for j in range(n)
                        if os.path.exists(os.path.join(bdir, f"rdv.{j}")) or os.path.exists(os.path.join(bdir, f"done.{j}"))
                    )
                    if arrived >= n:
                        break
                    time.sleep(0.002)
                extra = sched.get("after_ms")
                if extra:
                    assert _RNG is not None
                    time.sleep(_RNG.choice(extra) / 1000.0)
                _log(f"{_IDX} {os.getpid()} {_NEV} RDV-GO {rel}")
    finally:
        _IN_HOOK = False


# --------------------------------------------------------------------------------------------
# canonical form + query digest
def canon(o, depth: int = 0, seen: frozenset = frozenset()):
    """JSON-able canonical form: dicts by sorted key, sets sorted, objects by their attributes.

    Back references (``device``, ``db``) are replaced by a name so that the form is finite."""
    if depth > 40:
        return "<deep>"
    if o is None or isinstance(o, (bool, int, float, str)):
        return o
    if isinstance(o, (bytes, bytearray)):
        return {"__bytes__": bytes(o).hex()}
    if isinstance(o, dict):
        return {"__dict__": sorted(([json.dumps(canon(k, depth + 1, seen), sort_keys=True), canon(v, depth + 1, seen)]
                                    for k, v in o.items()), key=lambda kv: kv[0])}
    if isinstance(o, (list, tuple)):
        return [canon(v, depth + 1, seen) for v in o]
    if isinstance(o, (set, frozenset)):
        return {"__set__": sorted((canon(v, depth + 1, seen) for v in o), key=lambda v: json.dumps(v, sort_keys=True))}
    if id(o) in seen:
        return f"<cycle {type(o).__name__}>"
    name = type(o).__name__
    if name in ("Database", "Device", "Devices"):
        return f"<{name} {getattr(o, 'name', '')}>"
    try:
        attrs = vars(o)
    except TypeError:
        return f"<{name} {o!s}>"
    return {"__obj__": name, "attrs": canon(dict(attrs), depth + 1, seen | {id(o)})}


def h(o) -> str:
    return hashlib.sha256(json.dumps(canon(o), sort_keys=True, separators=(",", ":")).encode()).hexdigest()[:24]


def quick_info_form(qi):
    """Canonical content of a QuickDatabase (set-derived lists are sorted: their order is unspecified)."""
    feats = {}
    for name, content in qi.features_data.features.items():
        c = dict(content)
        if "mem_types" in c:
            c["mem_types"] = sorted(c["mem_types"])
        feats[name] = c
    return {
        "devices": {name: {"features": d.features, "info": d.info} for name, d in qi.devices.devices.items()},
        "predecessors": qi.devices.predecessor_lookup,
        "features_data": feats,
    }


def sample_evenly(seq, n):
    seq = list(seq)
    if len(seq) <= n:
        return seq
    return [seq[(i * len(seq)) // n] for i in range(n)]


def _rot(seq: list, r: int) -> list:
    r = r % len(seq) if seq else 0
    return seq[r:] + seq[:r]


def query_parts(mode: str, rot: int = 0) -> dict:
    """The query set of the property: every answer comes from the public API of spsdk.utils.database.

    ``rot`` rotates the ORDER in which devices, schemas and data files are asked for (concurrent children then
    build and merge different data caches); the digest does not depend on the order."""
    import spsdk
    from spsdk.utils import database as D

    parts: dict = {}
    dm = D.DatabaseManager()  # first use
    qi = dm.quick_info
    parts["quick_info"] = h(quick_info_form(qi))
    fam = {}
    subs: dict[str, set] = {}
    for dev in qi.devices.devices.values():
        for f, sf in dev.features.items():
            for s in sf or []:
                subs.setdefault(f, set()).add(s)
    for feat in D.FeaturesEnum:
        fam[feat.label] = D.get_families(feat.label)
        for s in sorted(subs.get(feat.label, ())):
            fam[f"{feat.label}/{s}"] = D.get_families(feat.label, s)
    parts["families"] = h(fam)
    parts["n_devices"] = len(qi.devices.devices)
    all_devs = sorted(qi.devices.devices)
    n_dev = 12 if mode == "full" else 4
    devs = sample_evenly(all_devs, n_dev)
    # predecessor (old) names resolve through the quick info
    olds = sorted(qi.devices.predecessor_lookup)[:3]
    dbp = {}
    for name in _rot(devs + olds, rot):
        device = D.get_device(name)
        rec = {"latest": device.latest_rev, "info": device.info, "revs": {}}
        for rev in device.revisions.revision_names(append_latest=True):
            ft = D.get_db(name, rev)
            vals = {}
            for feature, content in ft.features.items():
                for key in content:
                    try:
                        vals[f"{feature}.{key}"] = ft.get_value(feature, key)
                    except D.SPSDKError as e:  # e.g. a null item
                        vals[f"{feature}.{key}"] = f"<{type(e).__name__}>"
            rec["revs"][rev] = {"name": ft.name, "latest": ft.is_latest, "values": vals}
        dbp[name] = rec
    parts["get_db"] = h(dbp)
    sch_dir = os.path.join(spsdk.SPSDK_DATA_FOLDER, "jsonschemas")
    sch_all = sorted(f[4:-5] for f in os.listdir(sch_dir) if f.startswith("sch_") and f.endswith(".yaml"))
    schemas = sample_evenly(sch_all, 6 if mode == "full" else 2)
    parts["schemas"] = h({s: D.get_schema_file(s) for s in _rot(schemas, rot)})
    # data files through the caching loader
    files = []
    for name in devs:
        ddir = os.path.join(spsdk.SPSDK_DATA_FOLDER, "devices", name)
        if os.path.isdir(ddir):
            cand = sorted(f for f in os.listdir(ddir) if f.endswith((".json", ".yaml")) and f != "database.yaml"
                          and os.path.getsize(os.path.join(ddir, f)) < 400_000)
            if cand:
                files.append(os.path.join(ddir, cand[0]))
    files = files[: 6 if mode == "full" else 2]
    db = D.get_whole_db()
    parts["cfg_files"] = h({os.path.relpath(f, spsdk.SPSDK_DATA_FOLDER): db.load_db_cfg_file(f) for f in _rot(files, rot)})
    dfl = {}
    for feat in D.FeaturesEnum:
        try:
            dfl[feat.label] = db.get_defaults(feat.label)
        except D.SPSDKError as e:  # a feature without defaults: documented refusal
            dfl[feat.label] = f"<{type(e).__name__}>"
    parts["defaults"] = h(dfl)
    # second read of everything that is now cached must agree with the first
    parts["schemas_again"] = h({s: D.get_schema_file(s) for s in schemas})
    return parts


def digest_of(parts: dict) -> str:
    d = dict(parts)
    d["schemas_again_equal"] = d.pop("schemas_again") == d["schemas"]
    return hashlib.sha256(json.dumps(d, sort_keys=True).encode()).hexdigest()


# --------------------------------------------------------------------------------------------
def write_out(obj: dict) -> None:
    out = CFG["out"]
    tmp = out + ".tmp"
    with open(tmp, "w", encoding="utf-8") as f:
        json.dump(obj, f)
    os.replace(tmp, out)


def barrier_wait() -> None:
    bdir = CFG.get("barrier")
    if not bdir or CFG.get("no_barrier"):
        return
    with open(os.path.join(bdir, f"ready.{_IDX}"), "w"):
        pass
    go = os.path.join(bdir, "go")
    t_end = time.monotonic() + 150
    while not os.path.exists(go):
        if time.monotonic() > t_end:
            sys.exit(97)
        time.sleep(0.0005)


def mark_done() -> None:
    bdir = CFG.get("barrier")
    if bdir:
        try:
            with open(os.path.join(bdir, f"done.{_IDX}"), "w"):
                pass
        except OSError:
            pass


def exc_summary(e: BaseException) -> dict:
    tb = traceback.extract_tb(e.__traceback__)
    root = os.path.abspath(os.environ.get("VERIF_REPO", "/repo")) + os.sep
    inner = None
    for fr in tb:
        if os.path.abspath(fr.filename).startswith(root):
            inner = fr
    where = f"{os.path.relpath(inner.filename, root)}:{inner.name}" if inner else ""
    line = inner.line if inner else ""
    return {"type": type(e).__name__, "msg": str(e)[:200], "where": where, "line": line,
            "lineno": inner.lineno if inner else None,
            "spsdk_error": _is_spsdk_error(e), "tb": "".join(traceback.format_exception(e))[-1800:]}


def _is_spsdk_error(e: BaseException) -> bool:
    try:
        from spsdk.exceptions import SPSDKError

        return isinstance(e, SPSDKError)
    except Exception:  # pragma: no cover
        return False


# --------------------------------------------------------------------------------------------
def run_prefixes() -> dict:  # noqa: C901
    """Drive the real loader functions in-process on many prefixes of one cache file.

    config: which = "Q" | "D", src = file with the complete valid cache, lengths = [..] or
    range = [lo, hi, step].  Singletons are reset for every case; the fully loaded Database (``_db``)
    is kept for the quick-info loader and ``load_configuration`` of the defaults file is memoised for
    the data-cache loader, so that the fallback costs milliseconds.  Judged per case:
      * no exception escapes the loader,
      * the object the loader returns equals the reference (the content of the complete cache /
        a complete load), i.e. nothing of a damaged file was trusted,
      * afterwards the file on disk is a valid cache again (after the next store for the data cache).
    """
    import pickle

    import spsdk
    from spsdk.utils import database as D

    which = CFG["which"]
    with open(CFG["src"], "rb") as f:
        full = f.read()
    if "lengths" in CFG:
        lengths = list(CFG["lengths"])
    else:
        lo, hi, step = CFG["range"]
        lengths = list(range(lo, hi, step))
    res = {"which": which, "n": 0, "escapes": [], "skew": [], "not_replaced": [], "outcomes": {}, "full_len": len(full)}
    data_folder = spsdk.SPSDK_DATA_FOLDER
    restricted = D.DatabaseManager.get_restricted_data()
    addons = spsdk.SPSDK_ADDONS_DATA_FOLDER

    def outcome(k):
        res["outcomes"][k] = res["outcomes"].get(k, 0) + 1

    import logging

    db_logger = logging.getLogger(D.__name__)
    if which == "Q":
        qpath = D.DatabaseManager._get_quick_info_db_path()
        # reference: a complete load in this very process (cache file absent)
        if os.path.exists(qpath):
            os.remove(qpath)
        D.DatabaseManager()
        ref_form = h(quick_info_form(D.DatabaseManager._quick_info))
        with open(qpath, "rb") as f:
            ref_bytes = f.read()
        if h(quick_info_form(pickle.loads(full))) != ref_form:
            res["skew"].append({"len": len(full), "what": "complete cache file differs from a complete load"})
        cur_hash = D.DatabaseManager._quick_info.db_hash
        ref_pickle = pickle.dumps(D.DatabaseManager._quick_info, 4)
        for ln in lengths:
            res["n"] += 1
            blob = full[:ln]
            with open(qpath, "wb") as f:
                f.write(blob)
            D.DatabaseManager._instance = None
            D.DatabaseManager._quick_info = None
            # DatabaseManager.__new__ installs one more log handler per (re)creation: with the
            # singleton reset thousands of times they would pile up (harness artefact, quadratic cost)
            del db_logger.handlers[1:]
            try:
                D.DatabaseManager()
            except BaseException as e:  # pylint: disable=broad-except
                s = exc_summary(e)
                s["len"] = ln
                res["escapes"].append(s)
                outcome("escape:" + s["type"])
                continue
            qi = D.DatabaseManager._quick_info
            # fast path: same construction path => same pickle bytes; otherwise compare canonical forms
            if pickle.dumps(qi, 4) != ref_pickle and h(quick_info_form(qi)) != ref_form:
                res["skew"].append({"len": ln, "what": "quick info returned by the loader differs from a complete load"})
            with open(qpath, "rb") as f:
                disk = f.read()
            if ln < len(full):
                if disk == blob:
                    res["not_replaced"].append({"len": ln, "what": "damaged quick-info cache still on disk"})
                    outcome("kept-damaged")
                    continue
                ok = disk == ref_bytes
                if not ok:
                    try:
                        o = pickle.loads(disk)
                        ok = isinstance(o, D.QuickDatabase) and o.db_hash == cur_hash and h(quick_info_form(o)) == ref_form
                    except Exception:  # pylint: disable=broad-except
                        ok = False
                if not ok:
                    res["not_replaced"].append({"len": ln, "what": "file on disk after the start is not a valid quick-info cache"})
                    outcome("replaced-invalid")
                else:
                    outcome("replaced")
            else:
                outcome("loaded-valid" if disk == blob else "rewritten")
        return res

    # ---- data cache ----
    dpath = D.Database.DatabaseData.get_cache_filename(data_folder)
    defaults_path = os.path.join(data_folder, "common", "database_defaults.yaml")
    real_load = D.load_configuration
    memo: dict = {}

    def memo_load(path, *a, **kw):
        if os.path.abspath(path) == os.path.abspath(defaults_path) and not a and not kw:
            if "d" not in memo:
                memo["d"] = real_load(path)
            return memo["d"]
        return real_load(path, *a, **kw)

    D.load_configuration = memo_load
    ref_defaults = h(real_load(defaults_path))
    ref_obj = pickle.loads(full)
    truth = {k: h(real_load(k)) for k in ref_obj.cfg_cache}
    for k, v in ref_obj.cfg_cache.items():
        if h(v) != truth[k]:
            res["skew"].append({"len": len(full), "what": f"complete cache entry differs from the file: {os.path.basename(k)}"})
    probe = CFG["probe_file"]  # a small data file that is not in the cache yet
    truth[os.path.abspath(probe)] = h(real_load(probe))
    for ln in lengths:
        res["n"] += 1
        blob = full[:ln]
        with open(dpath, "wb") as f:
            f.write(blob)
        try:
            db = D.Database(data_folder, restricted, addons)
        except BaseException as e:  # pylint: disable=broad-except
            s = exc_summary(e)
            s["len"] = ln
            res["escapes"].append(s)
            outcome("escape:" + s["type"])
            continue
        data = db._data
        bad = [os.path.basename(k) for k, v in data.cfg_cache.items() if truth.get(k) != h(v)]
        if h(data.defaults) != ref_defaults or bad:
            res["skew"].append({"len": ln, "what": "loader trusted content that differs from the data files", "entries": bad[:5]})
        if ln < len(full):
            if data.cfg_cache:
                res["skew"].append({"len": ln, "what": "entries taken over from a truncated cache", "n": len(data.cfg_cache)})
            if os.path.exists(dpath):
                with open(dpath, "rb") as f:
                    if f.read() == blob:
                        res["not_replaced"].append({"len": ln, "what": "damaged data cache still on disk after the loader"})
        # next store: the cache must become valid
        try:
            got = db.load_db_cfg_file(probe)
        except BaseException as e:  # pylint: disable=broad-except
            s = exc_summary(e)
            s["len"] = ln
            s["stage"] = "load_db_cfg_file"
            res["escapes"].append(s)
            outcome("escape:" + s["type"])
            continue
        if h(got) != truth[os.path.abspath(probe)]:
            res["skew"].append({"len": ln, "what": "load_db_cfg_file answer differs from the file"})
        ok = False
        try:
            with open(dpath, "rb") as f:
                o = pickle.load(f)
            want = D.Database.DatabaseData.hash_db_data(list(o.cfg_cache.keys()), data_folder, restricted, addons)
            ok = (isinstance(o, D.Database.DatabaseData) and o.db_hash == want and os.path.abspath(probe) in o.cfg_cache
                  and all(truth.get(k) == h(v) for k, v in o.cfg_cache.items()) and h(o.defaults) == ref_defaults)
        except Exception:  # pylint: disable=broad-except
            ok = False
        if not ok:
            res["not_replaced"].append({"len": ln, "what": "no valid data cache on disk after the next store"})
            outcome("replaced-invalid")
        else:
            outcome("loaded-valid" if ln == len(full) else "replaced")
    if h(memo.get("d")) != ref_defaults:
        res["skew"].append({"len": -1, "what": "harness: memoised defaults were mutated"})
    return res


def run_midlife() -> dict:
    """A process that is ALREADY running when the cache gets damaged (another writer killed in the middle of a write).

    Phase 1: start on the prepared folder and use the database.  Then the cache file(s) on disk are put into the
    damaged state named by CFG["damage"] (what a killed concurrent writer leaves).  Phase 2: the same process asks for
    data files it has not loaded yet (each one makes it re-read and merge the on-disk cache) and then for the whole
    query set.  Nothing may escape and every answer must be the reference answer."""
    import pickle

    import spsdk
    from spsdk.utils import database as D

    D.DatabaseManager()
    db = D.get_whole_db()
    first = list(CFG.get("first_files") or [])
    for xf in first:
        db.load_db_cfg_file(xf)
    dmg = CFG.get("damage") or {}
    done = {}
    for name in sorted(os.listdir(CACHE)):
        if name.endswith(".lock") or not name.startswith(("db_quick_info_", "db_data_")):
            continue
        which = "Q" if name.startswith("db_quick_info_") else "D"
        how = dmg.get(which)
        if how is None:
            continue
        path = os.path.join(CACHE, name)
        with open(path, "rb") as f:
            blob = f.read()
        if how == "removed":
            os.remove(path)
        elif how == "wrongtype":
            with open(path, "wb") as f:
                pickle.dump({"not": "a database"}, f)
        elif how == "garbage":
            with open(path, "wb") as f:
                f.write(bytes((i * 37 + 11) & 0xFF for i in range(max(16, len(blob) // 3))))
        else:
            with open(path, "wb") as f:
                f.write(blob[: int(how)])
        done[which] = [how, len(blob)]
    extra = {}
    for xf in CFG.get("extra_files") or []:
        extra[os.path.relpath(xf, spsdk.SPSDK_DATA_FOLDER)] = h(db.load_db_cfg_file(xf))
    if CFG.get("queries") == "none":  # a short-lived process that only needed these data files
        return {"digest": None, "parts": {}, "extra": extra, "damaged": done, "events": _NEV, "pid": os.getpid(), "opens": OPENS}
    parts = query_parts(CFG.get("queries", "full"), int(CFG.get("rot", 0)))
    return {"digest": digest_of(parts), "parts": parts, "extra": extra, "damaged": done, "events": _NEV, "pid": os.getpid(),
            "opens": OPENS}


def run_cli() -> dict:
    """Real entry points through click's own runner (exit code, output digest)."""
    from click.testing import CliRunner

    from spsdk.apps import nxpimage

    out = {}
    runner = CliRunner()
    for name, args in CFG["commands"]:
        r = runner.invoke(nxpimage.main, args, catch_exceptions=True)
        rec = {"exit": r.exit_code, "out": hashlib.sha256(r.output.encode()).hexdigest()[:24]}
        if r.exception is not None and not isinstance(r.exception, SystemExit):
            rec["exc"] = exc_summary(r.exception)
        out[name] = rec
    tdir = CFG.get("tree")
    if tdir and os.path.isdir(tdir):
        hh = hashlib.sha256()
        for dp, dn, fn in sorted(os.walk(tdir)):
            dn.sort()
            for f in sorted(fn):
                hh.update(os.path.relpath(os.path.join(dp, f), tdir).encode())
                with open(os.path.join(dp, f), "rb") as fh:
                    hh.update(hashlib.sha256(fh.read()).digest())
        out["_tree"] = hh.hexdigest()[:24]
    return out


def main() -> int:
    global CFG, CACHE, _LOG_FD, _IDX, _RNG, _T_ARMED
    with open(sys.argv[1], encoding="utf-8") as f:
        CFG = json.load(f)
    CACHE = os.path.abspath(os.environ["SPSDK_CACHE_FOLDER"])
    _IDX = int(CFG.get("idx", 0))
    sched = CFG.get("sched") or {}
    _RNG = random.Random(f"{sched.get('seed', 0)}/{_IDX}")
    if CFG.get("log"):
        _LOG_FD = os.open(CFG["log"], os.O_WRONLY | os.O_APPEND | os.O_CREAT, 0o644)
    early = bool(CFG.get("early"))
    if early:
        # the start itself is part of the schedule: hooks on and the children released together BEFORE the package is
        # imported, so whatever 'import spsdk' does to the cache folder happens in N processes at once
        sys.addaudithook(_hook)
        barrier_wait()
        _T_ARMED = True
    try:
        import spsdk

        root = os.path.abspath(os.environ.get("VERIF_REPO", "/repo"))
        if not os.path.abspath(spsdk.__file__).startswith(root + os.sep):
            print(f"spsdk imported from {spsdk.__file__}, not {root}", file=sys.stderr)
            return 97
        if os.environ.get("SPSDK_CACHE_DISABLED"):
            print("SPSDK_CACHE_DISABLED must not be set", file=sys.stderr)
            return 97
        # everything that does not touch the cache is imported before the barrier, so that the
        # children really start their first use together
        from spsdk.utils import database as D  # noqa: F401
        import fcntl  # noqa: F401
    except Exception as e:  # pylint: disable=broad-except
        traceback.print_exc()
        if not early:
            return 97
        # in an early start the import belongs to what is judged: this is a process that did not start
        _T_ARMED = False
        s = exc_summary(e)
        _log(f"{_IDX} {os.getpid()} {_NEV} DIED:{s['type']} -")
        mark_done()
        try:
            with open(CFG["out"] + ".err", "w", encoding="utf-8") as f:
                json.dump(s, f)
        except OSError:
            pass
        return 1
    if not early and (CFG.get("log") or CFG.get("kill_at") is not None or sched.get("kind", "none") != "none"):
        sys.addaudithook(_hook)
    mode = CFG["mode"]
    if not early:
        barrier_wait()
    if sched.get("kind") == "stall_at" and _IDX != 0:
        # the others begin their first use (starting with the look whether a cache file exists) once child 0 is stalling
        t_end = time.monotonic() + 12
        while not os.path.exists(os.path.join(CFG["barrier"], "stall.token")) and not os.path.exists(os.path.join(CFG["barrier"], "done.0")) \
                and time.monotonic() < t_end:
            time.sleep(0.002)
    _T_ARMED = True
    try:
        if mode == "digest":
            if CFG.get("start_delay_ms"):
                time.sleep(CFG["start_delay_ms"] / 1000.0)
            if CFG.get("pre_files"):  # big data files cached first: the data cache is multi-frame from its first write on
                from spsdk.utils import database as D

                for xf in _rot(list(CFG["pre_files"]), int(CFG.get("rot", 0))):
                    D.get_whole_db().load_db_cfg_file(xf)
            parts = query_parts(CFG.get("queries", "full"), int(CFG.get("rot", 0)))
            if CFG.get("extra_files"):  # cached by this start, not part of the digest
                from spsdk.utils import database as D

                for xf in CFG["extra_files"]:
                    D.get_whole_db().load_db_cfg_file(xf)
            res = {"digest": digest_of(parts), "parts": parts, "events": _NEV, "pid": os.getpid(), "opens": OPENS}
        elif mode == "midlife":
            res = run_midlife()
        elif mode == "prefixes":
            res = run_prefixes()
        elif mode == "clear":
            from spsdk.utils import database as D

            for _ in range(int(CFG.get("rounds", 1))):
                D.DatabaseManager.clear_cache()
                time.sleep(CFG.get("gap_ms", 0) / 1000.0)
            res = {"cleared": True, "events": _NEV, "pid": os.getpid()}
        elif mode == "cli":
            res = {"cli": run_cli(), "events": _NEV, "pid": os.getpid()}
        else:
            return 97
    except BaseException as e:  # pylint: disable=broad-except
        _T_ARMED = False
        s = exc_summary(e)
        _log(f"{_IDX} {os.getpid()} {_NEV} DIED:{s['type']} -")
        mark_done()
        try:
            with open(CFG["out"] + ".err", "w", encoding="utf-8") as f:
                json.dump(s, f)
        except OSError:
            pass
        traceback.print_exc()
        return 1
    _T_ARMED = False
    _log(f"{_IDX} {os.getpid()} {_NEV} EXIT:0 -")
    mark_done()
    write_out(res)
    return 0


if __name__ == "__main__":
    sys.exit(main())
