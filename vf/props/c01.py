"""C01 - Master Boot Image: parse(export(x)) = x and a self-describing header.

Runtime monitoring: the real builder (``get_mbi_class`` -> ``load_from_config`` -> ``export``), parser
(``MasterBootImage.parse``), ``create_config`` and a second ``export`` of the parsed object are driven with
generated configurations for every family x image type of the database under test.  Oracle = expectations
computed from the INPUTS (payload, settings) + the header words decoded by the independent model
``vf.refs.mbi_rom`` + the stage-pair monitor (each pipeline stage must be undone by its ``revert``) +
``nxpimage mbi export|parse`` through CliRunner on a sample.
"""
from __future__ import annotations

import os
import shutil
import struct
import traceback

from vf import core
from vf.props import mbi_gen as G
from vf.refs import mbi_rom

ID = "C01"
ROTATING_PKI = 0.3  # fraction of the key / certificate paths that are rotating slots (vf/pki.py)
DECOY_CWD = True  # the worker runs in a directory that holds other bytes under every input file name (vf/worker.py)
LEVEL = "exploration"
TECHNIQUE = ("runtime monitoring: round-trip oracle from the inputs + independent header-word decoder + "
             "stage-pair (revert) monitor on the export/parse pipeline + CLI path via CliRunner")
RULE = (
    "every family in get_families('mbi') x every (target, authentication) of its images table (database under test); "
    "payload length classes 0x38, 0x39..0x3F, 0x40, 0x41, 0x44, 0x1FF, 0x200, 0x201, 0x3C0, 0x400, 0xC00, random <= 64 KiB "
    "(DSC/BCA classes: around 0xC00; mcxc: around 0x3C0/0x400/0x410), contents random / relocation-marker look-alike / "
    "zero reserved words / all ones; options drawn per mixin list and offered only if the class's own validation schema "
    "knows them (load address, image/firmware version, sub-type, TrustZone disabled/default/custom preset from the family's "
    "register specification, HW-key flag, key store, relocation table 1..3 entries, HMAC key, CTR IV, cert block v1 "
    "RSA-2048/3072/4096 depth 1..3 every root index, cert block v2.1 P-256/P-384 1..4 roots +- ISK +- user data, Vx). "
    "A case is non-trivial when the export succeeded and parse was attempted; signature = (class-set representative or family "
    "class, image class, payload class, option signature)."
)
ASSUMPTIONS = [
    "payload equality is modulo zero padding to a multiple of 4 and the four reserved IVT words 0x20/0x24/0x28/0x34 "
    "(the format overwrites them, the parser clears them)",
    "IVT-less classes (DSC, mcxc): payload equality is outside the fields the format overwrites in place "
    "(BCA CRC words, BCA length/version, digest, signature, ISK certificate and hash, FCF life-cycle byte, supplied BCA/FCF)",
    "ECDSA signatures are randomised: re-export is compared outside the image signature field only",
    "only options that appear in the class's own validation schema are supplied and expected back",
    "justHeader=True (export of the header only, by request) is not generated; a manifest digest algorithm other than the "
    "one the signing key implies is not generated",
    "a configuration the builder refuses with SPSDKError is counted, not judged",
    "the stage-pair law tolerates the fields a sign stage writes in place and documents as not removable "
    "(CRC word, BCA CRC words, Vx digest/signature/ISK certificate)",
]
REQUIRED_COUNTERS = ["export_ok", "parse_attempted", "payload_compared", "settings_compared", "header_words_checked",
                     "reexport_compared", "second_export_compared", "stage_pairs_checked", "cli_roundtrips"]
CASE_TIMEOUT_S = 180
WATCHDOG_S = {"quick": 900, "thorough": 5400}

TZ_TAG = {"enabled": 0, "custom": 1, "disabled": 2}
STAGES = ("encrypt", "post_encrypt", "sign", "finalize")


# ------------------------------------------------------------------------------------ selftest
def selftest(ctx):
    st = mbi_rom.selftest(os.path.join(core.repo_root(), "tests"))
    tz = {}
    for fam_dir, fam in (("mcxn9xx", "mcxn947"), ("lpc55s3x", "lpc55s36"), ("kw45xx", "kw45b41z8"), ("k32w1xx", "k32w148")):
        try:
            tz[fam_dir] = G.tz_size(fam)
        except Exception:  # pylint: disable=broad-except
            pass
    st["v21"] = mbi_rom.selftest_v21(os.path.join(core.repo_root(), "tests"), tz)
    return st


# --------------------------------------------------------------------------------------- cases
WITNESSES = [
    # known findings: must be re-observed in every run (directed, deterministic)
    {"kind": "witness", "name": "ambiguous-plain-ram", "family": "lpc5534", "target": "load_to_ram", "auth": "plain",
     "want": {"load_address": 0x20001000, "payload_class": "0x200", "content": "random"}},
    {"kind": "witness", "name": "ambiguous-signed-ram", "family": "lpc55s69", "target": "load_to_ram", "auth": "signed",
     "want": {"load_address": 0x20001000, "payload_class": "0x200", "content": "random", "tz": "disabled", "kind": "rsa2048", "depth": 1}},
    {"kind": "witness", "name": "type-from-payload-mcxc", "family": "mcxc444", "target": "xip", "auth": "plain",
     "want": {"payload_class": "0x500", "content": "ones", "bca_fcf": False}},
    {"kind": "witness", "name": "type-from-payload-dsc-plain", "family": "mc56f81868", "target": "xip", "auth": "plain",
     "want": {"payload_class": "0xE00", "content": "ones"}},
    # section-3 defects: directed so that every run exercises the mechanism, whatever the random draws hit
    {"kind": "witness", "name": "certv1-xip", "family": "lpc55s69", "target": "xip", "auth": "signed",
     "want": {"payload_class": "0x201", "content": "random", "tz": "disabled", "kind": "rsa2048", "depth": 2}},
    {"kind": "witness", "name": "reloc-2", "family": "mimxrt595s", "target": "load_to_ram", "auth": "crc",
     "want": {"payload_class": "0x200", "content": "random", "reloc": 2, "tz": "enabled"}},
    {"kind": "witness", "name": "reloc-lookalike", "family": "mimxrt798s", "target": "load_to_ram", "auth": "crc",
     "want": {"payload_class": "0x200", "content": "reloc_lookalike", "reloc": 0, "tz": "enabled"}},
    {"kind": "witness", "name": "tz-custom-certv1", "family": "lpc55s69", "target": "xip", "auth": "signed",
     "want": {"payload_class": "0x400", "content": "random", "tz": "custom", "kind": "rsa2048", "depth": 1}},
    {"kind": "witness", "name": "tz-custom-hmac", "family": "mimxrt595s", "target": "load_to_ram", "auth": "signed",
     "want": {"payload_class": "0x400", "content": "random", "tz": "custom", "kind": "rsa2048", "depth": 1, "reloc": 0}},
    {"kind": "witness", "name": "tz-custom-hmac-ks", "family": "mimxrt685s", "target": "load_to_ram", "auth": "signed",
     "want": {"payload_class": "0x400", "content": "random", "tz": "custom", "kind": "rsa2048", "depth": 1, "reloc": 0, "key_store": True}},
    {"kind": "witness", "name": "dsc-plain", "family": "mc56f81768", "target": "xip", "auth": "plain",
     "want": {"payload_class": "0xE00", "content": "random"}},
    {"kind": "witness", "name": "dsc-crc", "family": "mwct2012", "target": "xip", "auth": "crc",
     "want": {"payload_class": "0xE00", "content": "random"}},
    {"kind": "witness", "name": "dsc-short-app", "family": "mc56f81646", "target": "xip", "auth": "crc",
     "want": {"payload_class": "0x400", "content": "random", "lifecycle": "OEM_OPEN"}},
    {"kind": "witness", "name": "dsc-short-app-vx", "family": "mwct20d2", "target": "xip", "auth": "signed",
     "want": {"payload_class": "0x400", "content": "random", "lifecycle": "NOT_SET"}},
    {"kind": "witness", "name": "dsc-unknown-lifecycle", "family": "mc56f81768", "target": "xip", "auth": "crc",
     "want": {"payload_class": "0xE00", "content": "ones", "lifecycle": "NOT_SET", "fcf_byte": 0xF3}},
    {"kind": "witness", "name": "certv1-mixed-chain", "family": "lpc55s69", "target": "xip", "auth": "signed",
     "want": {"payload_class": "0x200", "content": "random", "tz": "disabled", "kind": "rsa3072", "depth": 2, "mixed": True, "leaf_kind": "rsa2048"}},
    {"kind": "witness", "name": "manifest-default-tz", "family": "mcxn947", "target": "xip", "auth": "signed",
     "want": {"payload_class": "0x200", "content": "random", "tz": "enabled", "curve": "p256", "isk": False}},
    {"kind": "witness", "name": "vx-add-hash", "family": "mc56f81868", "target": "xip", "auth": "signed",
     "want": {"payload_class": "0xE00", "content": "random", "add_hash": True, "lifecycle": "OEM_OPEN"}},
    {"kind": "witness", "name": "enc-0x38", "family": "mimxrt595s", "target": "load_to_ram", "auth": "encrypted",
     "want": {"payload_class": "0x38", "content": "random", "tz": "disabled", "kind": "rsa2048", "depth": 1, "reloc": 0}},
    {"kind": "witness", "name": "enc-0x40", "family": "mimxrt533s", "target": "load_to_ram", "auth": "encrypted",
     "want": {"payload_class": "0x40", "content": "random", "tz": "disabled", "kind": "rsa2048", "depth": 1, "reloc": 0}},
    {"kind": "witness", "name": "enc-0x44", "family": "mimxrt533s", "target": "load_to_ram", "auth": "encrypted",
     "want": {"payload_class": "0x44", "content": "random", "tz": "disabled", "kind": "rsa2048", "depth": 1, "reloc": 0}},
    {"kind": "witness", "name": "hmac-signed-0x40", "family": "mimxrt685s", "target": "load_to_ram", "auth": "signed",
     "want": {"payload_class": "0x40", "content": "random", "tz": "disabled", "kind": "rsa2048", "depth": 1, "reloc": 0}},
]


def cases(tier, seed):  # noqa: ARG001
    for w in WITNESSES:
        yield dict(w)
    reps = set(G.representative_families())
    per_rep, per_other = (12, 4) if tier == "quick" else (120, 120)
    for fam in G.families():
        draws = per_rep if fam in reps else per_other
        for idx, info in enumerate(G.images(fam)):
            # the classes with the most machinery (HMAC / key store / encryption / relocation table) get more draws
            mult = 4 if info["auth"] == "encrypted" else (2 if G.m(info["mixins"], "MixinRelocTable") else 1)
            for k in range(draws * mult):
                c = {"kind": "gen", "family": fam, "target": info["target"], "auth": info["auth"], "k": k}
                # CLI path on a sample: one draw of every class of the representative families (+ a slice of the rest)
                if (fam in reps and k == 0) or (tier == "thorough" and k == 1 and idx == 0):
                    c["cli"] = True
                yield c
    # silicon revisions whose TrustZone register set is not the one of the latest revision: everything that depends on
    # the revision (preset size, register names) must follow the revision of the configuration / of the parse call
    for fam, rev in G.tz_revisions():
        for info in G.images(fam, rev):
            for k in range(2 if tier == "quick" else 24):
                yield {"kind": "gen", "family": fam, "target": info["target"], "auth": info["auth"], "k": k, "rev": rev,
                       "want": {"revision": rev, "tz": "custom" if k % 2 == 0 else None}, "cli": k == 0}
    # ... and the revisions whose image classes themselves differ from the latest revision
    for fam, rev in G.mbi_revisions():
        for info in G.images(fam, rev):
            for k in range(6 if tier == "quick" else 60):
                yield {"kind": "gen", "family": fam, "target": info["target"], "auth": info["auth"], "k": k, "rev": rev,
                       "want": {"revision": rev}, "cli": k == 0}


def _info(family, target, auth, revision="latest"):
    for i in G.images(family, revision):
        if i["target"] == target and i["auth"] == auth:
            return i
    raise core.Inconclusive(f"{family}/{revision}: no image ({target}, {auth}) in the database under test")


def extra_coverage(events, counters):  # noqa: ARG001
    """Acceptance ratio per export class: below 70 % the class was not really explored -> inconclusive."""
    ratios = {}
    low = []
    for k, acc in counters.items():
        if k.startswith("accepted/"):
            name = k.split("/", 1)[1]
            ref = counters.get(f"refused/{name}", 0)
            ratios[name] = round(acc / (acc + ref), 3)
    for k, ref in counters.items():
        if k.startswith("refused/") and f"accepted/{k.split('/', 1)[1]}" not in counters:
            ratios[k.split("/", 1)[1]] = 0.0
    low = sorted(n for n, r in ratios.items() if r < 0.7)
    if low:
        raise RuntimeError(f"builder accepted < 70 % of the generated configurations of class(es) {low}: {ratios}")
    return {"acceptance_ratio_by_export_class": ratios}


# ------------------------------------------------------------------------------------ monitors
_STAGE_LOG_ATTR = "_vf_stage_log"


def install_monitors(ctx):
    """Stage-pair hook: wrap encrypt / post_encrypt / sign / finalize on every export mixin that defines them."""
    if not os.environ.get(core.GUARD):
        return
    from spsdk.image.mbi import mbi_mixin

    def wrap(owner, name, fn):
        def wrapper(self, image, revert=False):
            try:
                before = bytes(image.export())
            except Exception:  # pylint: disable=broad-except
                before = None
            out = fn(self, image, revert)
            try:
                after = bytes(out.export())
            except Exception:  # pylint: disable=broad-except
                after = None
            log = self.__dict__.setdefault(_STAGE_LOG_ATTR, [])
            log.append((name, bool(revert), owner, before, after))
            return out

        wrapper.__wrapped__ = fn
        wrapper.__name__ = fn.__name__
        wrapper.__doc__ = fn.__doc__
        return wrapper

    n = 0
    for cname, cls in vars(mbi_mixin).items():
        if isinstance(cls, type) and issubclass(cls, mbi_mixin.Mbi_ExportMixin):
            for st in STAGES:
                fn = cls.__dict__.get(st)
                if fn is not None and not hasattr(fn, "__wrapped__"):
                    setattr(cls, st, wrap(cname, st, fn))
                    n += 1
    ctx.count("stage_hooks_installed", n)


def _stage_tolerance(owner: str, data_len: int):
    """Byte ranges a sign stage writes IN PLACE and whose revert is documented as the identity."""
    if owner == "Mbi_ExportMixinCrcSign":
        return [(0x28, 0x2C)]
    if owner == "Mbi_ExportMixinCrcSignBca":
        return [(0x3C4, 0x3D0)]
    if owner == "Mbi_ExportMixinEccSignVx":
        return [(0x360, 0x3C0), (0x410, 0x4A0), (0x4A0, 0x5E0)]   # certificate / hash slots are rewritten as a whole
    return []


def _eq_outside(a: bytes, b: bytes, ranges):
    if len(a) != len(b):
        return False
    if a == b:
        return True
    ma, mb = bytearray(a), bytearray(b)
    for s, e in ranges:
        ma[s:e] = bytes(len(ma[s:e]))
        mb[s:e] = bytes(len(mb[s:e]))
    return ma == mb


def check_stage_pairs(ctx, b, exp_obj, par_obj):
    """revert(stage_k(x)) == x, stage by stage (export log of one object against the parse log of the other)."""
    elog = [r for r in getattr(exp_obj, _STAGE_LOG_ATTR, []) if not r[1]]
    plog = [r for r in getattr(par_obj, _STAGE_LOG_ATTR, []) if r[1]]
    e_by = {r[0]: r for r in elog[:4]}     # the first export of the object
    p_by = {r[0]: r for r in plog[:4]}
    bad = None
    n = 0
    for st in reversed(STAGES):            # parse order: finalize, sign, post_encrypt, encrypt
        if st not in e_by or st not in p_by:
            continue
        _n, _r, owner, e_in, e_out = e_by[st]
        _n2, _r2, _o2, p_in, p_out = p_by[st]
        if None in (e_in, e_out, p_in, p_out):
            continue
        n += 1
        tol = _stage_tolerance(owner, len(e_in))
        # the reverted stage got what the stage produced (chain is intact) and must give back what the stage got
        if p_in == e_out and not _eq_outside(p_out, e_in, tol):
            bad = (st, owner, len(e_in), len(p_out))
            break
        if p_in != e_out:
            break      # an earlier (outer) stage already failed to revert; localisation done there
    ctx.count("stage_pairs_checked", n)
    return bad


# ----------------------------------------------------------------------------- expectations
def pad4(bts: bytes) -> bytes:
    return bts + bytes(-len(bts) % 4)


def clean_words(bts: bytes) -> bytes:
    a = bytearray(bts)
    for w in mbi_rom.RESERVED_WORDS:
        a[w:w + 4] = bytes(4)
    return bytes(a)


def expected_payload(b):
    """(expected app bytes, don't-care ranges) for the parsed object."""
    app = pad4(b.app)
    if any(x.startswith("Mbi_MixinIvt") for x in b.mixins):
        return clean_words(app), []
    rng_ = []
    o = b.opts
    if b.has("MixinBcaTable"):
        if o.get("lifecycle", 0xFF) != 0xFF:
            rng_.append((0x40C, 0x40D))
        if b.has("ExportMixinCrcSignBca"):
            rng_.append((0x3C4, 0x3D0))
        if b.has("ExportMixinEccSignVx"):
            rng_ += [(0x360, 0x3C0), (0x3E0, 0x3E8), (0x410, 0x4A0)]      # the 144-byte certificate slot is rewritten as a whole
            if o.get("add_hash"):
                rng_.append((0x4A0, 0x5E0))      # the certificate-hash slot (up to the WPC area) is rewritten as a whole
    if b.has("MixinBca"):
        rng_ += [(0x3C0, 0x400), (0x400, 0x410)]
    return app, rng_


def ambiguity(b):
    """None | 'type-shared' | 'type-not-in-image' - can parse() identify this class from the bytes at all?"""
    info = b.info
    if not any(x.startswith("Mbi_MixinIvt") for x in info["mixins"]):
        fixed = G.fixed_image_type(b.family, b.revision)
        first = next((i for i in G.images(b.family, b.revision) if i["image_type"] == fixed), None) if fixed >= 0 else None
        if first is None or first["cls"] != info["cls"]:
            return "type-not-in-image"
        return None
    first = next(i for i in G.images(b.family, b.revision) if i["image_type"] == info["image_type"])
    if first["cls"] != info["cls"]:
        # the recorded finding is exactly: plain XIP and plain RAM share type 0, signed XIP and signed RAM share type 4
        # (the format has no other way to tell them apart).  Any OTHER pair of classes that ends up with one image type -
        # e.g. through a slip in a device data file - is not that finding.
        pair = {(first["auth"], first["target"]), (info["auth"], info["target"])}
        known = (pair == {("plain", "xip"), ("plain", "load_to_ram")} and info["image_type"] == 0) or \
                (pair == {("signed", "xip"), ("signed", "load_to_ram")} and info["image_type"] == 4)
        return "type-shared" if known else f"type-shared-unexpectedly:{first['auth']}-{first['target']}+{info['auth']}-{info['target']}"
    return None


def hmac_offset_conflict(b):
    """The HMAC block is inserted at the fixed offset 0x40: the layout cannot represent an application that does not
    reach beyond it (signed RAM: certificate block would start before 0x40; encrypted: also exactly 0x40)."""
    if not (b.has("MixinHmacMandatory") or b.has("MixinHmac")):
        return False
    n = len(pad4(b.app)) + _reloc_len(b.opts)
    return n <= 0x40 if b.has("ExportMixinAppTrustZoneCertBlockEncrypt") else n < 0x40


def dsc_app_too_short(b):
    """DSC classes keep vectors, BCA, FCF and certificates in the first 0xC00 bytes of the APPLICATION itself: an
    application shorter than that cannot be represented (fields are written past its end, lengths go negative)."""
    return b.has("MixinBcaTable") and len(b.app) < 0xC00


def unknown_lifecycle_byte(b):
    """lifeCycle NOT_SET keeps the application's own FCF byte; True when that byte is no life-cycle name."""
    return (b.has("MixinFcfObsolete") and b.opts.get("lifecycle") == 0xFF and len(b.app) > 0x40C
            and b.app[0x40C] not in G.LIFECYCLES.values())


def export_mixin(b):
    return next((x for x in b.mixins if x.startswith("Mbi_ExportMixinApp")), "?").replace("Mbi_", "")


def mixed_chain(b):
    """Certificate block v1 whose image-signing (last) key has another size than the root key."""
    return bool(b.cert and b.cert.get("v") == "v1" and b.cert.get("mixed"))


def sigsize_mechanism(b, data):
    """True when the length word is off by exactly (root modulus size - last certificate's modulus size): the signature
    size was taken from the ROOT certificate although the LAST certificate's key signs the image."""
    if not mixed_chain(b) or len(data) < 0x24:
        return False
    word = struct.unpack_from("<I", data, 0x20)[0]
    return word - len(data) == _rsa_bytes(b.cert["kind"]) - _rsa_bytes(b.cert["leaf_kind"])


def classify_parse_failure(b, exc, data):
    """Mechanism key for a parse() of SPSDK's own export that failed."""
    tb = traceback.extract_tb(exc.__traceback__)
    inner = tb[-1] if tb else None
    fn = inner.name if inner else ""
    fname = os.path.basename(inner.filename) if inner else ""
    msg = str(exc)
    o = b.opts
    amb = ambiguity(b)
    if amb == "type-not-in-image":
        return "mbi-parse-type-from-payload"
    if (isinstance(exc, AssertionError) and fn == "mix_parse" and fname == "mbi_mixin.py" and o.get("tz") == "custom"
            and (b.has("MixinCertBlockV1") or b.has("MixinCertBlockV21"))):
        return "mbi-parse-mixin-order-trustzone-before-certblock"
    if hmac_offset_conflict(b):
        return "mbi-encrypted-app-not-beyond-hmac-offset"
    if sigsize_mechanism(b, data):
        return "certv1-signature-size-from-root-certificate"
    if b.has("MixinRelocTable"):
        if o.get("reloc") and fname == "mbi_classes.py":
            return "mbi-reloc-table-parse"
        if not o.get("reloc") and "reloc_lookalike" in b.payload_class and fname == "mbi_classes.py":
            return "mbi-reloc-marker-lookalike-misdetected"
    return f"parse-failed:{type(exc).__name__}:{export_mixin(b)}:{fn}"


# ------------------------------------------------------------------------------------ run_case
def run_case(case, ctx):  # noqa: C901
    from spsdk.exceptions import SPSDKError
    from spsdk.image.mbi.mbi import MasterBootImage

    family = case["family"]
    info = _info(family, case["target"], case["auth"], (case.get("want") or {}).get("revision", "latest"))
    rng = ctx.rng
    os.makedirs(ctx.workdir, exist_ok=True)
    b = G.build(family, info, rng, ctx.workdir, tier=ctx.tier, want=case.get("want"))
    try:
        _run(case, ctx, b, SPSDKError, MasterBootImage)
    finally:
        shutil.rmtree(b.dir, ignore_errors=True)


def _sig(b, case):
    rep = b.family if case["kind"] == "witness" else "*"
    return [rep, b.info["cls"], b.info["image_type"], export_mixin(b), b.payload_class.split("/")[0] if case["kind"] == "witness" else b.payload_class, b.sig]


def _run(case, ctx, b, SPSDKError, MasterBootImage):  # noqa: C901
    family, info, o = b.family, b.info, b.opts
    sig = _sig(b, case)
    viol0 = ctx._viol_in_case

    stage_bad = []      # filled after parse: (stage, owner, ...) of the first pipeline stage whose revert did not undo it

    def viol(key, **detail):
        d = {"config": b.describe()}
        d.update(detail)
        if stage_bad:
            d["stage_not_reverted"] = f"{stage_bad[0][0]} ({stage_bad[0][1]})"
        if dsc_app_too_short(b) and not key.startswith("mbi-parse-type") and key != "mbi-dsc-app-shorter-than-header-area":
            d["observed_as"] = key
            key = "mbi-dsc-app-shorter-than-header-area"
        ctx.violation(key, d)

    # ---- 1. export ------------------------------------------------------------------------
    try:
        obj, data = G.export(b)
    except SPSDKError as e:
        ctx.count("export_refused")
        ctx.count(f"refused/{export_mixin(b)}")
        ctx.refused([info["cls"], b.payload_class.split("/")[0]], core.exc_brief(e))
        return
    except struct.error as e:
        if dsc_app_too_short(b) and core.origin_of(e) == "repo":
            # not validated: the negative length word escapes as struct.error instead of a refusal
            viol("mbi-dsc-app-shorter-than-header-area", exception=core.exc_brief(e))
            return
        raise
    ctx.count("export_ok")
    ctx.count(f"accepted/{export_mixin(b)}")
    is_ivt = any(x.startswith("Mbi_MixinIvt") for x in b.mixins)
    prof = G.rom_profile(family, info, b.revision)

    # ---- 2. header words -------------------------------------------------------------------
    rep = None
    hdr = None
    if is_ivt:
        hdr = mbi_rom.decode_header(data)
        ctx.count("header_words_checked", 4)
        has_tz = "tz" in o
        want_flags = mbi_rom.expected_flags(
            info["image_type"], subtype=o.get("subtype", 0), tz=TZ_TAG[o["tz"]] if has_tz else None,
            hw_key=o.get("hw_key", False), key_store=bool(o.get("key_store")), reloc=bool(o.get("reloc")),
            image_version=o.get("image_version", 0))
        if hdr["type"] != info["image_type"]:
            viol("header-type-bits", observed=hdr["type"], expected=info["image_type"])
        elif hdr["flags"] != want_flags:
            diff = hdr["flags"] ^ want_flags
            field = ("tz" if diff & 0x6000 else "subtype" if diff & 0xC0 else "image-version" if diff & 0xFFFF0400 else
                     "reloc" if diff & 0x800 else "hw-key" if diff & 0x1000 else "key-store" if diff & 0x8000 else "reserved")
            viol(f"header-flags-{field}", observed=hex(hdr["flags"]), expected=hex(want_flags))
        want_la = o.get("load_address", 0)
        if hdr["load_address"] != want_la:
            viol("header-load-address", observed=hex(hdr["load_address"]), expected=hex(want_la))
        try:
            rep = mbi_rom.walk(data, prof)
        except core.RefReject as e:
            if hmac_offset_conflict(b):
                viol("mbi-encrypted-app-not-beyond-hmac-offset", model=e.args[0], app_len=len(b.app), file_len=len(data),
                     length_word=hex(hdr["total_length"]), word28=hex(hdr["word28"]))
            else:
                viol(f"header-layout-not-walkable:{export_mixin(b)}", model=e.args[0], word28=hex(hdr["word28"]))
        if rep is not None:
            zero_ok = info["image_type"] == 0 and b.has("MixinIvtZeroTotalLength")
            if zero_ok:
                if hdr["total_length"] != 0:
                    viol("header-length-word", observed=hex(hdr["total_length"]), expected="0 (class zeroes the length)")
            elif hdr["total_length"] != rep.derived_length or rep.derived_length != len(data):
                if hmac_offset_conflict(b):
                    viol("mbi-encrypted-app-not-beyond-hmac-offset", length_word=hex(hdr["total_length"]),
                         derived=hex(rep.derived_length), file_len=hex(len(data)))
                elif sigsize_mechanism(b, data):
                    # mechanism: signature size taken from the ROOT certificate, the signature is made by the LAST one
                    viol("certv1-signature-size-from-root-certificate", length_word=hex(hdr["total_length"]), file_len=hex(len(data)),
                         root=b.cert["kind"], leaf=b.cert["leaf_kind"])
                else:
                    viol("header-length-word", observed=hex(hdr["total_length"]), derived=hex(rep.derived_length), file_len=hex(len(data)))
            if hdr["type"] == 0 and hdr["word28"] != 0:
                viol("header-word28-plain-nonzero", observed=hex(hdr["word28"]))
            if hdr["type"] in mbi_rom.CRC_TYPES:
                try:
                    mbi_rom.check_crc(data)
                except core.RefReject as e:
                    viol("header-crc-word", model=e.args[0])
            if hdr["type"] in mbi_rom.SIGNED_TYPES:
                exp_off = len(pad4(b.app)) + _reloc_len(o)
                if hdr["word28"] != exp_off:
                    viol("header-cert-offset", observed=hex(hdr["word28"]), expected=hex(exp_off))

    # ---- 3. parse -----------------------------------------------------------------------------
    ctx.count("parse_attempted")
    amb = ambiguity(b)
    try:
        par = MasterBootImage.parse(family, data, dek=b.dek, revision=b.revision)
    except Exception as e:  # pylint: disable=broad-except
        if not core.is_refusal(e) and core.origin_of(e) != "repo":
            raise
        viol(classify_parse_failure(b, e, data), exception=core.exc_brief(e))
        return
    bad = check_stage_pairs(ctx, b, obj, par)      # localises a round-trip failure to one pipeline stage
    if bad:
        stage_bad.append(bad)
    same_class = type(par).__name__ == info["cls"]
    if not same_class:
        key = {"type-shared": "mbi-type-ambiguous-xip-vs-ram", "type-not-in-image": "mbi-parse-type-from-payload"}.get(
            amb, "mbi-" + amb if amb else "parsed-as-different-class")
        viol(key, parsed_class=type(par).__name__, built_class=info["cls"], image_type=info["image_type"],
             parsed_load_address=getattr(par, "load_address", "absent"))

    # a signed but NOT encrypted image needs no key to be read: parsing it without the user key must give the same
    # application and the same TrustZone data (the key only serves the HMAC check)
    if same_class and b.dek and not b.has("ExportMixinAppTrustZoneCertBlockEncrypt"):
        ctx.count("parse_without_key")
        try:
            par_nk = MasterBootImage.parse(family, data, dek=None, revision=b.revision)
        except Exception as e:  # pylint: disable=broad-except
            if not core.is_refusal(e) and core.origin_of(e) != "repo":
                raise
            viol(f"parse-without-key-failed:{type(e).__name__}:{export_mixin(b)}", exception=core.exc_brief(e))
        else:
            if bytes(par_nk.app or b"") != bytes(par.app or b""):
                viol(f"parse-without-key-differs:app:{export_mixin(b)}", with_key_len=len(par.app or b""), without_key_len=len(par_nk.app or b""))
            tz_a, tz_b = getattr(par, "trust_zone", None), getattr(par_nk, "trust_zone", None)
            if tz_a is not None and tz_b is not None and (tz_a.type.tag != tz_b.type.tag or bytes(tz_a.export()) != bytes(tz_b.export())):
                viol(f"parse-without-key-differs:trust-zone:{export_mixin(b)}", with_key=core.hx(bytes(tz_a.export())[:48]),
                     without_key=core.hx(bytes(tz_b.export())[:48]))

    # payload
    want_app, dontcare = expected_payload(b)
    got_app = bytes(par.app or b"")
    ctx.count("payload_compared")
    if not _eq_outside(got_app, want_app, dontcare):
        viol(_classify_payload(b, got_app, want_app, data, rep), got_len=len(got_app), want_len=len(want_app),
             got_head=core.hx(got_app[:32]), first_diff=_first_diff(got_app, want_app))
    # relocation entries
    if b.has("MixinRelocTable") and same_class:
        got_tab = getattr(par, "app_table", None)
        got_entries = [(e.dst_addr, bytes(e.image), bool(e.is_load)) for e in got_tab.entries] if got_tab else []
        want_entries = [(d, i, bool(l)) for d, i, l in o.get("reloc", [])]
        if got_entries != want_entries:
            key = "mbi-reloc-table-parse" if o.get("reloc") else (
                "mbi-reloc-marker-lookalike-misdetected" if "reloc_lookalike" in b.payload_class else "reloc-entries-invented")
            viol(key, got=[(hex(d), len(i), l) for d, i, l in got_entries], want=[(hex(d), len(i), l) for d, i, l in want_entries])
    # settings, field by field
    ctx.count("settings_compared")
    _compare_settings(b, par, viol, data, rep)

    # ---- 4. create_config -----------------------------------------------------------------
    if same_class:
        out_dir = os.path.join(b.dir, "parsed")
        os.makedirs(out_dir, exist_ok=True)
        try:
            cfg2 = par.create_config(out_dir)
        except TypeError as e:
            tb = traceback.extract_tb(e.__traceback__)
            if core.origin_of(e) != "repo":
                raise
            if getattr(par, "app_table", None) and tb[-1].name == "write_file" and any(fr.name == "mix_get_config" for fr in tb):
                viol("mbi-reloc-create-config-text-mode-write", exception=core.exc_brief(e))
            else:
                viol(f"create-config-crash:TypeError:{export_mixin(b)}", exception=core.exc_brief(e))
            cfg2 = None
        except SPSDKError as e:
            if "DSASSLifeCycle" in str(e) and unknown_lifecycle_byte(b):
                # the builder kept the application's own FCF byte (lifeCycle NOT_SET), the parsed object cannot name it
                viol("mbi-dsc-unknown-lifecycle-byte", where="create_config", exception=core.exc_brief(e))
            else:
                viol(f"create-config-refused:{export_mixin(b)}", exception=core.exc_brief(e))
            cfg2 = None
        if cfg2 is not None:
            b.api_config = dict(cfg2)
            _compare_config(b, cfg2, out_dir, viol, got_app)

    # ---- 5. stage pairs -------------------------------------------------------------------------
    if bad and ctx._viol_in_case == viol0:
        viol(f"stage-not-reverted:{bad[0]}:{bad[1].replace('Mbi_', '')}", stage=bad[0], owner=bad[1], in_len=bad[2], reverted_len=bad[3])

    # ---- 6. re-export ------------------------------------------------------------------------------
    if same_class and ctx._viol_in_case == viol0:
        _reexport(ctx, b, par, data, rep, viol, SPSDKError)

    # ---- 6b. the built object asked a second time: export must not consume or shift any of its state ----------
    if ctx._viol_in_case == viol0:
        try:
            data_b = bytes(obj.export())
        except SPSDKError as e:
            viol(f"second-export-refused:{export_mixin(b)}", exception=core.exc_brief(e))
            data_b = None
        if data_b is not None:
            ctx.count("second_export_compared")
            if o.get("iv", 0) is None:
                # the counter IV is SPSDK's own random choice: judge the second file by what it parses to
                try:
                    par_b = MasterBootImage.parse(family, data_b, dek=b.dek, revision=b.revision)
                    same = bytes(par_b.app or b"") == got_app and len(data_b) == len(data)
                except Exception as e:  # pylint: disable=broad-except
                    if not core.is_refusal(e) and core.origin_of(e) != "repo":
                        raise
                    same = False
                if not same:
                    viol(f"second-export-differs:{export_mixin(b)}", len1=len(data), len2=len(data_b), iv="random")
            elif not _eq_outside(data_b, data, _sig_field(b, data, rep) + _isk_dependent(b, data, rep)):
                viol(f"second-export-differs:{export_mixin(b)}", first_diff=_first_diff(data_b, data), len1=len(data), len2=len(data_b))

    # ---- 6c. the same object with ANOTHER application (a batch that swaps the firmware per variant): the third file
    # describes and returns the new application like a file from a fresh object would
    if ctx._viol_in_case == viol0 and is_ivt and rep is not None and not o.get("reloc") and ctx.rng.random() < 0.35:
        new_app = bytes(obj.app) + bytes([0x5A, 0xA5, 0x3C, 0xC3]) * ctx.rng.choice([1, 16, 0x40, 0x101])
        try:
            obj.app = new_app
            data_c = bytes(obj.export())
        except SPSDKError as e:
            ctx.note("export_after_app_change_refused", core.exc_brief(e))
            data_c = None
        if data_c is not None:
            ctx.count("export_after_app_change")
            try:
                mbi_rom.walk(data_c, prof)
                par_c = MasterBootImage.parse(family, data_c, dek=b.dek, revision=b.revision)
                got_c = bytes(par_c.app or b"")
                # (the vector-table area carries the header words export writes: compared behind it)
                ok_c = len(got_c) >= len(new_app) and got_c[0x40:len(new_app)] == new_app[0x40:] and not any(got_c[len(new_app):])
                why = "parsed application differs from the new application"
            except core.RefReject as e:
                ok_c, why = False, f"header does not describe the file: {e}"
            except Exception as e:  # pylint: disable=broad-except
                if not core.is_refusal(e) and core.origin_of(e) != "repo":
                    raise
                ok_c, why = False, f"parse failed: {core.exc_brief(e)}"
            if not ok_c:
                viol(f"export-after-application-change:{export_mixin(b)}", why=why, first_len=len(data), new_len=len(data_c),
                     app_len_first=len(got_app), app_len_new=len(new_app))

    # ---- 7. CLI --------------------------------------------------------------------------------------
    if case.get("cli") and ctx._viol_in_case == viol0:
        _cli(ctx, b, data, rep, want_app, dontcare, viol)

    if ctx._viol_in_case == viol0:
        ctx.ok(sig, sample={"config": b.describe(), "file_len": len(data),
                            "header": {k: (hex(v) if isinstance(v, int) and not isinstance(v, bool) else v) for k, v in (hdr or {}).items()}})


def _rsa_bytes(kind):
    return int(kind[3:]) // 8


def _reloc_len(o):
    if not o.get("reloc"):
        return 0
    return sum(len(pad4(i)) for _d, i, _l in o["reloc"]) + 16 * len(o["reloc"]) + 16


def _first_diff(a, b):
    for i, (x, y) in enumerate(zip(a, b)):
        if x != y:
            return hex(i)
    return f"length {len(a)} vs {len(b)}"


def _classify_payload(b, got, want, data, rep):
    o = b.opts
    if b.has("ExportMixinAppFcf") and len(got) == 0:
        return "mbi-dsc-appfcf-disassemble-missing"
    if sigsize_mechanism(b, data):
        return "certv1-signature-size-from-root-certificate"
    if b.has("ExportMixinAppTrustZoneCertBlock"):
        # mechanism: image[:-offset] instead of image[:offset] (offset = certificate block offset, word 0x28)
        off = struct.unpack_from("<I", data, 0x28)[0]
        img = data
        if rep is not None and rep.info.get("img") is not None and rep.sig_offset is not None:
            img = rep.info["img"][:rep.sig_offset]
        cand = clean_words(img[:-off]) if off and len(img) > off else None
        if cand is not None and b.has("MixinRelocTable") and o.get("reloc"):
            return "mbi-reloc-table-parse"
        if cand is not None and got == cand:
            return "mbi-certv1-disassemble-negative-slice"
    if b.has("MixinRelocTable") and o.get("reloc"):
        return "mbi-reloc-table-parse"
    if b.has("MixinRelocTable") and "reloc_lookalike" in b.payload_class and len(got) < len(want):
        return "mbi-reloc-marker-lookalike-misdetected"
    if hmac_offset_conflict(b):
        return "mbi-encrypted-app-not-beyond-hmac-offset"
    if ambiguity(b) == "type-not-in-image":
        return "mbi-parse-type-from-payload"
    return f"payload-mismatch:{export_mixin(b)}"


def _compare_settings(b, par, viol, data, rep):  # noqa: C901
    o = b.opts

    def chk(field, got, want, key=None):
        if got != want:
            viol(key or f"setting-mismatch:{field}", field=field, got=core.hx(got) if isinstance(got, bytes) else got,
                 want=core.hx(want) if isinstance(want, bytes) else want)

    missing = object()
    if "load_address" in o:
        got = getattr(par, "load_address", missing)
        if got is missing:
            if ambiguity(b) is None:
                viol("setting-lost:load_address")
        else:
            chk("load_address", got, o["load_address"])
    if "image_version" in o and hasattr(par, "image_version"):
        chk("image_version", par.image_version, o["image_version"])
    if "subtype" in o and hasattr(par, "image_subtype"):
        chk("image_subtype", par.image_subtype, o["subtype"])
    if "hw_key" in o and hasattr(par, "user_hw_key_enabled"):
        chk("hw_key", bool(par.user_hw_key_enabled), o["hw_key"])
    if "fw_version" in o and hasattr(par, "firmware_version"):
        chk("firmware_version", par.firmware_version, o["fw_version"])
    if "lifecycle" in o and hasattr(par, "lifecycle"):
        # NOT_SET keeps the application's own byte
        want = o["lifecycle"] if o["lifecycle"] != 0xFF else (pad4(b.app)[0x40C] if len(b.app) > 0x40C else None)
        if want is not None and not (unknown_lifecycle_byte(b) and par.lifecycle == 0xFF):
            chk("lifecycle", par.lifecycle, want)
    if "tz" in o and hasattr(par, "trust_zone"):
        got_mode = {0: "enabled", 1: "custom", 2: "disabled"}.get(par.trust_zone.type.tag)
        manifest_default = (any(x.startswith("Mbi_MixinManifest") for x in b.mixins) and o["tz"] == "enabled"
                            and got_mode == "disabled")
        chk("tz_type", got_mode, o["tz"], key="mbi-manifest-parse-default-tz-disabled" if manifest_default else None)
        if o["tz"] == "custom" and got_mode == "custom":
            got_b = bytes(par.trust_zone.export())
            if got_b != o["tz_bytes"]:
                key = "setting-mismatch:tz_preset"
                if b.has("MixinHmacMandatory") and rep is not None and rep.info.get("cert"):
                    # mechanism: preset read at cert offset + cert size, ignoring the HMAC (+ key store) block at 0x40
                    cb = rep.info["cert"]
                    early = cb["end"]      # offset in the image WITHOUT the block == file offset read by the defect
                    if bytes(data[early:early + len(got_b)]) == got_b:
                        key = "mbi-tz-offset-ignores-hmac-block"
                viol(key, got=core.hx(got_b[:16]), want=core.hx(o["tz_bytes"][:16]))
    if "key_store" in o and hasattr(par, "key_store"):
        got = bytes(par.key_store.export()) if par.key_store else None
        chk("key_store", got or None, o["key_store"])
    if "iv" in o and o["iv"] is not None and hasattr(par, "ctr_init_vector"):
        chk("ctr_init_vector", bytes(par.ctr_init_vector or b""), o["iv"])
    if "user_key" in o and hasattr(par, "hmac_key"):
        chk("hmac_key", bytes(par.hmac_key or b""), o["user_key"])
    c = b.cert
    if c and getattr(par, "cert_block", None) is not None and ambiguity(b) != "type-not-in-image":
        cbp = par.cert_block
        if c["v"] == "v1" and rep is not None and rep.info.get("cert"):
            cb = rep.info["cert"]
            img = rep.info["img"]
            cbp.alignment = 4
            # header word 'image length' (offset 20) is derived at export time, not a setting
            chk("cert_block_bytes", _mask(bytes(cbp.export()), 20, 24), _mask(bytes(img[cb["off"]:cb["end"]]), 20, 24))
            chk("cert_block_build_number", cbp.header.build_number, c["build"])
        elif c["v"] == "v21" and rep is not None and rep.info.get("cert"):
            cb = rep.info["cert"]
            chk("cert_block_bytes", bytes(cbp.export()), bytes(data[cb["off"]:cb["end"]]))
        elif c["v"] == "vx":
            chk("cert_block_bytes", bytes(cbp.export()), bytes(data[0x410:0x410 + 136]))
    if "digest" in o and getattr(par, "manifest", None) is not None and hasattr(par.manifest, "digest_hash_algo"):
        got = par.manifest.digest_hash_algo.label.lower() if par.manifest.digest_hash_algo else None
        chk("manifest_digest", got, o["digest"])


def _mask(bts, s, e):
    a = bytearray(bts)
    a[s:e] = bytes(len(a[s:e]))
    return bytes(a)


def _compare_config(b, cfg2, out_dir, viol, got_app):
    from spsdk.utils.misc import value_to_int

    o = b.opts

    def chk(key, got, want):
        if got != want:
            viol(f"config-mismatch:{key}", key=key, got=got, want=want)

    if ambiguity(b) is None:
        chk("family", cfg2.get("family"), b.family)
        chk("outputImageExecutionTarget", cfg2.get("outputImageExecutionTarget"), G.TARGET_LABEL[b.info["target"]][0])
        chk("outputImageAuthenticationType", cfg2.get("outputImageAuthenticationType"), G.AUTH_LABEL[b.info["auth"]][0])
    for key, field in (("outputImageExecutionAddress", "load_address"), ("imageVersion", "image_version"),
                       ("firmwareVersion", "fw_version")):
        if field in o and key in cfg2 and cfg2[key] is not None:
            chk(key, value_to_int(cfg2[key]), o[field])
    if "hw_key" in o and "enableHwUserModeKeys" in cfg2:
        chk("enableHwUserModeKeys", bool(cfg2["enableHwUserModeKeys"]), o["hw_key"])
    if "tz" in o and "enableTrustZone" in cfg2:
        chk("enableTrustZone", bool(cfg2["enableTrustZone"]), o["tz"] != "disabled")
    if "iv" in o and o["iv"] is not None and "CtrInitVector" in cfg2:
        chk("CtrInitVector", bytes.fromhex(str(cfg2["CtrInitVector"]).replace("0x", "")), o["iv"])
    f = cfg2.get("inputImageFile")
    if f:
        with open(os.path.join(out_dir, f), "rb") as fh:
            if fh.read() != got_app:
                viol("config-mismatch:application.bin", note="file written by create_config differs from parsed.app")


def _attach_keys(b, par):
    from spsdk.crypto.signature_provider import get_signature_provider

    if b.sign_key and hasattr(par, "signature_provider"):
        par.signature_provider = (get_signature_provider(local_file_key=b.cfg["signPrivateKey"]) if "signPrivateKey" in b.cfg
                                  else get_signature_provider(sp_cfg=b.cfg["signProvider"]))
    if "user_key" in b.opts and hasattr(par, "hmac_key") and not par.hmac_key:
        par.hmac_key = b.opts["user_key"]


def _sig_field(b, data, rep):
    """Byte ranges of the randomised image signature (compared loosely on re-export)."""
    if b.has("ExportMixinEccSignVx"):
        return [(0x380, 0x3C0)]
    if b.has("ExportMixinEccSign") and rep is not None and rep.sig_offset is not None:
        return [(rep.sig_offset, rep.sig_offset + rep.sig_len)]
    return []


def _isk_dependent(b, data, rep):
    """Two independent exports sign the ISK certificate twice (ECDSA is randomised): the certificate signature and
    everything computed over it (manifest CRC, appended digest, Vx certificate hash + digest) legitimately differ."""
    c = b.cert or {}
    if c.get("v") == "vx":
        return [(0x360, 0x380), (0x410 + 72, 0x410 + 136), (0x4A0, 0x4B0)]
    if c.get("v") == "v21" and c.get("isk") and rep is not None and rep.info.get("cert"):
        isk = rep.info["cert"]["isk"]
        out = [(isk["sig_off"], isk["end"])]
        mo, ml = rep.info["manifest_off"], rep.info["manifest_len"]
        if b.has("MixinManifestCrc"):
            out.append((mo + ml - 4, mo + ml))
        out.append((rep.sig_offset + rep.sig_len, len(data)))
        return out
    return []


def _reexport(ctx, b, par, data, rep, viol, SPSDKError):
    _attach_keys(b, par)
    try:
        data2 = bytes(par.export())
    except SPSDKError as e:
        if "DSASSLifeCycle" in str(e) and unknown_lifecycle_byte(b):
            viol("mbi-dsc-unknown-lifecycle-byte", where="re-export", exception=core.exc_brief(e))
        else:
            viol(f"reexport-refused:{export_mixin(b)}", exception=core.exc_brief(e))
        return
    except AttributeError as e:
        if core.origin_of(e) != "repo":
            raise
        if b.has("MixinCertBlockVx") and "add_hash" in str(e):
            viol("mbi-vx-parse-add-hash-not-restored", exception=core.exc_brief(e))
        else:
            viol(f"reexport-setting-not-parsed:{export_mixin(b)}", exception=core.exc_brief(e))
        return
    ctx.count("reexport_compared")
    if not _eq_outside(data2, data, _sig_field(b, data, rep)):
        where = _first_diff(data2, data)
        viol(f"reexport-differs:{export_mixin(b)}", first_diff=where, len1=len(data), len2=len(data2))


def _num(v):
    try:
        return int(str(v), 0)
    except (TypeError, ValueError):
        return None


def _cli(ctx, b, data, rep, want_app, dontcare, viol):
    """Same configuration through ``nxpimage mbi export`` / ``mbi parse`` (CliRunner)."""
    import yaml
    from click.testing import CliRunner

    from spsdk.apps import nxpimage

    cfg = dict(b.cfg)
    cfg["masterBootOutputFile"] = os.path.join(b.dir, "cli_mbi.bin")
    cfg_path = os.path.join(b.dir, "cli_cfg.yaml")
    with open(cfg_path, "w", encoding="utf-8") as f:
        yaml.safe_dump(cfg, f, sort_keys=False)
    runner = CliRunner()
    r = runner.invoke(nxpimage.main, ["mbi", "export", "-c", cfg_path], catch_exceptions=True)
    if r.exit_code != 0 or not os.path.exists(cfg["masterBootOutputFile"]):
        viol("cli-export-failed", exit_code=r.exit_code, output=(r.output or "")[-300:], exception=repr(r.exception)[:200])
        return
    with open(cfg["masterBootOutputFile"], "rb") as f:
        cli_data = f.read()
    iv_random = b.opts.get("iv", 0) is None
    if not iv_random and not _eq_outside(cli_data, data, _sig_field(b, data, rep) + _isk_dependent(b, data, rep)):
        viol("cli-export-differs-from-api", first_diff=_first_diff(cli_data, data))
        return
    if ambiguity(b) is not None:
        ctx.count("cli_roundtrips")
        return
    out_dir = os.path.join(b.dir, "cli_parsed")
    args = ["mbi", "parse", "-f", b.family, "-b", cfg["masterBootOutputFile"], "-o", out_dir]
    if b.revision != "latest":
        args += ["-r", b.revision]
    if b.dek:
        args += ["-k", b.dek]
    r = runner.invoke(nxpimage.main, args, catch_exceptions=True)
    if r.exit_code != 0:
        viol("cli-parse-failed", exit_code=r.exit_code, output=(r.output or "")[-300:], exception=repr(r.exception)[:200])
        return
    app_file = os.path.join(out_dir, "application.bin")
    if not os.path.exists(app_file):
        viol("cli-parse-no-application", listing=sorted(os.listdir(out_dir))[:10])
        return
    with open(app_file, "rb") as f:
        got = f.read()
    if not _eq_outside(got, want_app, dontcare):
        viol("cli-parse-payload-differs", got_len=len(got), want_len=len(want_app), first_diff=_first_diff(got, want_app))
        return
    # the configuration the tool WRITES is the one the API hands out for the same image: a setting that is missing or
    # different in the file is lost for whoever builds from it again
    api_cfg = getattr(b, "api_config", None)
    written_path = os.path.join(out_dir, "mbi_config.yaml")
    if api_cfg is not None and os.path.exists(written_path):
        with open(written_path, encoding="utf-8") as f:
            written = yaml.safe_load(f) or {}
        ctx.count("cli_written_configs_compared")
        for key, val in api_cfg.items():
            if isinstance(val, (bool, int)) or (isinstance(val, str) and not os.path.sep in val and not val.endswith((".bin", ".yaml", ".yml"))):
                if key not in written:
                    viol(f"cli-written-configuration-omits-setting:{key}", api_value=val, keys_written=sorted(written)[:40])
                    return
                if str(written[key]) != str(val) and _num(written[key]) != _num(val):
                    viol(f"cli-written-configuration-setting-differs:{key}", api_value=val, written=written[key])
                    return
    ctx.count("cli_roundtrips")
