"""C18 - database cache: no crash point or concurrent start can break or skew SPSDK.

Runtime monitoring with real processes.  Every judged observation comes from a child interpreter
(``c18_child.py``) started with ``SPSDK_CACHE_FOLDER`` pointing at a folder prepared by the case:

* crash points    - a writer child is killed (a) by ``strace -f -P <cache file> -e trace=write -e
                    inject=write:signal=SIGKILL:when=K`` at its K-th write syscall to the quick-info cache
                    / the data cache, (b) by an audit-hook failpoint right before its k-th audited event
                    (open / os.remove / os.mkdir / flock) inside the cache folder; then a fresh child must
                    start normally, answer the query set like the reference and leave valid cache files.
* prefixes        - every byte-length prefix of both cache files is driven in-process through the real
                    loaders (``DatabaseManager()`` -> ``_get_quick_info_db``; ``Database()`` ->
                    ``DatabaseData.__init__`` + ``make_cache``) in batch children; a stratified sample is
                    re-run as real children; plus missing / empty / wrong type / stale states.
* schedules       - N in {2,4,8,16} children released by a barrier on a cold / damaged / stale / concurrently
                    cleared folder, perturbed by a seeded stall scheduler (random quanta, systematic hold of
                    child i at its k-th event, rendezvous at an event class); the global event order of every
                    run is logged and its signature recorded.

The reference digest comes from a child with a private fresh cache folder (a complete load); the
environment switch SPSDK_CACHE_DISABLED is never set.

Mechanism keys (decided from where / what was raised or which answer differs, never from random values):
  quick-cache-eoferror-escapes / data-cache-eoferror-escapes   EOFError from pickle.load of an empty or frame-boundary
                                                               truncated file is not in the loader's except tuple
  data-cache-remove-race-filenotfound        `if exists(f): os.remove(f)` in the error handler of DatabaseData.__init__
  quick-cache-wrong-type-assertion-escapes   `assert isinstance(loaded_db, QuickDatabase)` outside the caught types
  data-cache-rejected-object-still-used      the handler removes the file but keeps `loaded_db_data` (AttributeError)
  stale-data-cache-trusted-after-cached-file-vanished   same handler: a cache rejected because a cached file vanished
                                                        is still used, edited files are answered from the stale copy
  data-cache-trusts-stale-defaults-file      the data-cache fingerprint does not cover database_defaults.yaml
  stale-cache-trusted:<kind>:<parts> / answers-skewed:<parts> / truncated-cache-trusted:<Q|D>   digest differs
  damaged-cache-left-behind:<Q|D>            after a normal start the file is still damaged / not trustworthy
  lock-stuck-with-no-live-holder             filelock.Timeout in a process that is alone on the folder
  escape:<Type>@<function>, child-exit-<rc>-without-report, cli-*   anything else
"""
from __future__ import annotations

import hashlib
import json
import os
import pickle
import random
import re
import shutil
import signal
import subprocess
import time

from vf import core

ID = "C18"
LEVEL = "fault_enumeration"
TECHNIQUE = (
    "runtime monitoring of real child interpreters: kill-at-syscall (strace inject) and audit-hook failpoints, "
    "every-prefix fault enumeration through the real loaders, barrier-released concurrent starts under a seeded "
    "stall/hold/rendezvous scheduler with a global event log; oracle = exit status + query digest vs. a "
    "fresh-cache reference + validity of the cache files left behind"
)
RULE = (
    "crash points: K = 1..W write syscalls per cache file (W found by the run that is not killed any more) and every "
    "audited cache-folder event of a cold start; prefixes: quick tier a stratified sample (0..64, every pickle frame "
    "boundary -1/0/+1/+9, last 64, seeded random rest), thorough tier every length 0..len of both files; states "
    "missing/empty/only-locks/wrong-type/swapped/stale (mtime bump, same-size content edit of a device file, a cached "
    "config file, the defaults file); schedules: N x state x plan (random quanta, hold(i,k), rendezvous(event class)). "
    "A case signature is (workload, file, damage class / N, state, plan); non-trivial = a child really ran on the "
    "prepared state and was judged."
)
ASSUMPTIONS = [
    "the cache-disabled answers are represented by a child that starts on a private empty cache folder (complete load); "
    "SPSDK_CACHE_DISABLED itself is never set because it rmtree's the folder",
    "log lines on stderr are not judged; only exit status, escaping exceptions, query digests and the files left behind",
    "filelock.Timeout (10 s wall-clock lock wait) is judged only where no live process can hold the lock "
    "(a single child after the writer was killed); elsewhere it is counted, not judged",
    "order of lists that SPSDK builds from a set (mem_types) is unspecified and canonicalised before hashing",
    "'all interleavings' is restated as: the interleavings actually driven, counted by distinct global event-order signatures",
    "in-process prefix cases keep the fully loaded Database object and memoise the defaults file; a stratified sample "
    "is re-run as real processes to show the shortcut hides nothing",
    "an absent cache file after a normal start is a cold cache (recorded, not judged); lock discipline (cache files "
    "opened while a cache lock is held) is recorded per open as cache_file_opens_* and not judged - the property is "
    "about outcomes",
    "'stale' = a data folder (standard, restricted-data, add-ons) changed after the cache was written: mtime bump (7 s, or "
    "0.4 s inside the same second), same-size content edit, a cached file removed; an edit that leaves size AND nanosecond "
    "modification time unchanged is not generated; changes of the data folder WHILE processes run are out of scope",
    "a valid pickle of the wrong type is treated as one more damaged state (DESIGN.md C18); it cannot be produced by a kill",
]
REQUIRED_COUNTERS = ["crash_points", "prefixes_in_process", "prefixes_real", "schedules", "children_judged", "folder_checks", "midlife_children"]
CASE_TIMEOUT_S = 900
WATCHDOG_S = {"quick": 1500, "thorough": 7200}
MAX_JOBS = 16

PY = "/venv/bin/python"
HERE = os.path.dirname(os.path.abspath(__file__))
CHILD = os.path.join(HERE, "c18_child.py")
CHILD_TIMEOUT_S = 150
KMAX_WRITE = {"Q": 4, "D": 12}
KMAX_AUDIT = {"cold": 56, "both-mid": 72}
KMAX_HOLD = 60
META_TAGS = ("HOLD", "HOLD-IN-LOCK", "RELEASE", "RDV-WAIT", "RDV-GO", "EXIT", "DIED", "KILL-BEFORE", "HOOK-ERROR")

RDV_POINTS = [
    ["os.remove", "D"], ["open:w", "D"], ["open:r", "D"], ["open:w", "Q"], ["open:r", "Q"],
    ["fcntl.flock:EX", "D.lock"], ["fcntl.flock:EX", "Q.lock"], ["fcntl.flock:UN", "D.lock"],
]
SCHED_STATES = ["cold", "nofolder", "Q-empty", "Q-frame", "Q-mid", "D-empty", "D-half", "D-frame", "both-mid",
                "wrongtype", "valid", "clearing-cold", "clearing-warm", "stale"]
SPECIAL_STATES = ["nofolder", "empty-folder", "only-locks", "missing-Q", "missing-D", "empty-Q", "empty-D", "empty-both",
                  "no-locks-trunc", "wrongtype-Q", "wrongtype-D", "swapped", "wrongclass-Q", "wrongclass-D"]
STALE_KINDS = ["touch-device-yaml", "edit-device-yaml", "touch-cfg-file", "edit-cfg-file", "touch-defaults", "edit-defaults",
               "edit-cfg-file+cached-file-vanished", "edit-cfg-file+other-process-first", "edit-device-yaml+other-process-first",
               # the edit lands inside the same wall-clock second as the previous modification (a script that generates data,
               # runs SPSDK, patches a value, runs SPSDK again)
               "edit-cfg-file~same-second", "edit-device-yaml~same-second", "edit-defaults~same-second",
               # the other data folders a cache covers: a device that exists only in the restricted-data folder, and the
               # add-ons overlay of a standard device
               "edit-restricted-device-yaml", "edit-addons-device-yaml"]

_S: dict = {}


# ============================================================================================
# cases
def cases(tier, seed):  # noqa: C901
    thorough = tier == "thorough"
    out: list[dict] = []
    out.append({"kind": "warm"})
    for k in range(1, KMAX_WRITE["Q"] + 1):
        out.append({"kind": "crash_write", "file": "Q", "k": k})
    for k in range(1, KMAX_WRITE["D"] + 1):
        out.append({"kind": "crash_write", "file": "D", "k": k})
    for k in range(1, KMAX_AUDIT["cold"] + 1):
        out.append({"kind": "crash_audit", "state": "cold", "k": k})
    if thorough:  # killed while recovering from a damaged folder
        for k in range(1, KMAX_AUDIT["both-mid"] + 1):
            out.append({"kind": "crash_audit", "state": "both-mid", "k": k})
    nbq, nbd = (64, 48) if thorough else (10, 6)
    for b in range(nbq):
        out.append({"kind": "prefix_inproc", "which": "Q", "b": b, "of": nbq})
    for b in range(nbd):
        out.append({"kind": "prefix_inproc", "which": "D", "b": b, "of": nbd})
    nrq, nrd = (340, 260) if thorough else (22, 18)
    for j in range(nrq):
        out.append({"kind": "prefix_real", "which": "Q", "j": j})
    for j in range(nrd):
        out.append({"kind": "prefix_real", "which": "D", "j": j})
    for name in SPECIAL_STATES:
        out.append({"kind": "state", "name": name})
    for name in STALE_KINDS:
        out.append({"kind": "stale", "name": name})
    for order in ("RPRP", "PRP"):
        out.append({"kind": "switch", "order": order})
    for st in (["valid", "cold", "empty-Q", "D-half"] if thorough else ["valid", "empty-Q"]):
        out.append({"kind": "cli", "state": st})
    for which in ("D", "Q", "DQ"):
        for how in MIDLIFE_DAMAGE:
            out.append({"kind": "midlife", "which": which, "how": how})
    out.extend(_sched_cases(thorough, seed))
    # spread the heavy kinds over the shards: deterministic shuffle
    random.Random(f"{seed}/C18/order").shuffle(out)
    return out


def _sched_cases(thorough: bool, seed: int) -> list[dict]:
    rng = random.Random(f"{seed}/C18/sched")
    out: list[dict] = []
    # directed: the schedules that widen the check-then-remove window of the data-cache error handler
    for n, st in ([(8, "D-half"), (4, "D-half"), (8, "both-mid"), (16, "D-half"), (2, "D-half")] if thorough else [(8, "D-half"), (4, "D-half")]):
        out.append({"kind": "sched", "n": n, "state": st, "plan": "rendezvous", "at": ["os.remove", "D"], "s": 0})
    # the start itself: N processes released before they import the package, on a cache folder that does not exist yet (they
    # meet right before the first mkdir of the folder, wherever the tree does it) or is cold / damaged
    for n in ((2, 4, 8, 16) if thorough else (2, 8, 16)):
        out.append({"kind": "sched", "n": n, "state": "nofolder", "plan": "rendezvous", "at": ["os.mkdir", "."], "early": True, "s": n})
    for j, st in enumerate(SCHED_STATES if thorough else ["nofolder", "cold", "D-half", "Q-mid"]):
        out.append({"kind": "sched", "n": [2, 4, 8][j % 3], "state": st, "plan": "random", "quanta": [0, 0, 1, 5], "early": True,
                    "s": rng.randrange(1 << 30)})
    # one process sits inside the locked region for 2.5 s with the cache file open for writing (still empty or half written);
    # the others start meanwhile and wait for the lock
    # (the hook runs before the operation: at 'open:w' the old file is still there, at the unlock the new one is complete)
    for j, (at, st) in enumerate([(["fcntl.flock:UN", "Q.lock"], "cold"), (["open:w", "Q"], "Q-mid"), (["fcntl.flock:UN", "D.lock"], "D-half"),
                                  (["open:w", "D"], "D-half"), (["fcntl.flock:UN", "D.lock"], "cold"), (["open:w", "Q"], "Q-empty")]
                                 if thorough else [(["fcntl.flock:UN", "Q.lock"], "cold"), (["open:w", "Q"], "Q-mid"), (["fcntl.flock:UN", "D.lock"], "D-half")]):
        out.append({"kind": "sched", "n": 4, "state": st, "plan": "stall_at", "at": at, "ms": 2500, "s": j})
    n_rand, n_rdv, n_hold, n_ws = (330, 160, 0, 60) if thorough else (30, 14, 8, 6)
    for j in range(n_ws):
        out.append({"kind": "sched", "n": rng.choice([2, 3, 4]), "state": rng.choice(["cold", "valid", "D-half", "Q-mid", "both-mid", "D-frame", "clearing-warm"]),
                    "plan": "wstall", "delay_us": rng.choice([3000, 20000, 60000]), "s": rng.randrange(1 << 30)})
    for j in range(n_rand):
        n = [2, 4, 8, 16, 2, 4, 8, 4][j % 8]
        st = SCHED_STATES[j % len(SCHED_STATES)] if j < 2 * len(SCHED_STATES) else rng.choice(SCHED_STATES)
        quanta = rng.choice([[0, 1, 5, 50], [0, 0, 0, 1, 5, 50], [0, 50, 120], [0, 1, 5, 50, 120], [0, 0, 5], [0, 5, 120, 250]])
        out.append({"kind": "sched", "n": n, "state": st, "plan": "random", "quanta": quanta, "s": rng.randrange(1 << 30)})
    for j in range(n_rdv):
        n = rng.choice([2, 4, 4, 8, 8, 16])
        st = rng.choice(["cold", "Q-empty", "Q-mid", "D-empty", "D-half", "D-frame", "both-mid", "wrongtype", "stale", "clearing-warm"])
        out.append({"kind": "sched", "n": n, "state": st, "plan": "rendezvous", "at": RDV_POINTS[j % len(RDV_POINTS)],
                    "s": rng.randrange(1 << 30)})
    if thorough:  # the full systematic sweep: child i <= 2 held at its k-th event until all others finished
        for st, n in (("cold", 3), ("D-half", 4), ("both-mid", 3)):
            for who in range(3):
                for k in range(1, KMAX_HOLD + 1):
                    out.append({"kind": "sched", "n": n, "state": st, "plan": "hold", "who": who, "k": k, "s": 0})
    else:
        for j in range(n_hold):
            out.append({"kind": "sched", "n": rng.choice([2, 4]), "state": rng.choice(["cold", "D-half", "both-mid", "Q-mid"]),
                        "plan": "hold", "who": rng.randrange(2), "k": rng.randrange(1, 30), "s": 0})
    return out


# ============================================================================================
# plumbing: children
def _env(cache: str, data: str | None = None) -> dict:
    env = {k: v for k, v in os.environ.items() if not k.startswith("SPSDK_") or k == core.GUARD}
    env.update({
        "PYTHONPATH": f"{core.repo_root()}:{core.VERIF_ROOT}",
        "VERIF_REPO": core.repo_root(),
        "SPSDK_CACHE_FOLDER": cache,
        "SPSDK_DEBUG_LOGGING_DISABLED": "1",
        "PYTHONHASHSEED": "0",
        "PYTHONDONTWRITEBYTECODE": "1",
    })
    if data:
        env["SPSDK_DATA_FOLDER"] = data
    env.update(_S.get("extra_env") or {})  # restricted-data / add-ons folder of the stale cases that use one
    return env


_SEQ = [0]


def _spawn(cfg: dict, cache: str, wdir: str, data: str | None = None, wrapper: list | None = None):
    _SEQ[0] += 1
    base = os.path.join(wdir, f"c{_SEQ[0]}")
    cfg = dict(cfg, out=base + ".out.json")
    with open(base + ".cfg.json", "w", encoding="utf-8") as f:
        json.dump(cfg, f)
    errf = open(base + ".stderr", "wb")  # noqa: SIM115
    p = subprocess.Popen((wrapper or []) + [PY, CHILD, base + ".cfg.json"], env=_env(cache, data), cwd=wdir,
                         stdout=subprocess.DEVNULL, stderr=errf, start_new_session=True)
    errf.close()
    return p, base


def _reap(p, base: str, timeout: float = CHILD_TIMEOUT_S) -> dict:
    try:
        p.wait(timeout=timeout)
    except subprocess.TimeoutExpired:
        try:
            os.killpg(p.pid, signal.SIGKILL)
        except OSError:
            pass
        p.wait()
        raise core.Inconclusive(f"child {os.path.basename(base)} hit the wall-clock timeout ({timeout}s)") from None
    res: dict = {"rc": p.returncode, "out": None, "err": None, "base": base}
    if os.path.exists(base + ".out.json"):
        with open(base + ".out.json", encoding="utf-8") as f:
            res["out"] = json.load(f)
    if os.path.exists(base + ".out.json.err"):
        with open(base + ".out.json.err", encoding="utf-8") as f:
            res["err"] = json.load(f)
    if p.returncode == 97:
        with open(base + ".stderr", "rb") as f:
            raise core.Inconclusive("child harness problem: " + f.read()[-300:].decode(errors="replace"))
    return res


def _run(cfg: dict, cache: str, wdir: str, data: str | None = None, wrapper: list | None = None,
         timeout: float = CHILD_TIMEOUT_S) -> dict:
    p, base = _spawn(cfg, cache, wdir, data, wrapper)
    return _reap(p, base, timeout)


def _stderr_tail(res: dict, n: int = 500) -> str:
    try:
        with open(res["base"] + ".stderr", "rb") as f:
            return f.read()[-n:].decode(errors="replace")
    except OSError:
        return ""


# ============================================================================================
# reference + prepared folders
def _names(cache: str) -> tuple[str, str]:
    # the two cache files are known by their prefixes; whatever follows the version part (".cache", ".cache.gz" ...) is the
    # tree's business
    q = [f for f in os.listdir(cache) if f.startswith("db_quick_info_") and not f.endswith(".lock")]
    d = [f for f in os.listdir(cache) if f.startswith("db_data_") and not f.endswith(".lock")]
    if len(q) != 1 or len(d) != 1:
        raise core.Inconclusive(f"unexpected cache folder content: {sorted(os.listdir(cache))}")
    return q[0], d[0]


def _mkdir(*parts: str) -> str:
    p = os.path.join(*parts)
    os.makedirs(p, exist_ok=True)
    return p


def _read(path: str) -> bytes:
    with open(path, "rb") as f:
        return f.read()


def _write(path: str, data: bytes) -> None:
    with open(path, "wb") as f:
        f.write(data)


def _reference(ctx, data: str | None = None, key: str = "ref", queries: str = "full") -> dict:
    """Reference answers: a child on a private fresh cache folder (complete load), plus the valid files it leaves."""
    ck = (key, queries)
    if ck in _S:
        return _S[ck]
    wdir = _mkdir(ctx.workdir, f"{key}-{queries}")
    cache = os.path.join(wdir, "cache")
    shutil.rmtree(cache, ignore_errors=True)
    os.makedirs(cache)
    r = _run({"mode": "digest", "queries": queries}, cache, wdir, data)
    if r["rc"] != 0 or not r["out"]:
        raise core.Inconclusive(f"reference child failed on a fresh cache folder: rc={r['rc']} {r['err'] or _stderr_tail(r)}")
    qn, dn = _names(cache)
    ref = {"digest": r["out"]["digest"], "parts": r["out"]["parts"], "events": r["out"]["events"], "qn": qn, "dn": dn,
           "Q": _read(os.path.join(cache, qn)), "D": _read(os.path.join(cache, dn)), "cache": cache, "data": data,
           "queries": queries}
    _S[ck] = ref
    return ref


def frame_boundaries(blob: bytes) -> list[int]:
    """Offsets at which a protocol-4 pickle starts a frame (= where the C pickler ends a write syscall)."""
    out = []
    pos = 2 if blob[:1] == b"\x80" else 0
    while pos < len(blob) and blob[pos] == 0x95 and pos + 9 <= len(blob):
        out.append(pos)
        pos += 9 + int.from_bytes(blob[pos + 1:pos + 9], "little")
    return out


def _class_of_len(blob: bytes, ln: int) -> str:
    if ln == 0:
        return "empty"
    if ln >= len(blob):
        return "complete"
    fb = frame_boundaries(blob)
    if ln in fb:
        return "frame-boundary"
    if any(0 < ln - b < 9 for b in fb):
        return "in-frame-header"
    if ln < 2:
        return "in-proto"
    return "mid-frame"


def _file_class(path: str, valid: bytes) -> str:
    if not os.path.exists(path):
        return "missing"
    b = _read(path)
    if b == valid:
        return "valid"
    if valid.startswith(b):
        return _class_of_len(valid, len(b))
    return "other"


def _prep(ctx, tag: str, ref: dict, q="valid", d="valid", locks: bool = True, folder: bool = True) -> tuple[str, str]:
    """Create <workdir>/<tag>/cache in the given state.  q / d: 'valid' | 'missing' | int prefix length | bytes."""
    wdir = _mkdir(ctx.workdir, tag)
    _S.setdefault("tmpdirs", []).append(wdir)
    cache = os.path.join(wdir, "cache")
    shutil.rmtree(cache, ignore_errors=True)
    if not folder:
        return wdir, cache
    os.makedirs(cache)
    for st, name, valid in ((q, ref["qn"], ref["Q"]), (d, ref["dn"], ref["D"])):
        if st == "missing":
            continue
        blob = valid if st == "valid" else (valid[:st] if isinstance(st, int) else st)
        _write(os.path.join(cache, name), blob)
        if locks:
            _write(os.path.join(cache, name + ".lock"), b"")
    return wdir, cache


def _state_spec(ctx, ref: dict, state: str, rng) -> dict:
    """Folder state classes used by the schedule / crash workloads -> kwargs for _prep."""
    q, d = ref["Q"], ref["D"]
    fq, fd = frame_boundaries(q), frame_boundaries(d)
    mid = lambda b: rng.randrange(11, len(b) - 1)  # noqa: E731
    if state in ("cold", "clearing-cold"):
        return {"q": "missing", "d": "missing"}
    if state == "nofolder":
        return {"folder": False}
    if state in ("valid", "clearing-warm", "stale"):
        return {}
    if state == "Q-empty":
        return {"q": 0}
    if state == "Q-frame":
        return {"q": fq[-1] if len(fq) > 1 else 2}
    if state == "Q-mid":
        return {"q": mid(q)}
    if state == "D-empty":
        return {"d": 0}
    if state == "D-half":
        return {"d": len(d) // 2}
    if state == "D-frame":
        return {"d": fd[-1] if len(fd) > 1 else 2}
    if state == "both-mid":
        return {"q": mid(q), "d": mid(d)}
    if state == "wrongtype":
        return {"q": pickle.dumps({"not": "a quick database"}, 4), "d": pickle.dumps(["not", "database", "data"], 4)}
    raise core.Inconclusive(f"unknown state {state}")


# ============================================================================================
# judging
def _escape_mechanism(err: dict) -> str:
    """Mechanism key of an exception that escaped a child, decided from where and what was raised."""
    t = err.get("type", "?")
    fn = (err.get("where") or "").split(":")[-1]
    line = err.get("line") or ""
    if t == "EOFError" and "pickle.load" in line:
        if fn == "_get_quick_info_db":
            return "quick-cache-eoferror-escapes"
        if fn == "__init__":
            return "data-cache-eoferror-escapes"
        return f"cache-eoferror-escapes@{fn}"
    if t == "FileNotFoundError" and "os.remove" in line and fn == "__init__":
        return "data-cache-remove-race-filenotfound"
    if t == "AssertionError" and fn == "_get_quick_info_db" and "isinstance" in line:
        return "quick-cache-wrong-type-assertion-escapes"
    if t == "AttributeError" and fn == "__init__" and "loaded_db_data." in line:
        return "data-cache-rejected-object-still-used"
    if t == "Timeout":
        return "lock-timeout"
    return f"escape:{t}@{fn or 'unknown'}"


def _judge_child(ctx, res: dict, ref: dict, what: dict, alone: bool = True) -> bool:
    """One child: must exit 0 and give the reference digest.  Returns True when it agreed."""
    ctx.count("children_judged")
    if res["rc"] == 0 and res["out"] and "digest" in res["out"]:
        if res["out"]["digest"] == ref["digest"]:
            return True
        diff = sorted(k for k in ref["parts"] if res["out"]["parts"].get(k) != ref["parts"][k])
        st = str(what.get("state", ""))
        if st.startswith("stale:edit-defaults") and set(diff) <= {"defaults", "get_db"}:
            mech = "data-cache-trusts-stale-defaults-file"
        elif st.endswith("+cached-file-vanished") and set(diff) <= {"schemas", "schemas_again", "cfg_files"}:
            mech = "stale-data-cache-trusted-after-cached-file-vanished"
        elif st.startswith("stale:"):
            mech = f"stale-cache-trusted:{st[6:]}:{'+'.join(diff)}"
        else:
            mech = f"answers-skewed:{'+'.join(diff)}"
        ctx.violation(mech, {"what": what, "parts_differing": diff, "observed": res["out"]["parts"], "reference": ref["parts"]})
        return False
    err = res["err"]
    if err:
        mech = _escape_mechanism(err)
        stalled = isinstance(what.get("plan"), dict) and what["plan"].get("plan") == "stall_at"
        if mech == "lock-timeout" and stalled:
            # the only process in the way held the lock for 2.5 s, a quarter of the lock time-out: giving up on it is a start
            # that failed
            mech = "lock-wait-gives-up-while-another-process-stores-the-cache"
        if mech == "lock-timeout" and not alone:
            ctx.count("lock_timeouts_not_judged")
            ctx.note("lock_timeout_not_judged", what)
            return False
        if mech == "lock-timeout":
            mech = "lock-stuck-with-no-live-holder"
        ctx.violation(mech, {"what": what, "exit": res["rc"], "exception": f"{err['type']}: {err['msg']}",
                             "raised_at": f"{err['where']}:{err.get('lineno')}: {err['line']}", "traceback": err["tb"][-900:]})
        return False
    ctx.violation(f"child-exit-{res['rc']}-without-report", {"what": what, "stderr": _stderr_tail(res)})
    return False


def _truth(path: str) -> str:
    """Digest of what the database answers for a data file with no cache involved (memoised per file state)."""
    from spsdk.utils.misc import load_configuration

    from vf.props import c18_child

    key = ("truth", path, hashlib.sha1(_read(path)).hexdigest())
    if key not in _S:
        _S[key] = c18_child.h(load_configuration(path))
    return _S[key]


def _check_folder(ctx, cache: str, ref: dict, what: dict) -> bool:
    """The files left behind: present (unless cleared concurrently), valid, right type, matching fingerprint,
    content equal to the data files.  A damaged or untrustworthy file still there = violation."""
    from spsdk.utils import database as D

    from vf.props import c18_child

    ctx.count("folder_checks")
    ok = True
    data = ref["data"] or os.path.join(core.repo_root(), "spsdk", "data")
    qp, dp = os.path.join(cache, ref["qn"]), os.path.join(cache, ref["dn"])
    for which, path in (("Q", qp), ("D", dp)):
        if not os.path.exists(path):
            # an absent cache is a cold cache: harmless, so it is recorded but not judged
            ctx.count("cache_file_absent_after_start")
            ctx.note("cache_file_absent_after_start", {"file": which, "state": str(what.get("state"))[:60]})
            continue
        blob = _read(path)
        problem = None
        try:
            o = pickle.loads(blob)
        except Exception as e:  # pylint: disable=broad-except
            problem = f"does not unpickle: {type(e).__name__}: {str(e)[:80]}"
            o = None
        if o is not None and which == "Q":
            rk = ("refq", hashlib.sha1(ref["Q"]).hexdigest())
            if rk not in _S:
                _S[rk] = pickle.loads(ref["Q"])
            ro = _S[rk]
            if not isinstance(o, D.QuickDatabase):
                problem = f"wrong type {type(o).__name__}"
            elif o.db_hash != ro.db_hash:
                problem = "stored fingerprint is not the current one"
            elif blob != ref["Q"] and c18_child.h(c18_child.quick_info_form(o)) != ref["parts"]["quick_info"]:
                problem = "content differs from a complete load"
        elif o is not None:
            if not isinstance(o, D.Database.DatabaseData):
                problem = f"wrong type {type(o).__name__}"
            else:
                try:
                    want = D.Database.DatabaseData.hash_db_data(list(o.cfg_cache.keys()), o.path, o.restricted_data_path, o.addons_data_path)
                except OSError as e:
                    want, problem = None, f"fingerprint cannot be recomputed: {e}"
                if want is not None and o.db_hash != want:
                    problem = "stored fingerprint does not match the data files"
                elif want is not None:
                    bad = [os.path.basename(k) for k, v in o.cfg_cache.items() if c18_child.h(v) != _truth(k)]
                    if bad:
                        problem = f"cached entries differ from the data files: {bad[:4]}"
                    elif os.path.abspath(o.path) != os.path.abspath(data):
                        problem = f"cache belongs to another data folder {o.path}"
                    elif c18_child.h(o.defaults) != _truth(os.path.join(data, "common", "database_defaults.yaml")):
                        problem = "cached defaults differ from the defaults file"
        if problem:
            ok = False
            cls = _file_class(path, ref[which])
            if problem == "cached defaults differ from the defaults file" and str(what.get("state", "")).startswith("stale:edit-defaults"):
                mech = "data-cache-trusts-stale-defaults-file"
            else:
                mech = f"damaged-cache-left-behind:{which}"
            ctx.violation(mech, {"what": what, "problem": problem, "size": len(blob), "file_class": cls})
    return ok


def _after(ctx, cache: str, wdir: str, ref: dict, what: dict, data: str | None = None) -> bool:
    """A fresh, uninstrumented child on the folder as it was left + the validity of the files afterwards."""
    r = _run({"mode": "digest", "queries": ref["queries"]}, cache, wdir, data)
    ok = _judge_child(ctx, r, ref, dict(what, stage="fresh child afterwards"), alone=True)
    if ok:
        ok = _check_folder(ctx, cache, ref, dict(what, stage="files after the fresh child"))
    return ok


# ============================================================================================
# workloads
MIDLIFE_DAMAGE = ["empty", "two", "frame", "half", "in-header", "garbage", "wrongtype", "removed"]


def _midlife_files(ctx) -> tuple[list[str], list[str]]:
    """(files loaded before the damage, files first asked for after it): data files of devices outside the reference
    sample, so that they are not in the prepared cache and every request re-reads and merges the on-disk cache."""
    data = os.path.join(core.repo_root(), "spsdk", "data", "devices")
    cand = []
    for dev in sorted(os.listdir(data)):
        ddir = os.path.join(data, dev)
        if not os.path.isdir(ddir):
            continue
        fs = sorted(f for f in os.listdir(ddir) if f.endswith((".json", ".yaml")) and f != "database.yaml"
                    and os.path.getsize(os.path.join(ddir, f)) < 200_000)
        if len(fs) >= 2:
            cand.append(os.path.join(ddir, fs[-1]))
    cand = cand[1::3]
    if len(cand) < 6:
        raise core.Inconclusive("too few data files for the mid-life workload")
    return cand[:2], cand[2:6]


def _case_midlife(case, ctx):
    """The cache is damaged while a process that started on a valid cache is still running."""
    ref = _reference(ctx)
    first, extra = _midlife_files(ctx)
    if "midlife-ref" not in _S:
        wdir, cache = _prep(ctx, "midlife-ref", ref)
        r0 = _run({"mode": "midlife", "queries": "full", "first_files": first, "extra_files": extra, "damage": {}}, cache, wdir)
        if r0["rc"] != 0 or not r0["out"] or r0["out"]["digest"] != ref["digest"]:
            raise core.Inconclusive(f"mid-life reference child failed: rc={r0['rc']} {r0['err'] or _stderr_tail(r0)}")
        _S["midlife-ref"] = r0["out"]["extra"]
    which, how = case["which"], case["how"]
    dmg = {}
    for w in which:
        blob = ref[w]
        fb = frame_boundaries(blob)
        dmg[w] = {"empty": 0, "two": 2, "frame": (fb[1] if len(fb) > 1 else fb[0] if fb else 2), "half": len(blob) // 2,
                  "in-header": (fb[-1] + 4 if fb else 5)}.get(how, how)
    wdir, cache = _prep(ctx, f"midlife-{which}-{how}", ref)
    what = {"state": f"running process; cache file(s) {which} damaged afterwards: {how}", "damage": dmg}
    r = _run({"mode": "midlife", "queries": "full", "first_files": first, "extra_files": extra, "damage": dmg}, cache, wdir)
    ctx.count("midlife_children")
    ok = _judge_child(ctx, r, ref, what)
    if ok and r["out"].get("extra") != _S["midlife-ref"]:
        ctx.violation("midlife-data-file-answers-skewed", {"what": what, "observed": r["out"].get("extra"), "reference": _S["midlife-ref"]})
        ok = False
    if ok:
        ok = _after(ctx, cache, wdir, ref, what)
    if ok:
        ctx.ok(["midlife", which, how], sample=what)


def _case_warm(case, ctx):
    ref = _reference(ctx)
    wdir = _mkdir(ctx.workdir, "warm")
    r = _run({"mode": "digest", "queries": "full"}, ref["cache"], wdir)
    ok = _judge_child(ctx, r, ref, {"state": "valid cache (the reference child's own folder)"})
    wdir, cache = _prep(ctx, "warm2", ref)
    r2 = _run({"mode": "digest", "queries": "full"}, cache, wdir)
    ok &= _judge_child(ctx, r2, ref, {"state": "valid cache files copied into another folder"})
    ok &= _check_folder(ctx, cache, ref, {"state": "valid"})
    if _read(os.path.join(cache, ref["qn"])) != ref["Q"]:
        ctx.note("valid_quick_cache_rewritten", True)
    if ok:
        ctx.ok(["warm", "valid cache answers like a complete load"], n=2, sample={"digest": ref["digest"][:16], "parts": ref["parts"]})


def _case_crash_write(case, ctx):
    ref = _reference(ctx)
    which, k = case["file"], case["k"]
    # the writer of the data cache starts with a valid quick-info cache (it only has to write D)
    wdir, cache = _prep(ctx, f"cw{which}{k}", ref, q="missing" if which == "Q" else "valid", d="missing")
    target = os.path.join(cache, ref["qn"] if which == "Q" else ref["dn"])
    slog = os.path.join(wdir, "strace.txt")
    wrapper = ["strace", "-f", "-qq", "-o", slog, "-P", target, "-e", "trace=write", "-e", f"inject=write:signal=SIGKILL:when={k}"]
    r = _run({"mode": "digest", "queries": "full"}, cache, wdir, wrapper=wrapper)
    writes = 0
    if os.path.exists(slog):
        with open(slog, errors="replace") as f:
            writes = sum(1 for ln in f if " write(" in ln)
    killed = r["rc"] in (-9, 137) and r["out"] is None
    if not killed:
        # K is beyond the last write: the run counts W and is judged as an ordinary start
        if r["rc"] != 0 and r["err"] is None:
            raise core.Inconclusive(f"strace run ended rc={r['rc']} without being killed: {_stderr_tail(r)}")
        ctx.note(f"writes_W_{which}", writes)
        if k == KMAX_WRITE[which]:
            ctx.count(f"dry_run_counted_W_{which}")
        if _judge_child(ctx, r, ref, {"state": "cold", "stage": f"writer under strace, not killed (K={k} > W={writes})"}):
            ctx.ok(["crash_write", which, "beyond last write"], nontrivial=False)
        return
    if k == KMAX_WRITE[which]:
        raise core.Inconclusive(f"writer still killed at K={k}: raise KMAX_WRITE[{which}]")
    ctx.count("crash_points")
    ctx.count(f"crash_points_write_{which}")
    qcls = _file_class(os.path.join(cache, ref["qn"]), ref["Q"])
    dcls = "missing" if not os.path.exists(os.path.join(cache, ref["dn"])) else (
        "complete-pickle" if _unpickles(os.path.join(cache, ref["dn"])) else _trunc_class(os.path.join(cache, ref["dn"])))
    what = {"state": f"writer killed by SIGKILL at write syscall #{k} to the {which} cache", "Q": qcls, "D": dcls,
            "size": os.path.getsize(target) if os.path.exists(target) else None}
    ctx.note("crash_state", f"write:{which}:{k}:Q={qcls}:D={dcls}")
    if _after(ctx, cache, wdir, ref, what):
        ctx.ok(["crash_write", which, qcls if which == "Q" else dcls], sample=what)


def _unpickles(path: str) -> bool:
    try:
        pickle.loads(_read(path))
        return True
    except Exception:  # pylint: disable=broad-except
        return False


def _trunc_class(path: str) -> str:
    b = _read(path)
    if not b:
        return "empty"
    pos = 2
    while pos < len(b) and b[pos] == 0x95 and pos + 9 <= len(b):
        pos += 9 + int.from_bytes(b[pos + 1:pos + 9], "little")
    return "frame-boundary" if pos == len(b) else "mid-frame"


def _case_crash_audit(case, ctx):
    ref = _reference(ctx)
    k, state = case["k"], case["state"]
    spec = _state_spec(ctx, ref, state, ctx.rng)
    wdir, cache = _prep(ctx, f"ca{k}", ref, **spec)
    log = os.path.join(wdir, "events.log")
    r = _run({"mode": "digest", "queries": "full", "kill_at": k, "log": log}, cache, wdir)
    killed = r["rc"] == -9 and r["out"] is None
    if not killed:
        if r["out"] and k <= r["out"]["events"]:
            raise core.Inconclusive(f"failpoint {k} did not fire although the child saw {r['out']['events']} events")
        if k == KMAX_AUDIT[state] and r["out"]:
            ctx.note("audited_events_of_a_start", {state: r["out"]["events"]})
        if _judge_child(ctx, r, ref, {"state": state, "stage": f"instrumented start, failpoint {k} beyond the last event"}):
            ctx.ok(["crash_audit", state, "beyond last event"], nontrivial=False)
        return
    if k == KMAX_AUDIT[state]:
        raise core.Inconclusive(f"child still killed at the last failpoint index: raise KMAX_AUDIT[{state}]")
    ev = ""
    with open(log, errors="replace") as f:
        for ln in f:
            if " KILL-BEFORE:" in ln:
                ev = ln.split(" ", 3)[3].strip()
    ctx.count("crash_points")
    ctx.count("crash_points_audit")
    qcls = _file_class(os.path.join(cache, ref["qn"]), ref["Q"]) if os.path.isdir(cache) else "missing"
    dpath = os.path.join(cache, ref["dn"])
    dcls = "missing" if not os.path.exists(dpath) else ("complete-pickle" if _unpickles(dpath) else _trunc_class(dpath))
    what = {"state": f"{state} start killed right before its audited event #{k} ({ev})", "Q": qcls, "D": dcls}
    ctx.note("crash_state", f"audit:{ev}:Q={qcls}:D={dcls}")
    if _after(ctx, cache, wdir, ref, what):
        ctx.ok(["crash_audit", state, ev.replace("KILL-BEFORE:", ""), qcls, dcls], sample=what)


# -- prefixes ------------------------------------------------------------------------------------
def _strata(blob: bytes) -> list[int]:
    n = len(blob)
    s = set(range(0, min(65, n + 1))) | set(range(max(0, n - 64), n + 1))
    for b in frame_boundaries(blob):
        s.update(x for x in (b - 1, b, b + 1, b + 8, b + 9, b + 10) if 0 <= x <= n)
    return sorted(s)


def _inproc_lengths(ctx, which: str, blob: bytes, b: int, of: int) -> list[int]:
    n = len(blob)
    if ctx.tier == "thorough":
        allv = list(range(0, n + 1))
    else:
        target = 2000 if which == "Q" else 1000
        base = _strata(blob)
        rng = random.Random(f"{ctx.seed}/C18/prefix/{which}")
        extra = rng.sample(range(0, n + 1), max(0, target - len(base)))
        allv = sorted(set(base) | set(extra))
    return allv[b::of]


def _probe_file(data: str) -> str:
    return os.path.join(data, "common", "certgen_config.yaml")


def _case_prefix_inproc(case, ctx):
    ref = _reference(ctx)
    which = case["which"]
    blob = ref[which]
    lengths = _inproc_lengths(ctx, which, blob, case["b"], case["of"])
    wdir, cache = _prep(ctx, f"pi{which}{case['b']}", ref, q="missing" if which == "Q" else "valid", d="missing")
    src = os.path.join(wdir, "valid.bin")
    _write(src, blob)
    data = os.path.join(core.repo_root(), "spsdk", "data")
    r = _run({"mode": "prefixes", "which": which, "src": src, "lengths": lengths, "probe_file": _probe_file(data)}, cache, wdir,
             timeout=700)  # a thorough batch is ~20 s of CPU; the machine is shared
    if r["rc"] != 0 or not r["out"]:
        raise core.Inconclusive(f"prefix batch child failed: rc={r['rc']} {r['err'] or _stderr_tail(r)}")
    o = r["out"]
    if o["n"] != len(lengths):
        raise core.Inconclusive("prefix batch child did not run every length")
    ctx.count("prefixes_in_process", o["n"])
    ctx.count(f"prefixes_in_process_{which}", o["n"])
    by_mech: dict[str, list] = {}
    for e in o["escapes"]:
        by_mech.setdefault(_escape_mechanism(e), []).append(e)
    for mech, es in by_mech.items():
        ctx.violation(mech, {"what": f"in-process loader on a {which} cache truncated to these lengths (of {len(blob)})",
                             "lengths": [e["len"] for e in es][:40], "classes": sorted({_class_of_len(blob, e["len"]) for e in es}),
                             "exception": f"{es[0]['type']}: {es[0]['msg']}",
                             "raised_at": f"{es[0]['where']}:{es[0].get('lineno')}: {es[0]['line']}", "traceback": es[0]["tb"][-700:]})
    if o["skew"]:
        ctx.violation(f"truncated-cache-trusted:{which}", {"cases": o["skew"][:10], "n": len(o["skew"])})
    if o["not_replaced"]:
        ctx.violation(f"damaged-cache-left-behind:{which}", {"cases": o["not_replaced"][:10], "n": len(o["not_replaced"])})
    failing = {e["len"] for e in o["escapes"]} | {e["len"] for e in o["skew"]} | {e["len"] for e in o["not_replaced"]}
    by_cls: dict[str, int] = {}
    for ln in lengths:
        if ln not in failing:
            c = _class_of_len(blob, ln)
            by_cls[c] = by_cls.get(c, 0) + 1
    for cls, cnt in sorted(by_cls.items()):
        ctx.ok(["prefix_inproc", which, cls], n=cnt,
               sample={"which": which, "batch": case["b"], "lengths": len(lengths), "outcomes": o["outcomes"]})


def _real_lengths(ctx, which: str, blob: bytes) -> list[int]:
    n = len(blob)
    fb = frame_boundaries(blob)
    lst = [0, 1, 2, 3, n - 1, n - 2]
    for b in fb:
        lst += [b, b - 1, b + 1, b + 9]
    seen, out = set(), []
    for x in lst:
        if 0 <= x < n and x not in seen:
            seen.add(x)
            out.append(x)
    return out


def _case_prefix_real(case, ctx):
    ref = _reference(ctx)
    which, j = case["which"], case["j"]
    blob = ref[which]
    strat = _real_lengths(ctx, which, blob)
    ln = strat[j] if j < len(strat) else ctx.rng.randrange(4, len(blob) - 2)
    cls = _class_of_len(blob, ln)
    wdir, cache = _prep(ctx, f"pr{which}{j}", ref, **({"q": ln} if which == "Q" else {"d": ln}))
    what = {"state": f"{which} cache truncated to {ln} of {len(blob)} bytes ({cls}), other cache valid"}
    r = _run({"mode": "digest", "queries": "full"}, cache, wdir)
    ctx.count("prefixes_real")
    ok = _judge_child(ctx, r, ref, what)
    if ok:
        ok = _check_folder(ctx, cache, ref, dict(what, stage="files after the start"))
    if ok:
        ctx.ok(["prefix_real", which, cls], sample={"which": which, "len": ln, "class": cls})


def _case_state(case, ctx):
    from spsdk.utils import database as D

    ref = _reference(ctx)
    name = case["name"]
    q, d = ref["Q"], ref["D"]
    kw: dict = {}
    if name == "nofolder":
        kw = {"folder": False}
    elif name == "empty-folder":
        kw = {"q": "missing", "d": "missing", "locks": False}
    elif name == "only-locks":
        kw = {"q": b"", "d": b""}  # replaced below: lock files only
    elif name == "missing-Q":
        kw = {"q": "missing"}
    elif name == "missing-D":
        kw = {"d": "missing"}
    elif name == "empty-Q":
        kw = {"q": 0}
    elif name == "empty-D":
        kw = {"d": 0}
    elif name == "empty-both":
        kw = {"q": 0, "d": 0}
    elif name == "no-locks-trunc":
        kw = {"q": len(q) // 3, "d": len(d) // 3, "locks": False}
    elif name == "wrongtype-Q":
        kw = {"q": pickle.dumps({"not": "a quick database"}, 4)}
    elif name == "wrongtype-D":
        kw = {"d": pickle.dumps(["not", "database", "data"], 4)}
    elif name == "swapped":
        kw = {"q": d, "d": q}  # each file is a valid SPSDK cache pickle - of the other kind
    elif name == "wrongclass-Q":
        kw = {"q": pickle.dumps(D.FeaturesQuickData(), 4)}
    elif name == "wrongclass-D":
        kw = {"d": pickle.dumps(D.QuickDatabase(), 4)}
    else:
        raise core.Inconclusive(f"unknown state {name}")
    wdir, cache = _prep(ctx, f"st-{name}", ref, **kw)
    if name == "only-locks":
        os.remove(os.path.join(cache, ref["qn"]))
        os.remove(os.path.join(cache, ref["dn"]))
    what = {"state": name}
    r = _run({"mode": "digest", "queries": "full"}, cache, wdir)
    ctx.count("states_real")
    ok = _judge_child(ctx, r, ref, what)
    if ok:
        ok = _check_folder(ctx, cache, ref, dict(what, stage="files after the start"))
    if ok:
        # and once more on what the first start left behind
        ok = _after(ctx, cache, wdir, ref, dict(what, stage2="second start"))
    if ok:
        ctx.ok(["state", name], sample=what)


# -- stale ---------------------------------------------------------------------------------------
def _scratch_data(ctx) -> str:
    """A private data folder (SPSDK_DATA_FOLDER of the stale children): real directories, the three files the
    stale cases edit are real copies, everything else is a symlink to the tree under test (never written)."""
    if "data" not in _S:
        src = os.path.join(core.repo_root(), "spsdk", "data")
        dst = os.path.join(ctx.workdir, "data")
        shutil.rmtree(dst, ignore_errors=True)
        devs = sorted(os.listdir(os.path.join(src, "devices")))
        sch = sorted(f for f in os.listdir(os.path.join(src, "jsonschemas")) if f.startswith("sch_") and f.endswith(".yaml"))
        real = {os.path.join("common", "database_defaults.yaml"), os.path.join("jsonschemas", sch[0])}
        real |= {os.path.join("devices", d, "database.yaml") for d in devs}  # small files; any of them may be the edit site
        for dp, dn, fn in os.walk(src):
            rel = os.path.relpath(dp, src)
            os.makedirs(os.path.join(dst, rel), exist_ok=True)
            for f in fn:
                r = os.path.normpath(os.path.join(rel, f))
                if r in real:
                    shutil.copy2(os.path.join(dp, f), os.path.join(dst, r))
                else:
                    os.symlink(os.path.join(dp, f), os.path.join(dst, r))
        _S["data"] = dst
    return _S["data"]


def _guard_scratch(ctx_path: str) -> None:
    """Never write through a symlink or into the tree under test."""
    rp = os.path.realpath(ctx_path)
    if os.path.islink(ctx_path) or rp.startswith(os.path.realpath(core.repo_root()) + os.sep):
        raise core.Inconclusive(f"refusing to modify {ctx_path}: it is not a private copy")


def _swap_in_value(text: str, keys=("description", "title")) -> str | None:
    """Swap two adjacent distinct letters inside the first `key: value` line (same size, still valid YAML)."""
    for m in re.finditer(r"^(\s*(?:%s):\s*)(.+)$" % "|".join(keys), text, re.M):
        val = m.group(2)
        for mm in re.finditer(r"(?<=[A-Za-z])([A-Za-z])([A-Za-z])(?=[A-Za-z])", val):
            if mm.group(1) != mm.group(2):
                s = m.start(2) + mm.start()
                return text[:s] + text[s + 1] + text[s] + text[s + 2:]
    return None


def _extra_folder(ctx, which: str, data: str) -> tuple[dict, str]:
    """A restricted-data or add-ons folder next to the scratch data folder -> (environment for the children, the device
    file inside it that the stale case edits).

    restricted: <root>/metadata.yaml (version of the tree under test) + <root>/data/devices/0vf-restricted/ = a device
    that exists ONLY there (a copy of a standard device's file, its other files as symlinks).  add-ons: the overlay
    <root>/devices/<first standard device>/database.yaml replacing that device's ``info`` section."""
    import yaml

    devs = sorted(os.listdir(os.path.join(data, "devices")))
    src_dev = next(d for d in devs if "https://www.nxp.com" in _read(os.path.join(data, "devices", d, "database.yaml")).decode())
    root = os.path.join(ctx.workdir, f"extra-{which}")
    shutil.rmtree(root, ignore_errors=True)
    if which == "restricted":
        core.setup_import_path()
        from spsdk import version

        ddir = os.path.join(root, "data", "devices", "0vf-restricted")
        os.makedirs(ddir)
        _write(os.path.join(root, "metadata.yaml"), f'version: "{version.major}.{version.minor}"\n'.encode())
        for f in os.listdir(os.path.join(data, "devices", src_dev)):
            sp = os.path.realpath(os.path.join(data, "devices", src_dev, f))
            if f == "database.yaml":
                text = re.sub(r"^\s*spsdk_predecessor_name:.*\n", "", _read(sp).decode(), flags=re.M)  # one name, one device
                _write(os.path.join(ddir, f), text.encode())
            else:
                os.symlink(sp, os.path.join(ddir, f))
        return {"SPSDK_RESTRICTED_DATA_FOLDER": root}, os.path.join(ddir, "database.yaml")
    ddir = os.path.join(root, "devices", src_dev)
    os.makedirs(ddir)
    cfg = yaml.safe_load(_read(os.path.join(data, "devices", src_dev, "database.yaml")).decode())
    _write(os.path.join(ddir, "database.yaml"), yaml.safe_dump({"info": cfg["info"]}, sort_keys=False).encode())
    return {"SPSDK_ADDONS_DATA_FOLDER": root}, os.path.join(ddir, "database.yaml")


def _stale_target(ctx, kind: str, data: str) -> tuple[str, str | None]:
    """(file to touch / edit, new text or None for a pure mtime bump)."""
    devs = sorted(os.listdir(os.path.join(data, "devices")))
    edit = kind.startswith("edit-")
    if kind in ("edit-restricted-device-yaml", "edit-addons-device-yaml"):
        path = _S["extra_file"]
        text = _read(path).decode()
        if "https://www.nxp.com" not in text:
            raise core.Inconclusive("no web link in the device file of the extra data folder")
        return path, text.replace("https://www.nxp.com", "https://www.nxq.com", 1)
    if kind.endswith("device-yaml"):
        # the first device of the sorted list is always part of the query sample
        for dev in devs[:1] + devs:
            path = os.path.join(data, "devices", dev, "database.yaml")
            text = _read(path).decode()
            if "https://www.nxp.com" in text:
                return path, text.replace("https://www.nxp.com", "https://www.nxq.com", 1) if edit else None
        raise core.Inconclusive("no device file with a web link to edit")
    if kind.endswith("cfg-file"):
        sch = sorted(f for f in os.listdir(os.path.join(data, "jsonschemas")) if f.startswith("sch_") and f.endswith(".yaml"))
        path = os.path.join(data, "jsonschemas", sch[0])  # index 0 is always in the evenly spaced sample
        text = _read(path).decode()
        new = _swap_in_value(text)
        if edit and new is None:
            raise core.Inconclusive("no description to edit in " + sch[0])
        return path, new if edit else None
    path = os.path.join(data, "common", "database_defaults.yaml")
    text = _read(path).decode()
    if edit:
        for a, b in (("    size: 0x1000\n", "    size: 0x2000\n"), ("purpose: General Purpose Processor", "purpose: General Purpose Processos")):
            if a in text:
                return path, text.replace(a, b, 1)
        raise core.Inconclusive("no known edit site in database_defaults.yaml")
    return path, None


class _Mutation:
    """Same-size edit and/or mtime bump of one file of the scratch data copy, undone on exit."""

    def __init__(self, path: str, new_text: str | None, same_second: bool = False):
        _guard_scratch(path)
        self.path, self.new = path, new_text
        self.old = _read(path)
        st = os.stat(path)
        self.times = (st.st_atime_ns, st.st_mtime_ns)
        # new modification time: 7 s later, or 0.4 s away but inside the same wall-clock second
        frac = st.st_mtime_ns % 1_000_000_000
        self.delta = (400_000_123 if frac < 500_000_000 else -400_000_123) if same_second else 7_000_000_123

    def __enter__(self):
        if self.new is not None:
            nb = self.new.encode()
            if len(nb) != len(self.old) or nb == self.old:
                raise core.Inconclusive("stale edit must keep the size and change the content")
            _write(self.path, nb)
        os.utime(self.path, ns=(self.times[0], self.times[1] + self.delta))
        if os.stat(self.path).st_mtime_ns == self.times[1]:
            raise core.Inconclusive("the file system does not keep sub-second modification times")
        return self

    def __exit__(self, *a):
        _write(self.path, self.old)
        os.utime(self.path, ns=self.times)
        return False


def _case_stale(case, ctx):
    kind = case["name"]
    data = _scratch_data(ctx)
    if kind in ("edit-restricted-device-yaml", "edit-addons-device-yaml"):
        which = kind.split("-")[1]
        _S["extra_env"], _S["extra_file"] = _extra_folder(ctx, which, data)
        try:
            _case_stale_body(case, ctx, kind, data, f"ref-scratch-{which}")
        finally:
            _S.pop("extra_env", None)
            _S.pop("extra_file", None)
        return
    _case_stale_body(case, ctx, kind, data, "ref-scratch")


def _case_stale_body(case, ctx, kind, data, base_key):
    same_second = kind.endswith("~same-second")
    kind_full, kind = kind, kind.replace("~same-second", "")
    base = _reference(ctx, data=data, key=base_key)  # warm caches for the unmodified copy
    wdir, cache = _prep(ctx, f"stale-{kind_full}", base)
    vanish = kind.endswith("+cached-file-vanished")
    extra = os.path.join(data, "common", "c18_extra_config.yaml")
    if vanish:
        # one more data file gets cached by an ordinary start, then disappears from the data folder
        # (a data update that drops a file) while another cached file is edited
        _guard_scratch(os.path.dirname(extra))
        _write(extra, b"c18: extra data file\nvalue: 1\n")
        r0 = _run({"mode": "digest", "queries": "full", "extra_files": [extra]}, cache, wdir, data)
        os.remove(extra)
        if r0["rc"] != 0:
            raise core.Inconclusive(f"could not warm the cache with an extra file: {r0['err'] or _stderr_tail(r0)}")
    path, new = _stale_target(ctx, kind.split("+")[0], data)
    with _Mutation(path, new, same_second):
        fresh = _reference(ctx, data=data, key=f"ref-{kind_full}")  # fresh cache folder on the modified copy
        what = {"state": f"stale:{kind_full}", "file": os.path.relpath(path, data),
                "edit": ("same-size content edit, modification time 0.4 s away inside the same second" if same_second else
                         "same-size content edit + mtime bump") if new is not None else "mtime bump only"}
        if kind.endswith("+other-process-first"):
            # history: a short-lived process starts on the stale cache, needs only OTHER data files (it stores them, which
            # re-reads and merges whatever cache is on disk) and exits; only then a process asks for the edited file
            first, extra_f = _midlife_files(ctx)
            src_root = os.path.join(core.repo_root(), "spsdk", "data")
            others = [os.path.join(data, os.path.relpath(f, src_root)) for f in first + extra_f[:1]]
            r1 = _run({"mode": "midlife", "queries": "none", "first_files": others, "extra_files": [], "damage": {}}, cache, wdir, data)
            if r1["rc"] != 0:
                _judge_child(ctx, r1, fresh, dict(what, stage="first (short-lived) process on the stale cache"))
                return
        r = _run({"mode": "digest", "queries": "full"}, cache, wdir, data)
        ctx.count("stale_real")
        ok = _judge_child(ctx, r, fresh, what)
        ok2 = ok and _check_folder(ctx, cache, fresh, dict(what, stage="files after the start on the stale cache"))
        visible = fresh["digest"] != base["digest"]
        shutil.rmtree(fresh["cache"], ignore_errors=True)
        _S.pop((f"ref-{kind_full}", "full"), None)
    if new is not None and not visible:
        raise core.Inconclusive(f"the edit of {what['file']} is not visible in the query digest: the stale case decides nothing")
    if ok and ok2:
        ctx.ok(["stale", kind_full], sample=dict(what, visible_in_digest=visible))


def _case_switch(case, ctx):
    """One cache folder, the data configuration alternates between 'standard data only' and 'standard + restricted data'
    (its own defaults file and an extra device): whatever the folder holds from the other configuration, every start
    answers like a start of ITS configuration on an empty cache folder."""
    data = _scratch_data(ctx)
    env_r, _devfile = _extra_folder(ctx, "restricted", data)
    root = env_r["SPSDK_RESTRICTED_DATA_FOLDER"]
    text = _read(os.path.join(data, "common", "database_defaults.yaml")).decode()
    for a, b in (("    size: 0x1000\n", "    size: 0x2000\n"), ("purpose: General Purpose Processor", "purpose: General Purpose Processos")):
        if a in text:
            os.makedirs(os.path.join(root, "data", "common"), exist_ok=True)
            _write(os.path.join(root, "data", "common", "database_defaults.yaml"), text.replace(a, b, 1).encode())
            break
    else:
        raise core.Inconclusive("no known edit site in database_defaults.yaml")
    refs = {"P": _reference(ctx, data=data, key="ref-scratch")}
    _S["extra_env"] = env_r
    try:
        refs["R"] = _reference(ctx, data=data, key="ref-switch-restricted")
    finally:
        _S.pop("extra_env", None)
    if refs["R"]["digest"] == refs["P"]["digest"]:
        raise core.Inconclusive("the restricted-data folder is not visible in the query digest: the case decides nothing")
    wdir, cache = _prep(ctx, f"switch-{case['order']}", refs["P"], q="missing", d="missing")
    ok = True
    for step, which in enumerate(case["order"]):
        if which == "R":
            _S["extra_env"] = env_r
        try:
            r = _run({"mode": "digest", "queries": "full"}, cache, wdir, data)
        finally:
            _S.pop("extra_env", None)
        ctx.count("configuration_switch_starts")
        what = {"state": "stale:data-configuration-switched", "order": case["order"], "step": step,
                "configuration": "standard + restricted data" if which == "R" else "standard data only"}
        ok = _judge_child(ctx, r, refs[which], what) and ok
    shutil.rmtree(refs["R"]["cache"], ignore_errors=True)
    _S.pop(("ref-switch-restricted", "full"), None)
    if ok:
        ctx.ok(["switch", case["order"]], sample={"order": case["order"]})


# -- entry points --------------------------------------------------------------------------------
def _case_cli(case, ctx):
    ref = _reference(ctx)
    st = case["state"]
    cmds = [["help", ["--help"]], ["mbi-help", ["mbi", "--help"]], ["families", ["mbi", "get-templates", "--help"]],
            ["templates", ["mbi", "get-templates", "-f", "lpc55s69", "-o", "tpl", "--force"]]]
    key = ("cli-ref",)
    if key not in _S:
        wdir, cache = _prep(ctx, "cli-ref", ref, q="missing", d="missing")
        r = _run({"mode": "cli", "commands": cmds, "tree": os.path.join(wdir, "tpl")}, cache, wdir)
        if r["rc"] != 0 or not r["out"] or any(v.get("exit") for k, v in r["out"]["cli"].items() if k != "_tree"):
            raise core.Inconclusive(f"reference CLI child failed: rc={r['rc']} {r['out'] or r['err'] or _stderr_tail(r)}")
        _S[key] = r["out"]["cli"]
    want = _S[key]
    spec = {"valid": {}, "cold": {"q": "missing", "d": "missing"}, "empty-Q": {"q": 0}, "D-half": {"d": len(ref["D"]) // 2}}[st]
    wdir, cache = _prep(ctx, f"cli-{st}", ref, **spec)
    r = _run({"mode": "cli", "commands": cmds, "tree": os.path.join(wdir, "tpl")}, cache, wdir)
    ctx.count("cli_children")
    what = {"state": st, "entry_points": [c[0] for c in cmds]}
    if r["rc"] != 0 or not r["out"]:
        if r["err"]:
            ctx.violation(_escape_mechanism(r["err"]), {"what": what, "exception": f"{r['err']['type']}: {r['err']['msg']}",
                                                         "raised_at": f"{r['err']['where']}: {r['err']['line']}", "traceback": r["err"]["tb"][-800:]})
        else:
            ctx.violation(f"child-exit-{r['rc']}-without-report", {"what": what, "stderr": _stderr_tail(r)})
        return
    got = r["out"]["cli"]
    bad = False
    for name, rec in got.items():
        if name == "_tree":
            if rec != want.get("_tree"):
                bad = True
                ctx.violation("cli-output-skewed:templates-tree", {"what": what})
            continue
        if rec.get("exc"):
            bad = True
            ctx.violation(_escape_mechanism(rec["exc"]), {"what": dict(what, entry_point=name), "exit": rec["exit"],
                                                          "exception": f"{rec['exc']['type']}: {rec['exc']['msg']}",
                                                          "raised_at": f"{rec['exc']['where']}: {rec['exc']['line']}"})
        elif rec["exit"] != want[name]["exit"]:
            bad = True
            ctx.violation(f"cli-exit-code-differs:{name}", {"what": what, "exit": rec["exit"], "reference": want[name]["exit"]})
        elif name != "templates" and rec["out"] != want[name]["out"]:
            bad = True
            ctx.violation(f"cli-output-skewed:{name}", {"what": what})
    if not bad:
        ctx.ok(["cli", st], n=len(cmds), sample=what)


# -- schedules -------------------------------------------------------------------------------------
def _signature(log: str, n: int) -> tuple[str, str, int, list]:
    """Canonical signatures of the global event order (children renamed by first appearance).

    full   = every audited cache-folder event (lock polling included)
    coarse = only the accesses to the cache files themselves: open for read / write, remove, rmdir"""
    names: dict[str, str] = {}
    seq, coarse = [], []
    meta = []
    if os.path.exists(log):
        with open(log, errors="replace") as f:
            for ln in f:
                p = ln.split()
                if len(p) < 5:
                    continue
                idx, tag, rel = p[0], p[3], p[4]
                if tag.split(":")[0] in META_TAGS:
                    meta.append((idx, tag))
                    continue
                if int(idx) >= n:
                    nm = "C"  # the concurrent clearer
                else:
                    nm = names.setdefault(idx, f"p{len(names)}")
                seq.append(f"{nm} {tag} {rel}")
                if not rel.endswith(".lock") and tag.split(":")[0] in ("open", "os.remove", "os.rmdir", "os.rename"):
                    coarse.append(f"{nm} {tag} {rel}")
    sha = lambda x: hashlib.sha256("\n".join(x).encode()).hexdigest()[:20]  # noqa: E731
    return sha(seq), sha(coarse), len(seq), meta


def _big_files(data: str) -> list[str]:
    """Three data files of 200..450 KB (first ones by path) - their pickles span several 64 KiB frames."""
    if ("big", data) not in _S:
        out = []
        for dev in sorted(os.listdir(os.path.join(data, "devices"))):
            ddir = os.path.join(data, "devices", dev)
            for f in sorted(os.listdir(ddir)):
                if f.endswith(".json") and 200_000 <= os.path.getsize(os.path.join(ddir, f)) <= 450_000:
                    out.append(os.path.join(ddir, f))
            if len(out) >= 3:
                break
        _S[("big", data)] = out[:3]
    return _S[("big", data)]


def _case_sched(case, ctx):  # noqa: C901
    n, state, plan = case["n"], case["state"], case["plan"]
    queries = "full" if n <= 4 else "light"
    data = None
    mutation = None
    what_state = "stale:edit-device-yaml" if state == "stale" else state
    if state == "stale":
        data = _scratch_data(ctx)
        base = _reference(ctx, data=data, key="ref-scratch", queries="full")
        if queries == "light":
            base = dict(base, queries="light")
        path, new = _stale_target(ctx, "edit-device-yaml", data)
        mutation = _Mutation(path, new)
        ref_for_prep = base
    else:
        ref_for_prep = _reference(ctx)
    if plan == "hold" and case["k"] > ref_for_prep["events"] + 12:
        ctx.ok(["sched", "hold", "k beyond any start"], nontrivial=False)
        return
    spec = _state_spec(ctx, ref_for_prep, state, ctx.rng)
    wdir, cache = _prep(ctx, f"s{ctx.case_index}", ref_for_prep, **spec)
    bdir = _mkdir(wdir, "barrier")
    log = os.path.join(wdir, "events.log")
    clearing = state.startswith("clearing")
    total = n + (1 if clearing else 0)
    wrapper = None
    if plan == "random":
        sched = {"kind": "random", "seed": case["s"], "quanta_ms": case["quanta"]}
    elif plan == "wstall":
        # stall at syscall granularity: every write() to a cache file is delayed on entry (strace fault injection),
        # which keeps half-written files and writers that are between two write syscalls around for a long time
        # ... and the children meet right before their first write of the data cache (a no-op wait while the lock is held)
        sched = {"kind": "rendezvous", "at": ["open:w", "D"], "n": total, "seed": case["s"], "wait_ms": 250 + 70 * n, "after_ms": [0, 0, 1, 3]}
        wrapper = ["strace", "-f", "-qq", "-o", "/dev/null", "-P", os.path.join(cache, ref_for_prep["qn"]),
                   "-P", os.path.join(cache, ref_for_prep["dn"]), "-e", "trace=write",
                   "-e", f"inject=write:delay_enter={case['delay_us']}"]
    elif plan == "hold":
        sched = {"kind": "hold", "who": case["who"], "k": case["k"], "n": total, "seed": case["s"]}
    elif plan == "stall_at":
        sched = {"kind": "stall_at", "who": 0, "at": case["at"], "ms": case["ms"], "n": total, "seed": case["s"]}
    else:
        sched = {"kind": "rendezvous", "at": case["at"], "n": total, "seed": case["s"], "wait_ms": 250 + 70 * n, "after_ms": [0, 0, 1, 3]}
    try:
        if mutation:
            mutation.__enter__()
            ref = _reference(ctx, data=data, key="ref-stale-sched", queries=queries)
        else:
            ref = _reference(ctx, queries=queries) if queries != "full" else ref_for_prep
        procs = []
        extra_cfg: dict = {}
        if case.get("early"):
            extra_cfg["early"] = True  # released together before 'import spsdk': the import is part of the schedule
        if plan == "wstall":
            # multi-frame data cache from the first write on, children at different stages (staggered first use)
            extra_cfg["pre_files"] = _big_files(data or os.path.join(core.repo_root(), "spsdk", "data"))
        for i in range(n):
            if plan == "wstall" and i:
                extra_cfg["start_delay_ms"] = ctx.rng.choice([0, 0, 30, 100, 250, 600])
            procs.append(_spawn(dict({"mode": "digest", "queries": queries, "idx": i, "rot": i, "log": log, "barrier": bdir, "sched": sched},
                                     **extra_cfg), cache, wdir, data, wrapper))
        if clearing:
            procs.append(_spawn({"mode": "clear", "idx": n, "log": log, "barrier": bdir, "sched": sched,
                                 "rounds": ctx.rng.choice([1, 2, 4]), "gap_ms": ctx.rng.choice([0, 5, 40, 200])}, cache, wdir, data))
        t_end = time.monotonic() + 90
        while sum(os.path.exists(os.path.join(bdir, f"ready.{i}")) for i in range(total)) < total:
            if time.monotonic() > t_end or any(p.poll() is not None for p, _ in procs):
                for p, _ in procs:
                    try:
                        os.killpg(p.pid, signal.SIGKILL)
                    except OSError:
                        pass
                    p.wait()
                raise core.Inconclusive("children did not reach the start barrier")
            time.sleep(0.002)
        _write(os.path.join(bdir, "go"), b"")
        results = []
        first_exc = None
        for p, base in procs:
            try:
                results.append(_reap(p, base))
            except core.Inconclusive as e:  # keep reaping the others
                first_exc = first_exc or e
        if first_exc:
            raise first_exc
        sig, sigc, nev, meta = _signature(log, n)
        if any(t.startswith("HOOK-ERROR") for _, t in meta):
            raise core.Inconclusive("audit hook failed inside a child")
        ctx.count("schedules")
        ctx.count("schedule_children", total)
        ctx.count("schedule_events", nev)
        ctx.note("ilv", sig)
        ctx.note("ilvc", sigc)
        what = {"state": what_state, "n": n, "plan": {k: v for k, v in case.items() if k not in ("kind", "n", "state")},
                "queries": queries, "events": nev, "interleaving": sig}
        ok = True
        died = []
        for i, r in enumerate(results):
            if clearing and i == n:
                if r["rc"] != 0:
                    ok = False
                    mech = _escape_mechanism(r["err"]) if r["err"] else f"child-exit-{r['rc']}-without-report"
                    ctx.violation(f"clear_cache:{mech}", {"what": what, "exception": r["err"] and f"{r['err']['type']}: {r['err']['msg']}",
                                                         "traceback": r["err"] and r["err"]["tb"][-800:]})
                continue
            if not _judge_child(ctx, r, ref, dict(what, child=i), alone=False):
                ok = False
                died.append(i)
            for k2, v2 in ((r["out"] or {}).get("opens") or {}).items():
                ctx.count(f"cache_file_opens_{k2}", v2)  # lock discipline as observed by the audit hook (not judged)
        if died:
            ctx.note("children_failed_in_schedule", {"state": state, "n": n, "plan": plan, "failed": len(died)})
        # what the N processes left behind: a fresh start must be normal and the files valid
        if ok:
            ok = _after(ctx, cache, wdir, ref, dict(what, stage="after the schedule"), data)
    finally:
        if mutation:
            mutation.__exit__(None, None, None)
            r0 = _S.pop(("ref-stale-sched", queries), None)
            if r0:
                shutil.rmtree(r0["cache"], ignore_errors=True)
    if ok:
        label = case.get("at") or (["who", case.get("who")] if plan == "hold" else case.get("quanta") or case.get("delay_us"))
        ctx.ok(["sched", n, state, plan, label], n=total, sample=what)


# ============================================================================================
def run_case(case, ctx):
    kind = case["kind"]
    fn = {
        "warm": _case_warm, "crash_write": _case_crash_write, "crash_audit": _case_crash_audit,
        "prefix_inproc": _case_prefix_inproc, "prefix_real": _case_prefix_real, "state": _case_state,
        "stale": _case_stale, "switch": _case_switch, "cli": _case_cli, "sched": _case_sched, "midlife": _case_midlife,
    }.get(kind)
    if fn is None:
        raise core.Inconclusive(f"unknown case kind {kind}")
    try:
        fn(case, ctx)
    finally:
        if not os.environ.get("C18_KEEP"):
            for d in _S.pop("tmpdirs", []):
                if not os.path.basename(d).startswith(("cli-ref",)):
                    shutil.rmtree(d, ignore_errors=True)


def selftest(ctx):
    """Harness self-tests on ground truth SPSDK did not produce."""
    big = pickle.dumps([f"key{i}" * 8 for i in range(9000)], 4)  # several 64 KiB frames
    fb = frame_boundaries(big)
    assert len(fb) >= 3 and fb[0] == 2 and all(big[b] == 0x95 for b in fb), fb
    import pickletools

    assert fb == [pos for op, _, pos in pickletools.genops(big) if op.name == "FRAME"], "frame walk disagrees with pickletools"
    # the unpickler's behaviour the classes are named after
    for ln, exc in ((0, EOFError), (fb[1] if len(fb) > 1 else 2, EOFError), (fb[0] + 20, pickle.UnpicklingError)):
        try:
            pickle.loads(big[:ln])
            raise AssertionError(f"prefix {ln} unpickled")
        except exc:
            pass
    assert _class_of_len(big, 0) == "empty" and _class_of_len(big, fb[0]) == "frame-boundary" and _class_of_len(big, len(big)) == "complete"
    assert _escape_mechanism({"type": "EOFError", "where": "spsdk/utils/database.py:_get_quick_info_db",
                              "line": "loaded_db = pickle.load(f, encoding=\"utf-8\")"}) == "quick-cache-eoferror-escapes"
    v = subprocess.run(["strace", "-V"], capture_output=True, text=True, timeout=20, check=False)
    assert v.returncode == 0, "strace is not available"
    t = "a:\n  description: Some text here\n"
    s = _swap_in_value(t)
    assert s is not None and len(s) == len(t) and s != t
    return {"frame_boundaries_found": len(fb), "strace": v.stdout.split("\n")[0][:40], "child": os.path.basename(CHILD)}


def extra_coverage(events, counters):
    ilv = [ev["v"] for ev in events if ev.get("t") == "note" and ev.get("k") == "ilv"]
    ilvc = [ev["v"] for ev in events if ev.get("t") == "note" and ev.get("k") == "ilvc"]
    crash_states = sorted({ev["v"] for ev in events if ev.get("t") == "note" and ev.get("k") == "crash_state"})
    return {
        "crash_points": counters.get("crash_points", 0),
        "crash_points_by_kind": {k: v for k, v in counters.items() if k.startswith("crash_points_")},
        "crash_states_seen": crash_states[:80],
        "prefixes_in_process": counters.get("prefixes_in_process", 0),
        "prefixes_real": counters.get("prefixes_real", 0) + counters.get("states_real", 0) + counters.get("stale_real", 0),
        "schedules": counters.get("schedules", 0),
        "schedule_children": counters.get("schedule_children", 0),
        "distinct_interleavings": len(set(ilv)),
        "distinct_interleavings_cache_file_accesses_only": len(set(ilvc)),
        "interleaving_signatures_sample": sorted(set(ilv))[:8],
    }
