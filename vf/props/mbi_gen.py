"""Configuration generator for the MBI properties C01 / C02 (harness code: may import spsdk).

Enumerates every family in ``get_families("mbi")`` x every (target, authentication) pair of the family's ``images``
table (read from the database under test) and draws payload classes x option sets per mixin list.  ``build()``
writes everything a configuration needs (application binary, certificate-block YAML, TrustZone preset, key files,
key store, relocation images) into a private directory and returns a :class:`Built` record holding the
configuration dictionary *and* the inputs the oracle compares against (payload bytes, expected settings, key names
of the committed pool ``vf.pki``).

Nothing here is an oracle; expectations are the *inputs*, recorded before the code under test sees them.
"""
from __future__ import annotations

import os
import struct
from typing import Any, Optional

from vf import core, pki

TARGET_LABEL = {"xip": ["xip", "Internal flash (XIP)", "External Flash (XIP)"], "load_to_ram": ["load-to-ram", "RAM", "ram"]}
AUTH_LABEL = {
    "plain": ["plain", "Plain"],
    "crc": ["crc", "CRC"],
    "signed": ["signed", "Signed"],
    "nxp_signed": ["signed-nxp", "NXP Signed", "nxp_signed"],
    "encrypted": ["signed-encrypted", "Encrypted + Signed", "encrypted"],
}
IMAGE_TYPES = {
    "PLAIN_IMAGE": 0, "SIGNED_RAM_IMAGE": 1, "CRC_RAM_IMAGE": 2, "ENCRYPTED_RAM_IMAGE": 3,
    "SIGNED_XIP_IMAGE": 4, "CRC_XIP_IMAGE": 5, "SIGNED_XIP_NXP_IMAGE": 8,
}
PROTECTED_AUTH = ("crc", "signed", "nxp_signed", "encrypted")
KEY_STORE_SIZE = 1424
LIFECYCLES = {"NOT_SET": 0xFF, "OEM_OPEN": 0xFE, "OEM_CLOSED_ROP1": 0x90, "OEM_CLOSED_ROP2": 0x95,
              "OEM_CLOSED_ROP3": 0x9B, "OEM_CLOSED_NO_RETURN": 0x6B}
# RSA-4096 private-key loading/signing is the slow part of a case: weight the key matrix accordingly
RSA_KIND_WEIGHTS = {"quick": [("rsa2048", 6), ("rsa3072", 2), ("rsa4096", 1)],
                    "thorough": [("rsa2048", 4), ("rsa3072", 2), ("rsa4096", 2)]}


def m(mixins, name):
    return ("Mbi_" + name) in mixins


# ----------------------------------------------------------------------------- database access
_DB_CACHE: dict = {}


def families() -> list[str]:
    from spsdk.utils.database import get_families

    if "fam" not in _DB_CACHE:
        _DB_CACHE["fam"] = sorted(get_families("mbi"))
    return _DB_CACHE["fam"]


def images(family: str, revision: str = "latest") -> list[dict]:
    """[{target, auth, cls, image_type, mixins}] from the family's database (of that revision)."""
    key = ("img", family, revision)
    if key not in _DB_CACHE:
        from spsdk.utils.database import get_db

        db = get_db(family, revision)
        tab = db.get_dict("mbi", "images")
        classes = db.get_dict("mbi", "mbi_classes")
        out = []
        for target in tab:
            for auth in tab[target]:
                cn = tab[target][auth]
                out.append({"target": target, "auth": auth, "cls": cn,
                            "image_type": IMAGE_TYPES[classes[cn]["image_type"]],
                            "image_type_name": classes[cn]["image_type"],
                            "mixins": list(classes[cn]["mixins"])})
        _DB_CACHE[key] = out
    return _DB_CACHE[key]


def fixed_image_type(family: str, revision: str = "latest") -> int:
    from spsdk.utils.database import get_db

    return get_db(family, revision).get_int("mbi", ["fixed_image_type"], -1)


def mbi_revisions() -> list:
    """(family, revision) pairs whose image classes differ from the ones of the latest revision."""
    if "mbirevs" not in _DB_CACHE:
        from spsdk.utils.database import DatabaseManager

        out = []
        for fam in families():
            latest = class_set_signature(fam)
            for rev in DatabaseManager().db.devices.get(fam).revisions.revision_names():
                try:
                    sig = class_set_signature(fam, rev)
                except Exception:  # pylint: disable=broad-except
                    continue
                if sig != latest:
                    out.append((fam, rev))
        _DB_CACHE["mbirevs"] = out
    return _DB_CACHE["mbirevs"]


def class_set_signature(family: str, revision: str = "latest"):
    return (tuple((i["target"], i["auth"], i["image_type"], tuple(i["mixins"])) for i in images(family, revision)),
            fixed_image_type(family, revision))


def representative_families() -> list[str]:
    """One family per distinct class-set signature (first in sorted order)."""
    seen, out = set(), []
    for f in families():
        s = class_set_signature(f)
        if s not in seen:
            seen.add(s)
            out.append(f)
    return out


def tz_supported(family: str) -> bool:
    from spsdk.utils.database import get_families

    if "tz" not in _DB_CACHE:
        _DB_CACHE["tz"] = set(get_families("tz"))
    return family in _DB_CACHE["tz"]


def tz_spec(family: str, revision: str = "latest") -> dict:
    """Register name -> default value (as in the family's TrustZone register specification of that revision)."""
    key = ("tzspec", family, revision)
    if key not in _DB_CACHE:
        from spsdk.utils.database import DatabaseManager, get_db

        _DB_CACHE[key] = DatabaseManager().db.load_db_cfg_file(get_db(family, revision).get_file_path("tz", "reg_spec"))
    return _DB_CACHE[key]


def tz_size(family: str, revision: str = "latest") -> int:
    return 4 * len(tz_spec(family, revision)) if tz_supported(family) else 0


def tz_revisions() -> list:
    """(family, revision) pairs whose TrustZone register set differs from the one of the latest revision."""
    if "tzrevs" not in _DB_CACHE:
        from spsdk.utils.database import DatabaseManager, get_families

        out = []
        mbi = set(get_families("mbi"))
        for fam in sorted(get_families("tz")):
            if fam not in mbi:
                continue
            latest = list(tz_spec(fam, "latest").keys())
            for rev in DatabaseManager().db.devices.get(fam).revisions.revision_names():
                try:
                    names = list(tz_spec(fam, rev).keys())
                except Exception:  # pylint: disable=broad-except
                    continue
                if names != latest:
                    out.append((fam, rev))
        _DB_CACHE["tzrevs"] = out
    return _DB_CACHE["tzrevs"]


def isk_limits(family: str, revision: str = "latest"):
    from spsdk.utils.database import get_db

    db = get_db(family, revision)
    return db.get_int("cert_block", "isk_data_limit"), db.get_int("cert_block", "isk_data_alignment")


def schema_properties(family: str, info: dict, revision: str = "latest") -> set:
    """Option names the class's own validation schema knows."""
    key = ("schema", family, info["cls"], revision)
    if key not in _DB_CACHE:
        from spsdk.image.mbi.mbi import create_mbi_class

        cls = create_mbi_class(info["cls"], family, revision)
        props = set()
        for sch in cls.get_validation_schemas(family, revision):
            props.update((sch.get("properties") or {}).keys())
        _DB_CACHE[key] = props
    return _DB_CACHE[key]


def rom_profile(family: str, info: dict, revision: str = "latest"):
    """The device knowledge the ROM model needs for this (family, class) - derived from the mixin list."""
    from vf.refs import mbi_rom

    mx = info["mixins"]
    if m(mx, "ExportMixinEccSignVx"):
        return mbi_rom.Profile("vx")
    if m(mx, "ExportMixinCrcSignBca"):
        return mbi_rom.Profile("bca_crc")
    if not any(x.startswith("Mbi_MixinIvt") for x in mx):
        return mbi_rom.Profile("bare")
    cert = "v1" if m(mx, "MixinCertBlockV1") else ("v21" if m(mx, "MixinCertBlockV21") else None)
    manifest = "crc" if m(mx, "MixinManifestCrc") else ("digest" if m(mx, "MixinManifestDigest") else None)
    hm = (info["image_type"],) if (m(mx, "MixinHmacMandatory") or m(mx, "MixinHmac")) else ()
    return mbi_rom.Profile("ivt", cert=cert, hmac_types=hm, manifest=manifest, tz_size=tz_size(family, revision))


# ------------------------------------------------------------------------------- the record
class Built:
    """One generated configuration with the inputs the oracles need."""

    def __init__(self):
        self.family = ""
        self.revision = "latest"
        self.info: dict = {}
        self.dir = ""
        self.cfg: dict = {}
        self.app = b""                 # payload exactly as written to the input file
        self.payload_class = ""
        self.opts: dict = {}           # expected settings (only options that were supplied / have a defined default)
        self.cert: Optional[dict] = None
        self.sig: list = []            # option signature (small, for ctx.ok)
        self.dek: Optional[str] = None
        self.sign_key: Optional[str] = None   # pool name of the key that signs the image
        self.notes: dict = {}

    @property
    def mixins(self):
        return self.info["mixins"]

    def has(self, name):
        return m(self.info["mixins"], name)

    def describe(self) -> dict:
        d = {"family": self.family, "revision": self.revision, "target": self.info["target"], "auth": self.info["auth"], "cls": self.info["cls"],
             "payload_class": self.payload_class, "app_len": len(self.app)}
        d.update({k: (core.hx(v, 24) if isinstance(v, (bytes, bytearray)) else v) for k, v in self.opts.items()
                  if k not in ("reloc", "tz_bytes", "key_store")})
        if self.opts.get("reloc"):
            d["reloc"] = [(hex(a), len(b), l) for a, b, l in self.opts["reloc"]]
        if self.cert:
            d["cert"] = {k: v for k, v in self.cert.items() if k not in ("user_data",)}
        return d


def _w(path: str, data, mode="wb"):
    with open(path, mode) as f:
        f.write(data)


def _record_order(rng, roots):
    """(index, name) pairs in the order the records are WRITTEN into the configuration: a mapping has no order, the slot of
    a root certificate is the number in its key."""
    pairs = list(enumerate(roots))
    if rng.random() < 0.4:
        rng.shuffle(pairs)
    return pairs


_DER_PROVIDER: list = []


def der_signature_provider() -> str:
    """Registers (once) a signature provider of the kind an HSM or a signing server plug-in is: it holds the private key and
    hands back ECDSA signatures DER encoded (what OpenSSL-style back ends produce).  The image carries r||s all the same -
    that is the documented contract of SignatureProvider.get_signature().  Returns the provider's type name."""
    if not _DER_PROVIDER:
        from spsdk.crypto.keys import PrivateKey, PrivateKeyEcc, PublicKey
        from spsdk.crypto.signature_provider import SignatureProvider

        class VerifDerSignatureProvider(SignatureProvider):
            identifier = "verif_der"

            def __init__(self, file_path: str, **kwargs) -> None:  # pylint: disable=unused-argument
                self.private_key = PrivateKey.load(file_path)

            @property
            def signature_length(self) -> int:
                return self.private_key.signature_size

            def verify_public_key(self, public_key: PublicKey) -> bool:
                return self.private_key.verify_public_key(public_key)

            def sign(self, data: bytes) -> bytes:
                if isinstance(self.private_key, PrivateKeyEcc):
                    return self.private_key.sign(data, der_format=True)
                return self.private_key.sign(data)

        _DER_PROVIDER.append(VerifDerSignatureProvider)
    return "verif_der"


def _sign_with(rng, cfg, signer, ecc: bool) -> None:
    """signPrivateKey, or (a fifth of the ECC cases) a plug-in style provider that returns DER signatures."""
    path = pki.path(signer, "priv", "pem")
    if ecc and rng.random() < 0.2:
        cfg.pop("signPrivateKey", None)
        cfg["signProvider"] = f"type={der_signature_provider()};file_path={path}"
    else:
        cfg["signPrivateKey"] = path


def _dump_yaml(path: str, cfg: dict):
    import yaml  # PyYAML, as used by spsdk itself

    with open(path, "w", encoding="utf-8") as f:
        yaml.safe_dump(cfg, f, sort_keys=False)


# ------------------------------------------------------------------------------ payload classes
def payload_lengths(info: dict) -> list[tuple[str, Any]]:
    """(class name, length or callable(rng) -> length) for the class's layout."""
    mx = info["mixins"]
    if m(mx, "MixinBcaTable"):      # DSC: header area up to 0xC00, data after it
        return [("0xC04", 0xC04), ("0xC10", 0xC10), ("0xC01..3", lambda r: 0xC00 + r.randrange(1, 4) + 4),
                ("0xDFF", 0xDFF), ("0xE00", 0xE00), ("0x1001", 0x1001),
                ("rand<=16K", lambda r: r.randrange(0xC04, 0x4000)), ("rand<=64K", lambda r: r.randrange(0x4000, 0x10000)),
                ("0xC00", 0xC00), ("0x400", 0x400)]
    if m(mx, "MixinBca"):           # mcxc: BCA at 0x3C0, FCF at 0x400..0x410
        return [("0x410", 0x410), ("0x411", 0x411), ("0x4FF", 0x4FF), ("0x500", 0x500), ("0xC00", 0xC00), ("0xC01", 0xC01),
                ("rand<=4K", lambda r: r.randrange(0x410, 0x1000)), ("rand<=64K", lambda r: r.randrange(0x1000, 0x10000)),
                ("0x400", 0x400), ("0x3C0", 0x3C0)]
    return [("0x38", 0x38), ("0x39..0x3F", lambda r: r.randrange(0x39, 0x40)), ("0x40", 0x40), ("0x41", 0x41), ("0x44", 0x44),
            ("0x1FF", 0x1FF), ("0x200", 0x200), ("0x201", 0x201), ("0x3C0", 0x3C0), ("0x400", 0x400), ("0xC00", 0xC00),
            ("rand<=1K", lambda r: r.randrange(0x45, 0x400)), ("rand<=8K", lambda r: r.randrange(0x400, 0x2000)),
            ("rand<=64K", lambda r: r.randrange(0x2000, 0x10001))]


def make_payload(rng, length: int, content: str) -> bytes:
    """content: random | reloc_lookalike | reserved_zero | ones."""
    if content == "ones":
        data = bytearray(b"\xff" * length)
        data[0:4] = struct.pack("<I", 0x20001000)   # a vector table: the first three words must not all be equal
        data[4:8] = struct.pack("<I", 0x00000101)
    else:
        data = bytearray(core.rand_bytes(rng, length))
        sp = 0x20000000 | (rng.getrandbits(20) & ~7)
        pc = (rng.getrandbits(24) | 1)
        data[0:4] = struct.pack("<I", sp)
        data[4:8] = struct.pack("<I", pc)
    if content == "reserved_zero":
        for w in (0x20, 0x24, 0x28, 0x34):
            data[w:w + 4] = bytes(4)
    if content == "reloc_lookalike" and length >= 0x38 + 16:
        # marker + version 0 + a plausible count, but the entries pointer is NOT where a real table would need it
        n = rng.randrange(1, 4)
        ptr = rng.choice([0, 4, 0x38, length, length - 16, 0xFFFFFFF0, rng.getrandbits(16)])
        if ptr + 16 * n + 16 == length:
            ptr += 4
        data[length - 16:length] = struct.pack("<4I", 0x4C54424C, 0, n, ptr & 0xFFFFFFFF)
    return bytes(data)


# --------------------------------------------------------------------------------- cert blocks
def _pick_weighted(rng, pairs):
    total = sum(w for _, w in pairs)
    x = rng.randrange(total)
    for v, w in pairs:
        if x < w:
            return v
        x -= w
    return pairs[-1][0]


_KEY_CACHE: dict = {}
_CHAIN_CACHE: dict = {}


def _crypto_key(name: str):
    """Pool private key as a ``cryptography`` object (input construction only)."""
    if name not in _KEY_CACHE:
        from cryptography.hazmat.primitives import serialization

        try:
            k = serialization.load_der_private_key(pki.data(name, "priv", "der"), None, unsafe_skip_rsa_key_validation=True)
        except TypeError:  # older cryptography
            k = serialization.load_der_private_key(pki.data(name, "priv", "der"), None)
        _KEY_CACHE[name] = k
    return _KEY_CACHE[name]


def runtime_chain(d: str, names: list[str]) -> dict:
    """A certificate chain root -> ... -> leaf over the given pool keys, built here with ``cryptography``.

    Deterministic (PKCS#1 v1.5 signatures, fixed serial numbers and dates), so a replay sees the same bytes.  Used for
    what the committed pool does not hold: depth 4 and chains whose keys have different sizes."""
    key = tuple(names)
    if key not in _CHAIN_CACHE:
        import datetime

        from cryptography import x509
        from cryptography.hazmat.primitives import hashes, serialization
        from cryptography.x509.oid import NameOID

        ders = []
        for i, name in enumerate(names):
            issuer = names[i - 1] if i else name
            last = i == len(names) - 1
            bld = (x509.CertificateBuilder()
                   .subject_name(x509.Name([x509.NameAttribute(NameOID.COMMON_NAME, f"vf {name} depth{i}")]))
                   .issuer_name(x509.Name([x509.NameAttribute(NameOID.COMMON_NAME, f"vf {issuer} depth{max(0, i - 1)}")]))
                   .public_key(_crypto_key(name).public_key()).serial_number(0x5EED00 + i)
                   .not_valid_before(datetime.datetime(2024, 1, 1)).not_valid_after(datetime.datetime(2054, 1, 1))
                   .add_extension(x509.BasicConstraints(ca=not last, path_length=None), critical=True))
            ders.append(bld.sign(_crypto_key(issuer), hashes.SHA256()).public_bytes(serialization.Encoding.DER))
        _CHAIN_CACHE[key] = ders
    paths = []
    for i, der in enumerate(_CHAIN_CACHE[key]):
        p = os.path.join(d, f"rtchain_{i}_{names[i]}.der")
        _w(p, der)
        paths.append(p)
    return {"certs": paths, "keys": list(names)}


def cert_v1(rng, d: str, tier: str, want: dict) -> tuple[dict, dict, str]:
    """Returns (cert-block yaml dict, spec, pool name of the image signing key)."""
    kind = want.get("kind") or _pick_weighted(rng, RSA_KIND_WEIGHTS[tier])
    nroots = want.get("nroots") or rng.choice([1, 1, 2, 3, 4, 4])
    used = want.get("used", rng.randrange(nroots))
    depth = want.get("depth") or rng.choice([1, 1, 2, 3, 3, 4])
    pool = pki.names(kind)[:4]          # chains exist for roots 0..3
    order = list(pool)
    rng.shuffle(order)
    roots = order[:nroots]
    mixed = want.get("mixed", depth >= 2 and rng.random() < 0.15)
    if depth >= 2 and (mixed or depth == 4):
        names = [roots[used]]
        for _ in range(depth - 1):
            k2 = kind
            if mixed:
                k2 = want.get("leaf_kind") or rng.choice([k for k in ("rsa2048", "rsa3072", "rsa4096") if k != kind] if len(names) == depth - 1 else ["rsa2048", kind])
            cands = [n for n in pki.names(k2) if n not in names and n not in roots]
            if not cands:   # small pools (4 keys): a chain key may also be one of the OTHER root keys
                cands = [n for n in pki.names(k2) if n not in names]
            if not cands:
                break
            names.append(rng.choice(cands))
        depth = len(names)
        if mixed and pki.kind_of(names[-1]) == kind:
            mixed = False
        chain = runtime_chain(d, names) if depth >= 2 else pki.chain(roots[used], 1)
    else:
        mixed = False
        chain = pki.chain(roots[used], depth)
    y: dict = {"imageBuildNumber": want.get("build", rng.choice([0, 1, 0x1234, 0xFFFFFFFF]))}
    for i, name in _record_order(rng, roots):
        if i == used:
            # a single certificate must not be a CA; a chain starts with the CA certificate of the root
            y[f"rootCertificate{i}File"] = pki.path(name, "nonca", "der") if depth == 1 else chain["certs"][0]
        else:
            y[f"rootCertificate{i}File"] = pki.path(name, rng.choice(["cert", "nonca"]), rng.choice(["der", "pem"]))
    for j, c in enumerate(chain["certs"][1:]):
        y[f"chainCertificate{used}File{j}"] = c
    y["mainRootCertId"] = used
    spec = {"v": "v1", "kind": kind, "roots": roots, "used": used, "depth": depth, "chain_keys": chain["keys"],
            "build": y["imageBuildNumber"], "mixed": bool(mixed), "leaf_kind": pki.kind_of(chain["keys"][-1])}
    return y, spec, chain["keys"][-1]


def cert_v21(rng, d: str, family: str, want: dict) -> tuple[dict, dict, str]:
    curve = want.get("curve") or rng.choice(["p256", "p256", "p384"])
    nroots = want.get("nroots") or rng.choice([1, 2, 3, 4, 4])
    used = want.get("used", rng.randrange(nroots))
    order = list(pki.names(curve))
    rng.shuffle(order)
    roots = order[:nroots]
    use_isk = want.get("isk", rng.random() < 0.6)
    y: dict = {"family": family, "useIsk": bool(use_isk)}
    for i, name in _record_order(rng, roots):
        what, fmt = rng.choice([("pub", "pem"), ("pub", "der"), ("cert", "pem"), ("cert", "der"), ("nonca", "pem")])
        y[f"rootCertificate{i}File"] = pki.path(name, what, fmt)
    y["mainRootCertId"] = used
    spec = {"v": "v21", "curve": curve, "roots": roots, "used": used, "isk": None, "user_data": b"", "constraints": 0}
    signer = roots[used]
    if use_isk:
        icurve = want.get("isk_curve") or (curve if rng.random() < 0.8 else ("p384" if curve == "p256" else "p256"))
        cands = [n for n in pki.names(icurve) if n not in roots]
        isk = rng.choice(cands)
        y["iskPublicKey"] = pki.path(isk, "pub", rng.choice(["pem", "der"]))
        y["signPrivateKey"] = pki.path(roots[used], "priv", "pem")     # the ROOT key signs the ISK certificate
        cons = want.get("constraints", rng.choice([0, 1, 0x25, 0xFFFFFFFF, rng.getrandbits(32)]))
        y["iskCertificateConstraint"] = cons
        limit, align = isk_limits(family)
        ud_len = want.get("user_data_len")
        if ud_len is None:
            ud_len = rng.choice([0, 0, align, 16, 48, limit]) if rng.random() < 0.7 else align * rng.randrange(0, limit // align + 1)
        ud = core.rand_bytes(rng, ud_len)
        if ud_len:
            p = os.path.join(d, "isk_user_data.bin")
            _w(p, ud)
            y["iskCertData"] = p
        spec.update({"isk": isk, "isk_curve": icurve, "user_data": ud, "constraints": cons})
        signer = isk
    return y, spec, signer


def cert_vx(rng, d: str, want: dict) -> tuple[dict, dict, str]:
    names = list(pki.names("p256"))
    rng.shuffle(names)
    self_signed = want.get("self_signed", rng.random() < 0.7)
    isk = names[0]
    root = isk if (self_signed and rng.random() < 0.6) else names[1]
    y = {"selfSigned": bool(self_signed), "iskPublicKey": pki.path(isk, "pub", rng.choice(["pem", "der"])),
         "signPrivateKey": pki.path(root, "priv", "pem")}
    spec = {"v": "vx", "isk": isk, "root": root, "self_signed": bool(self_signed)}
    return y, spec, isk


# -------------------------------------------------------------------------------- TrustZone
def tz_preset(rng, family: str, d: str, form: Optional[str] = None, revision: str = "latest"):
    """Write a custom preset (YAML with a few random registers, or a complete binary).  Returns (path, expected bytes)."""
    spec = tz_spec(family, revision)
    names = list(spec.keys())
    from spsdk.utils.misc import value_to_int

    values = {n: value_to_int(v) for n, v in spec.items()}
    form = form or rng.choice(["yaml", "yaml", "bin"])
    if form == "yaml":
        k = rng.choice([1, 5, 5, 20, len(names)])
        chosen = rng.sample(names, min(k, len(names)))
        customs = {}
        for n in chosen:
            v = rng.choice([0, 1, 0xFFFFFFFF, rng.getrandbits(32), rng.getrandbits(32)])
            values[n] = v
            customs[n] = rng.choice([hex(v), v, f"0x{v:08X}"])
        path = os.path.join(d, "tz_preset.yaml")
        _dump_yaml(path, {"family": family, "revision": revision, "trustZonePreset": customs})
    else:
        for n in names:
            if rng.random() < 0.5:
                values[n] = rng.getrandbits(32)
        path = os.path.join(d, "tz_preset.bin")
        _w(path, struct.pack(f"<{len(names)}I", *[values[n] for n in names]))
    return path, struct.pack(f"<{len(names)}I", *[values[n] for n in names])


# ------------------------------------------------------------------------------------ build
def build(family: str, info: dict, rng, workdir: str, tier: str = "quick", want: Optional[dict] = None,
          protected_only: bool = False) -> Built:
    """Draw one configuration for (family, class) and write its files.  ``want`` forces individual choices."""
    want = dict(want or {})
    b = Built()
    b.family, b.info = family, info
    b.revision = want.get("revision", "latest")
    mx = info["mixins"]
    props = schema_properties(family, info, b.revision)
    d = os.path.join(workdir, f"{family}_{info['target']}_{info['auth']}_{rng.getrandbits(40):010x}")
    os.makedirs(d, exist_ok=True)
    b.dir = d
    cfg: dict = {
        "family": family,
        "outputImageExecutionTarget": want.get("target_label") or rng.choice(TARGET_LABEL[info["target"]]),
        "outputImageAuthenticationType": want.get("auth_label") or rng.choice(AUTH_LABEL[info["auth"]]),
        "masterBootOutputFile": os.path.join(d, "mbi.bin"),
    }
    if b.revision != "latest":
        cfg["revision"] = b.revision
    o: dict = {}
    sig: list = []

    # ---- relocation table (drawn first: it constrains nothing else)
    if m(mx, "MixinRelocTable") and "applicationTable" in props:
        n = want.get("reloc", rng.choice([0, 0, 1, 2, 3]))
        if n:
            entries, tab = [], []
            for i in range(n):
                ln = rng.choice([1, 3, 4, 5, 16, 0x101, rng.randrange(1, 0x800)])
                img = core.rand_bytes(rng, ln)
                dst = rng.choice([0x20000000, 0x1000, 0xFFFFFFFC, rng.getrandbits(32)]) if i else rng.getrandbits(32)
                p = os.path.join(d, f"reloc{i}.bin")
                _w(p, img)
                load = want.get("reloc_load", True)
                tab.append({"binary": p, "destAddress": rng.choice([dst, hex(dst)]), "load": load})
                entries.append((dst, img, load))
            cfg["applicationTable"] = tab
            o["reloc"] = entries
        sig.append(f"reloc{n}")

    # ---- payload
    plens = payload_lengths(info)
    pc = want.get("payload_class")
    if pc is None:
        # the last two entries of the BCA lists are "too short for the layout" classes: keep them rare
        weights = [1] * len(plens)
        if m(mx, "MixinBcaTable") or m(mx, "MixinBca"):
            weights = [4] * (len(plens) - 2) + [1, 1]
        pc = _pick_weighted(rng, list(zip([p[0] for p in plens], weights)))
    spec = dict(plens)[pc] if pc in dict(plens) else int(pc, 0)
    length = spec(rng) if callable(spec) else spec
    content = want.get("content") or _pick_weighted(rng, [("random", 6), ("reloc_lookalike", 2), ("reserved_zero", 1), ("ones", 1)])
    b.app = make_payload(rng, length, content)
    if m(mx, "MixinFcfObsolete") and len(b.app) > 0x40C and (rng.random() < 0.85 or "fcf_byte" in want):
        # a real DSC application has a valid life-cycle byte in its flash configuration field
        byte = want.get("fcf_byte", rng.choice(list(LIFECYCLES.values())))
        b.app = b.app[:0x40C] + bytes([byte]) + b.app[0x40D:]
    b.payload_class = f"{pc}/{content}"
    app_path = os.path.join(d, "app.bin")
    _w(app_path, b.app)
    cfg["inputImageFile"] = app_path

    # ---- plain options per mixin
    if "outputImageExecutionAddress" in props:
        optional = m(mx, "MixinLoadAddressOptional")
        if optional and rng.random() < 0.3 and "load_address" not in want:
            o["load_address"] = 0
            sig.append("la-absent")
        else:
            la = want.get("load_address", rng.choice([0, 0x1000, 0x20080000, 0x08001000, 0xFFFFFFFC, rng.getrandbits(32)]))
            cfg["outputImageExecutionAddress"] = rng.choice([la, hex(la)])
            o["load_address"] = la
            sig.append("la")
    if "imageVersion" in props:
        if rng.random() < 0.25 and "image_version" not in want:
            o["image_version"] = 0
        else:
            iv = want.get("image_version", rng.choice([0, 1, 0xFFFF, rng.getrandbits(16)]))
            cfg["imageVersion"] = rng.choice([iv, hex(iv)])
            o["image_version"] = iv
        sig.append("iv%s" % ("0" if not o["image_version"] else ("max" if o["image_version"] == 0xFFFF else "n")))
    if "outputImageSubtype" in props:
        if rng.random() < 0.3 and "subtype" not in want:
            o["subtype"] = 0
        else:
            st = want.get("subtype", rng.choice(["main", "nbu", "recovery", "MAIN"]))
            cfg["outputImageSubtype"] = st if st != "MAIN" else "main"
            o["subtype"] = 0 if st.lower() == "main" else 1
        sig.append(f"st{o['subtype']}")
    if "enableHwUserModeKeys" in props:
        hk = want.get("hw_key", rng.random() < 0.5)
        cfg["enableHwUserModeKeys"] = bool(hk)
        o["hw_key"] = bool(hk)
        sig.append(f"hwk{int(hk)}")
    if "firmwareVersion" in props:
        if rng.random() < 0.25 and "fw_version" not in want:
            o["fw_version"] = 0
        else:
            fv = want.get("fw_version", rng.choice([0, 1, 0xFFFF, 0xFFFFFFFF, rng.getrandbits(32)]))
            cfg["firmwareVersion"] = rng.choice([fv, hex(fv)])
            o["fw_version"] = fv
        sig.append("fw")
    if "lifeCycle" in props:
        lc = want.get("lifecycle", rng.choice(list(LIFECYCLES)))
        if lc != "NOT_SET" or rng.random() < 0.5:
            cfg["lifeCycle"] = lc
        o["lifecycle"] = LIFECYCLES[lc]
        sig.append("lc" if lc != "NOT_SET" else "lc-unset")

    # ---- TrustZone
    has_tz = "enableTrustZone" in props or "trustZonePresetFile" in props
    if has_tz:
        mandatory = m(mx, "MixinTrustZoneMandatory") or any(x.startswith("Mbi_MixinManifest") for x in mx)
        modes_ = ["enabled", "custom"] if mandatory else ["disabled", "enabled", "custom"]
        if not tz_supported(family):
            modes_.remove("custom")
        mode = want.get("tz") or rng.choice(modes_)
        if mode == "custom" and not tz_supported(family):
            mode = "enabled"
        if mode == "disabled":
            if rng.random() < 0.7:
                cfg["enableTrustZone"] = False
                if tz_supported(family) and rng.random() < 0.35:
                    # a preset file left over in the option set: "enableTrustZone: false" is what decides
                    cfg["trustZonePresetFile"] = tz_preset(rng, family, d, want.get("tz_form"), b.revision)[0]
                    sig.append("tz-leftover-preset")
        else:
            if not mandatory or rng.random() < 0.5:
                cfg["enableTrustZone"] = True
            if mode == "custom":
                path, tzb = tz_preset(rng, family, d, want.get("tz_form"), b.revision)
                cfg["trustZonePresetFile"] = path
                o["tz_bytes"] = tzb
        o["tz"] = mode
        sig.append(f"tz-{mode}")

    # ---- HMAC key / key store / IV
    if "outputImageEncryptionKeyFile" in props:
        key = want.get("user_key") or core.rand_bytes(rng, 32)
        form = rng.choice(["hex", "txt", "bin"])
        if form == "hex":
            cfg["outputImageEncryptionKeyFile"] = key.hex()
            b.dek = key.hex()
        elif form == "txt":
            p = os.path.join(d, "userkey.txt")
            _w(p, key.hex(), "w")
            cfg["outputImageEncryptionKeyFile"] = p
            b.dek = p
        else:
            p = os.path.join(d, "userkey.bin")
            _w(p, key)
            cfg["outputImageEncryptionKeyFile"] = p
            b.dek = rng.choice([p, key.hex()])
        o["user_key"] = key
        sig.append("hmac")
    if "keyStoreFile" in props:
        ks = want.get("key_store", rng.random() < 0.4)
        if ks:
            ksd = core.rand_bytes(rng, KEY_STORE_SIZE)
            p = os.path.join(d, "key_store.bin")
            _w(p, ksd)
            cfg["keyStoreFile"] = p
            o["key_store"] = ksd
        else:
            o["key_store"] = None
        sig.append(f"ks{int(bool(ks))}")
    if "CtrInitVector" in props:
        if want.get("iv", rng.random() < 0.6):
            iv_ = core.rand_bytes(rng, 16)
            if iv_[0] == 0:
                iv_ = b"\x80" + iv_[1:]
            cfg["CtrInitVector"] = rng.choice(["0x" + iv_.hex(), iv_.hex()])
            o["iv"] = iv_
            sig.append("iv-given")
        else:
            o["iv"] = None
            sig.append("iv-random")

    # ---- certificate blocks
    if m(mx, "MixinCertBlockV1"):
        y, spec_, signer = cert_v1(rng, d, tier, want)
        cb = os.path.join(d, "cert_block_v1.yaml")
        _dump_yaml(cb, y)
        cfg["certBlock"] = cb
        cfg["signPrivateKey"] = pki.path(signer, "priv", "pem")
        b.cert, b.sign_key = spec_, signer
        sig.append(f"v1-{spec_['kind']}-r{len(spec_['roots'])}u{spec_['used']}d{spec_['depth']}" + (f"-leaf{spec_['leaf_kind']}" if spec_["mixed"] else ""))
    elif m(mx, "MixinCertBlockV21"):
        y, spec_, signer = cert_v21(rng, d, family, want)
        cb = os.path.join(d, "cert_block_v21.yaml")
        _dump_yaml(cb, y)
        cfg["certBlock"] = cb
        _sign_with(rng, cfg, signer, True)
        b.cert, b.sign_key = spec_, signer
        sig.append(f"v21-{spec_['curve']}-r{len(spec_['roots'])}u{spec_['used']}-isk{spec_.get('isk_curve', 0)}-ud{len(spec_['user_data'])}")
        if "addManifestDigest" in props or "manifestDigestHashAlgorithm" in props:
            dg = want.get("digest", rng.choice(["none", "add", "add", "explicit"]))
            signer_curve = pki.kind_of(signer)
            alg = {"p256": "sha256", "p384": "sha384"}[signer_curve]
            if dg == "add":
                cfg["addManifestDigest"] = True
                o["digest"] = alg
            elif dg == "explicit":
                cfg["manifestDigestHashAlgorithm"] = alg     # the algorithm the signing key implies (anything else "won't boot")
                if rng.random() < 0.5:
                    cfg["addManifestDigest"] = False
                o["digest"] = alg
            else:
                if rng.random() < 0.5:
                    cfg["addManifestDigest"] = False
                o["digest"] = None
            sig.append(f"dg-{dg}")
    elif m(mx, "MixinCertBlockVx"):
        y, spec_, signer = cert_vx(rng, d, want)
        cb = os.path.join(d, "cert_block_vx.yaml")
        _dump_yaml(cb, y)
        cfg["certBlock"] = cb
        cfg["signPrivateKey"] = pki.path(signer, "priv", "pem")
        add_hash = want.get("add_hash", rng.random() < 0.6)
        if not add_hash or rng.random() < 0.5:
            cfg["addCertHash"] = bool(add_hash)
        o["add_hash"] = bool(add_hash)
        b.cert, b.sign_key = spec_, signer
        sig.append(f"vx-self{int(spec_['self_signed'])}-hash{int(add_hash)}")

    # ---- mcxc: BCA / FCF supplied as configuration (otherwise taken from the application)
    if m(mx, "MixinBca") and want.get("bca_fcf", rng.random() < 0.5) and len(b.app) >= 0x410:
        try:
            from spsdk.image.bca.bca import BCA
            from spsdk.image.fcf.fcf import FCF

            bca = BCA(family)
            fcf = FCF(family)
            bp, fp = os.path.join(d, "bca.bin"), os.path.join(d, "fcf.bin")
            bca_b, fcf_b = bytearray(bca.export()), bytearray(fcf.export())
            _w(bp, bytes(bca_b))
            _w(fp, bytes(fcf_b))
            cfg["bca"], cfg["fcf"] = bp, fp
            o["bca_bytes"], o["fcf_bytes"] = bytes(bca_b), bytes(fcf_b)
            sig.append("bca+fcf")
        except Exception as exc:  # pylint: disable=broad-except
            b.notes["bca_fcf_skipped"] = core.exc_brief(exc)

    b.cfg, b.opts, b.sig = cfg, o, sig
    return b


# ------------------------------------------------------------------------------ driving spsdk
def export(b: Built):
    """The API path of ``nxpimage mbi export``.  Returns (mbi object, bytes)."""
    from spsdk.image.mbi.mbi import get_mbi_class
    from spsdk.utils.schema_validator import check_config

    cfg = dict(b.cfg)
    cls = get_mbi_class(cfg)
    check_config(cfg, cls.get_validation_schemas_family())
    check_config(cfg, cls.get_validation_schemas(cfg["family"]), search_paths=[b.dir, "."])
    obj = cls()
    obj.load_from_config(cfg, search_paths=[b.dir, "."])
    data = obj.export()
    return obj, bytes(data)


# --------------------------------------------------------------- independent trust anchors (C02)
def anchors(b: Built) -> dict:
    """Trust anchors from the pool's raw numbers (no spsdk involved)."""
    from vf.refs import mbi_rom

    c = b.cert
    out: dict = {}
    if not c:
        return out
    if c["v"] == "v1":
        hs = []
        for name in c["roots"]:
            nums = pki.numbers(name)
            hs.append(mbi_rom.rkh_rsa(nums["n"], nums["e"]))
        out["rkth"] = mbi_rom.rkth_v1(hs)
    elif c["v"] == "v21":
        hs = []
        for name in c["roots"]:
            nums = pki.numbers(name)
            hs.append(mbi_rom.rkh_ecc(nums["x"], nums["y"], nums["size"]))
        out["rkth"] = mbi_rom.rkth_v21(hs)
    else:
        nums = pki.numbers(c["root"])
        out["root_xy"] = (nums["x"], nums["y"])
    return out
